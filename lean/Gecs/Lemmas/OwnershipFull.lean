/-
C04 — ownership along ALL labelled paths (writes and clones included).

`Lemmas/Ownership.lean` proves conservation only along paths of creations / removals / clears
(`Lbl.isCDC`).  This file removes the restriction.

* A `.write d c x` step (`writeCell`: a cell overwritten through `&mut` access) replaces exactly
  one owned cell by `x`: the cell's old value leaves (in Rust the assignment drops it), `x`
  enters.  The value that leaves is a function of the state at the time of the write; since the
  state's association-list view is the fold of the labels over the initial view
  (`lreach_view`), the list of all values displaced along a path is a FUNCTION of the initial
  view and the labels: `overwrittenFrom (view s) L`.
  A write that the model treats as a no-op (row or column out of range: `writeCell` then changes
  nothing; cannot be written in Rust, where the column is a struct field and the row comes from
  a resolved handle) "bounces": its value `x` is not stored, so it is itself the value that
  leaves (`displacedAt … = x`).  Hence every write label contributes exactly one value to each
  side of the balance.
* A `.clone cl` step is a different kind of step: `LStep cfg s (.clone cl) s'` REPLACES the
  storage `s` by its clone (`Op.cloneSwitch`: "clone, continue on the clone").  The clone owns
  `(owned s).map cl`, freshly produced by `Clone`; the originals `owned s` stay owned by the
  source storage, which the path no longer follows (its `Drop` drops exactly them,
  `drop_returns_owned`).  `conservation_all_labels` accounts for this with the list `srcs` of
  the source storages left behind, one per clone label; the clone-free statements
  (`Lbl.isClone`, `Op.NoClone`) are its specialisation to `srcs = []`.

Statements (storage level, `LReach cfg s L s'`, `RowsOk`):
  `write_step_owned`, `write_step_owned_ex`      one write step
  `conservation_all_labels`                      every path, clones accounted by `srcs`
  `conservation_with_writes_explicit`            clone-free, overwritten list explicit
  `conservation_with_writes`                     clone-free, existential form
  `conservation_drop_with_writes`                … composed with `Drop`
  `nodup_with_writes`                            no duplication
World level (`run`, all histories of `Op.NoClone` operations / of all operations):
  `C04_all_histories_with_writes`, `C04_all_histories_all_ops`.
-/
import Gecs.Props.Histories

namespace Gecs
variable {α σ : Type}

/-! ## Labels -/

def Lbl.isWrite : Lbl α → Bool
  | .write _ _ _ => true
  | _ => false

/-- A clone label: the step replaces the storage by its clone (see the header). -/
def Lbl.isClone : Lbl α → Bool
  | .clone _ => true
  | _ => false

/-- The values written by the `.write` labels of `L`, in order. -/
def writtenVals (L : List (Lbl α)) : List α :=
  L.flatMap (fun l => match l with | .write _ _ x => [x] | _ => [])

/-- The clone functions of the `.clone` labels of `L`, in order. -/
def cloneFns (L : List (Lbl α)) : List (α → α) :=
  L.filterMap (fun l => match l with | .clone cl => some cl | _ => none)

/-- The value that leaves when `x` is written to cell `c` of row `d` of the view `v`: the old
value of the cell; if there is no such cell the write is a no-op and `x` itself is not stored. -/
def displacedAt (v : List (Ent × List α)) (d c : Nat) (x : α) : α :=
  (v[d]?.bind (fun p => p.2[c]?)).getD x

/-- All values displaced by the writes of `L`, in order, starting from the view `v`
(the view evolves by `applyLbl`, Lemmas/Values.lean). -/
def overwrittenFrom : List (Ent × List α) → List (Lbl α) → List α
  | _, [] => []
  | v, l :: L =>
    (match l with | .write d c x => [displacedAt v d c x] | _ => [])
      ++ overwrittenFrom (applyLbl v l) L

theorem overwrittenFrom_append (v : List (Ent × List α)) (L₁ L₂ : List (Lbl α)) :
    overwrittenFrom v (L₁ ++ L₂)
      = overwrittenFrom v L₁ ++ overwrittenFrom (L₁.foldl applyLbl v) L₂ := by
  induction L₁ generalizing v with
  | nil => simp [overwrittenFrom]
  | cons l L₁ ih => simp [overwrittenFrom, ih, List.append_assoc]

/-- Exactly one displaced value per write label. -/
theorem overwrittenFrom_length (v : List (Ent × List α)) (L : List (Lbl α)) :
    (overwrittenFrom v L).length = (L.filter Lbl.isWrite).length := by
  induction L generalizing v with
  | nil => rfl
  | cons l L ih => cases l <;> simp [overwrittenFrom, ih, Lbl.isWrite, List.filter_cons]

theorem writtenVals_length (L : List (Lbl α)) :
    (writtenVals L).length = (L.filter Lbl.isWrite).length := by
  induction L with
  | nil => rfl
  | cons l L ih =>
    cases l <;> simp [writtenVals, Lbl.isWrite, List.filter_cons] at ih ⊢ <;> omega

theorem cloneFns_eq_nil {L : List (Lbl α)} (hnc : ∀ l ∈ L, l.isClone = false) :
    cloneFns L = [] := by
  unfold cloneFns
  rw [List.filterMap_eq_nil_iff]
  intro l hl
  have := hnc l hl
  cases l <;> simp [Lbl.isClone] at this ⊢

/-- The values produced by `Clone` along a path: clone function `i` applied to every value
owned by the `i`-th source storage. -/
def clonedVals (fs : List (α → α)) (srcs : List (Storage α)) : List α :=
  (List.zipWith (fun cl t => (owned t).map cl) fs srcs).flatten

theorem clonedVals_snoc (fs : List (α → α)) (srcs : List (Storage α)) (cl : α → α)
    (t : Storage α) (h : srcs.length = fs.length) :
    clonedVals (fs ++ [cl]) (srcs ++ [t]) = clonedVals fs srcs ++ (owned t).map cl := by
  unfold clonedVals
  rw [List.zipWith_append h.symm]
  simp

/-! ## Multiset reasoning by counting (classical decidable equality, proofs only) -/

section Count
open Classical

private noncomputable def cnt (a : α) (l : List α) : Nat := l.count a

private theorem cnt_append (a : α) (l₁ l₂ : List α) : cnt a (l₁ ++ l₂) = cnt a l₁ + cnt a l₂ := by
  simp [cnt, List.count_append]

private theorem perm_iff_cnt {l₁ l₂ : List α} : l₁.Perm l₂ ↔ ∀ a, cnt a l₁ = cnt a l₂ :=
  List.perm_iff_count

end Count

/-! ## One write step -/

/-- The displaced value, read off the storage: in range it is the old value of the cell, out of
range it is the written value itself. -/
theorem displacedAt_view {cfg : Cfg} {s : Storage α} (h : Inv cfg s) (d c : Nat) (x : α) :
    (d < s.len ∧ c < s.cols.length →
        (rowAt s d)[c]? = some (displacedAt (view s) d c x))
    ∧ (¬ (d < s.len ∧ c < s.cols.length) → displacedAt (view s) d c x = x) := by
  unfold displacedAt
  rw [view_getElem? h d]
  constructor
  · rintro ⟨hd, hc⟩
    have hd' : d < s.ents.length := by rw [h.entsLen]; exact hd
    have hc' : c < (rowAt s d).length := by rw [rowAt_length h hd]; exact hc
    simp [List.getElem?_eq_getElem hd', List.getElem?_eq_getElem hc']
  · intro hno
    by_cases hd : d < s.len
    · have hc : ¬ c < s.cols.length := fun hc => hno ⟨hd, hc⟩
      have hd' : d < s.ents.length := by rw [h.entsLen]; exact hd
      have hn : (rowAt s d)[c]? = none := by
        rw [List.getElem?_eq_none_iff, rowAt_length h hd]; omega
      simp [List.getElem?_eq_getElem hd', hn]
    · have : s.ents[d]? = none := by rw [List.getElem?_eq_none_iff, h.entsLen]; omega
      simp [this]

/-- A write step: the value displaced (the cell's old value; the written value itself if the
write is a no-op) leaves, the written value enters. -/
theorem write_step_owned {cfg : Cfg} {s s' : Storage α} {d c : Nat} {x : α} (h : Inv cfg s)
    (st : LStep cfg s (.write d c x) s') :
    (owned s' ++ [displacedAt (view s) d c x]).Perm (owned s ++ [x]) := by
  obtain ⟨h1, h2⟩ := write_owned h st
  obtain ⟨g1, g2⟩ := displacedAt_view h d c x
  by_cases hin : d < s.len ∧ c < s.cols.length
  · obtain ⟨old, ho, hp⟩ := h1 hin
    have := g1 hin
    rw [ho] at this
    cases this
    exact hp
  · rw [h2 hin, g2 hin]

/-- … in the existential form: exactly one value leaves, `x` enters. -/
theorem write_step_owned_ex {cfg : Cfg} {s s' : Storage α} {d c : Nat} {x : α} (h : Inv cfg s)
    (st : LStep cfg s (.write d c x) s') :
    ∃ old, (owned s' ++ [old]).Perm (owned s ++ [x])
      ∧ (d < s.len ∧ c < s.cols.length → (rowAt s d)[c]? = some old)
      ∧ (¬ (d < s.len ∧ c < s.cols.length) → old = x ∧ s' = s) :=
  ⟨displacedAt (view s) d c x, write_step_owned h st, (displacedAt_view h d c x).1,
    fun hno => ⟨(displacedAt_view h d c x).2 hno, (write_owned h st).2 hno⟩⟩

/-! ## Along a path: every label -/

/-- Conservation along EVERY labelled path.  Everything that ever entered — initially owned,
moved in by a creation, written, or produced by `Clone` — is at the end exactly once either
still owned, or was handed back by a removal, or was displaced by a write, or was left behind
in the source storage of a clone step (`srcs`, one `Inv` storage per clone label, in order;
`Drop` of such a source drops exactly `owned` of it, `drop_returns_owned`). -/
theorem conservation_all_labels {cfg : Cfg} {s s' : Storage α} {L : List (Lbl α)}
    (hr : RowsOk s.cols.length L) (r : LReach cfg s L s') :
    ∃ srcs : List (Storage α), srcs.length = (cloneFns L).length ∧ (∀ t ∈ srcs, Inv cfg t)
      ∧ (owned s' ++ destroyedRows L ++ overwrittenFrom (view s) L ++ srcs.flatMap owned).Perm
          (owned s ++ createdRows L ++ writtenVals L ++ clonedVals (cloneFns L) srcs) := by
  induction r with
  | refl =>
    exact ⟨[], rfl, fun _ h => (nomatch h),
      by simp [createdRows, destroyedRows, writtenVals, overwrittenFrom, clonedVals, cloneFns]⟩
  | @step s₁ s₂ L₁ l r hi st ih =>
    obtain ⟨srcs, hlen, hinv, hp⟩ := ih hr.init
    have hcl := cols_length_preserved hr.init r
    have hv : L₁.foldl applyLbl (view s) = view s₁ := (lreach_view hr.init r).symm
    have hcr : createdRows (L₁ ++ [l]) = createdRows L₁ ++ createdRows [l] := by
      simp [createdRows]
    have hde : destroyedRows (L₁ ++ [l]) = destroyedRows L₁ ++ destroyedRows [l] := by
      simp [destroyedRows]
    have hwr : writtenVals (L₁ ++ [l]) = writtenVals L₁ ++ writtenVals [l] := by
      simp [writtenVals]
    have hov : overwrittenFrom (view s) (L₁ ++ [l])
        = overwrittenFrom (view s) L₁ ++ overwrittenFrom (view s₁) [l] := by
      rw [overwrittenFrom_append, hv]
    have hcf : cloneFns (L₁ ++ [l]) = cloneFns L₁ ++ cloneFns [l] := by
      simp [cloneFns]
    rw [hcr, hde, hwr, hov, hcf]
    rw [perm_iff_cnt] at hp
    cases l with
    | created e row =>
      have hrow : row.length = s₁.cols.length := by
        rw [hcl]; exact hr e row (by simp)
      have h1 := perm_iff_cnt.mp (created_owned hi hrow st)
      have e1 : createdRows [Lbl.created e row] = row := by simp [createdRows]
      have e2 : destroyedRows [Lbl.created e row] = [] := by simp [destroyedRows]
      have e3 : writtenVals [Lbl.created e row] = [] := by simp [writtenVals]
      have e4 : overwrittenFrom (view s₁) [Lbl.created e row] = [] := by simp [overwrittenFrom]
      have e5 : cloneFns [Lbl.created e row] = [] := by simp [cloneFns]
      rw [e1, e2, e3, e4, e5]
      refine ⟨srcs, by simpa using hlen, hinv, perm_iff_cnt.mpr ?_⟩
      intro a
      have := hp a
      have := h1 a
      simp only [cnt_append, List.append_nil] at *
      omega
    | destroyed t row =>
      have h1 := perm_iff_cnt.mp (destroyed_owned hi st)
      have e1 : createdRows [Lbl.destroyed t row] = [] := by simp [createdRows]
      have e2 : destroyedRows [Lbl.destroyed t row] = row := by simp [destroyedRows]
      have e3 : writtenVals [Lbl.destroyed t row] = [] := by simp [writtenVals]
      have e4 : overwrittenFrom (view s₁) [Lbl.destroyed t row] = [] := by simp [overwrittenFrom]
      have e5 : cloneFns [Lbl.destroyed t row] = [] := by simp [cloneFns]
      rw [e1, e2, e3, e4, e5]
      refine ⟨srcs, by simpa using hlen, hinv, perm_iff_cnt.mpr ?_⟩
      intro a
      have := hp a
      have := h1 a
      simp only [cnt_append, List.append_nil] at *
      omega
    | write d c x =>
      have h1 := perm_iff_cnt.mp (write_step_owned hi st)
      have e1 : createdRows [Lbl.write d c x] = [] := by simp [createdRows]
      have e2 : destroyedRows [Lbl.write d c x] = [] := by simp [destroyedRows]
      have e3 : writtenVals [Lbl.write d c x] = [x] := by simp [writtenVals]
      have e4 : overwrittenFrom (view s₁) [Lbl.write d c x] = [displacedAt (view s₁) d c x] := by
        simp [overwrittenFrom]
      have e5 : cloneFns [Lbl.write d c x] = [] := by simp [cloneFns]
      rw [e1, e2, e3, e4, e5]
      refine ⟨srcs, by simpa using hlen, hinv, perm_iff_cnt.mpr ?_⟩
      intro a
      have := hp a
      have := h1 a
      simp only [cnt_append, List.append_nil] at *
      omega
    | clear =>
      have h1 := clear_owned st
      have e1 : createdRows [(Lbl.clear : Lbl α)] = [] := by simp [createdRows]
      have e2 : destroyedRows [(Lbl.clear : Lbl α)] = [] := by simp [destroyedRows]
      have e3 : writtenVals [(Lbl.clear : Lbl α)] = [] := by simp [writtenVals]
      have e4 : overwrittenFrom (view s₁) [(Lbl.clear : Lbl α)] = [] := by simp [overwrittenFrom]
      have e5 : cloneFns [(Lbl.clear : Lbl α)] = [] := by simp [cloneFns]
      rw [e1, e2, e3, e4, e5, h1]
      refine ⟨srcs, by simpa using hlen, hinv, perm_iff_cnt.mpr ?_⟩
      intro a
      have := hp a
      simp only [cnt_append, List.append_nil] at *
      omega
    | clone cl =>
      have h1 := clone_owned st
      have e1 : createdRows [Lbl.clone cl] = [] := by simp [createdRows]
      have e2 : destroyedRows [Lbl.clone cl] = [] := by simp [destroyedRows]
      have e3 : writtenVals [Lbl.clone cl] = [] := by simp [writtenVals]
      have e4 : overwrittenFrom (view s₁) [Lbl.clone cl] = [] := by simp [overwrittenFrom]
      have e5 : cloneFns [Lbl.clone cl] = [cl] := by simp [cloneFns]
      rw [e1, e2, e3, e4, e5, h1]
      refine ⟨srcs ++ [s₁], by simpa using hlen, ?_, perm_iff_cnt.mpr ?_⟩
      · intro t ht
        rcases List.mem_append.mp ht with ht | ht
        · exact hinv t ht
        · rw [List.mem_singleton.mp ht]; exact hi
      · intro a
        have := hp a
        rw [clonedVals_snoc _ _ _ _ hlen]
        simp only [cnt_append, List.append_nil, List.flatMap_append, List.flatMap_cons,
          List.flatMap_nil] at *
        omega

/-! ## Along a clone-free path -/

/-- Conservation along any CLONE-FREE path (writes included), with the list of displaced values
explicit: everything that ever entered — initially owned, moved in by a creation, written — is
at the end exactly once either still owned, or was handed back by a removal, or was displaced
by a write. -/
theorem conservation_with_writes_explicit {cfg : Cfg} {s s' : Storage α} {L : List (Lbl α)}
    (hr : RowsOk s.cols.length L) (hnc : ∀ l ∈ L, l.isClone = false) (r : LReach cfg s L s') :
    (owned s' ++ destroyedRows L ++ overwrittenFrom (view s) L).Perm
      (owned s ++ createdRows L ++ writtenVals L) := by
  obtain ⟨srcs, hlen, _, hp⟩ := conservation_all_labels hr r
  rw [cloneFns_eq_nil hnc] at hlen hp
  have : srcs = [] := List.eq_nil_of_length_eq_zero hlen
  subst this
  simpa [clonedVals] using hp

/-- The existential form: one displaced value per write label. -/
theorem conservation_with_writes {cfg : Cfg} {s s' : Storage α} {L : List (Lbl α)}
    (hr : RowsOk s.cols.length L) (hnc : ∀ l ∈ L, l.isClone = false) (r : LReach cfg s L s') :
    ∃ overwritten : List α, overwritten.length = (L.filter Lbl.isWrite).length
      ∧ (owned s' ++ destroyedRows L ++ overwritten).Perm
          (owned s ++ createdRows L ++ writtenVals L) :=
  ⟨overwrittenFrom (view s) L, overwrittenFrom_length _ _,
    conservation_with_writes_explicit hr hnc r⟩

/-- … and dropping the final storage drops exactly the rest: nothing leaks, nothing is dropped
twice. -/
theorem conservation_drop_with_writes {cfg : Cfg} {s s' : Storage α} {L : List (Lbl α)}
    (h : Inv cfg s) (hr : RowsOk s.cols.length L) (hnc : ∀ l ∈ L, l.isClone = false)
    (r : LReach cfg s L s') :
    ∃ dropped overwritten, dropStorage s' = .ok dropped ()
      ∧ overwritten = overwrittenFrom (view s) L
      ∧ overwritten.length = (L.filter Lbl.isWrite).length
      ∧ (dropped ++ destroyedRows L ++ overwritten).Perm
          (owned s ++ createdRows L ++ writtenVals L) :=
  ⟨owned s', overwrittenFrom (view s) L, drop_returns_owned (lockstep h r), rfl,
    overwrittenFrom_length _ _, conservation_with_writes_explicit hr hnc r⟩

/-- With pairwise distinct tokens (initial, created and written): no token is owned twice, none
is handed back twice, none is displaced twice, none is both handed back and displaced, and none
is handed back or displaced while still owned (in particular while it is a value of a live
entity). -/
theorem nodup_with_writes {cfg : Cfg} {s s' : Storage α} {L : List (Lbl α)}
    (hr : RowsOk s.cols.length L) (hnc : ∀ l ∈ L, l.isClone = false) (r : LReach cfg s L s')
    (hnd : (owned s ++ createdRows L ++ writtenVals L).Nodup) :
    (owned s').Nodup ∧ (destroyedRows L).Nodup ∧ (overwrittenFrom (view s) L).Nodup
      ∧ (∀ x ∈ destroyedRows L, x ∉ owned s')
      ∧ (∀ x ∈ overwrittenFrom (view s) L, x ∉ owned s')
      ∧ (∀ x ∈ overwrittenFrom (view s) L, x ∉ destroyedRows L)
      ∧ (∀ e row, valueOf s' e = some row → ∀ x ∈ row,
          x ∉ destroyedRows L ∧ x ∉ overwrittenFrom (view s) L) := by
  have hp := conservation_with_writes_explicit hr hnc r
  have hnd' := hp.nodup_iff.mpr hnd
  obtain ⟨h12, h3, h123⟩ := List.nodup_append.mp hnd'
  obtain ⟨h1, h2, h1_2⟩ := List.nodup_append.mp h12
  have a1 : ∀ x ∈ destroyedRows L, x ∉ owned s' := fun x hx ho => h1_2 x ho x hx rfl
  have a2 : ∀ x ∈ overwrittenFrom (view s) L, x ∉ owned s' :=
    fun x hx ho => h123 x (List.mem_append_left _ ho) x hx rfl
  have a3 : ∀ x ∈ overwrittenFrom (view s) L, x ∉ destroyedRows L :=
    fun x hx hd => h123 x (List.mem_append_right _ hd) x hx rfl
  refine ⟨h1, h2, h3, a1, a2, a3, ?_⟩
  intro e row hv x hx
  have ho := valueOf_subset_owned hv x hx
  exact ⟨fun hd => a1 x hd ho, fun hw => a2 x hw ho⟩

/-- Everything still owned, handed back or displaced was there initially, was moved in or was
written (nothing is made up), and conversely (nothing is lost). -/
theorem conservation_mem_with_writes {cfg : Cfg} {s s' : Storage α} {L : List (Lbl α)}
    (hr : RowsOk s.cols.length L) (hnc : ∀ l ∈ L, l.isClone = false) (r : LReach cfg s L s')
    (x : α) :
    (x ∈ owned s' ∨ x ∈ destroyedRows L ∨ x ∈ overwrittenFrom (view s) L)
      ↔ (x ∈ owned s ∨ x ∈ createdRows L ∨ x ∈ writtenVals L) := by
  have := (conservation_with_writes_explicit hr hnc r).mem_iff (a := x)
  simpa [List.mem_append, or_assoc] using this

/-- On paths of creations / removals / clears nothing is written or displaced: the statements
above specialise to those of Lemmas/Ownership.lean. -/
theorem overwrittenFrom_of_cdc {L : List (Lbl α)} (hcdc : ∀ l ∈ L, l.isCDC = true)
    (v : List (Ent × List α)) : overwrittenFrom v L = [] ∧ writtenVals L = [] := by
  induction L generalizing v with
  | nil => exact ⟨rfl, rfl⟩
  | cons l L ih =>
    have hl := hcdc l List.mem_cons_self
    have ih' := fun v => ih (fun l' hl' => hcdc l' (List.mem_cons_of_mem _ hl')) v
    cases l with
    | write d c x => simp [Lbl.isCDC] at hl
    | clone cl => simp [Lbl.isCDC] at hl
    | created e row =>
      exact ⟨by simp [overwrittenFrom, (ih' _).1], by
        have := (ih' v).2; simp [writtenVals] at this ⊢; exact this⟩
    | destroyed t row =>
      exact ⟨by simp [overwrittenFrom, (ih' _).1], by
        have := (ih' v).2; simp [writtenVals] at this ⊢; exact this⟩
    | clear =>
      exact ⟨by simp [overwrittenFrom, (ih' _).1], by
        have := (ih' v).2; simp [writtenVals] at this ⊢; exact this⟩

/-! ## World histories -/

def Op.isCloneSwitch : Op α → Bool
  | .cloneSwitch _ => true
  | _ => false

/-- Every operation except `cloneSwitch` ("replace the world by its clone").  Overwriting
operations — `write`, and `ecs_iter!` / `ecs_find!` / `ecs_iter_destroy!` binding columns
`&mut` — are included (`Op.IsCDC` excludes them). -/
def Op.NoClone (op : Op α) : Prop := op.isCloneSwitch = false

instance (op : Op α) : Decidable op.NoClone := inferInstanceAs (Decidable (_ = false))

theorem Op.IsCDC.noClone {op : Op α} (h : op.IsCDC) : op.NoClone := by
  cases op <;> first | rfl | exact h.elim

/-- A history without `cloneSwitch` emits no `.clone` label. -/
theorem OpsEmit.noClone {a : Nat} {ops : List (Op α)} {L : List (Lbl α)}
    (hnc : ∀ op ∈ ops, op.NoClone) (h : OpsEmit a ops L) : ∀ l ∈ L, l.isClone = false := by
  intro l hl
  obtain ⟨op, hop, hem⟩ := h.mem l hl
  have hc := hnc op hop
  cases l with
  | created e row => rfl
  | destroyed t row => rfl
  | clear => rfl
  | write d c x => rfl
  | clone cl =>
    cases op with
    | cloneSwitch cl' => simp [Op.NoClone, Op.isCloneSwitch] at hc
    | write u c' x' => exact hem.elim
    | iter q σ f st => exact hem.elim
    | iterDestroy q σ f st => exact hem.elim
    | find q σ f h st => exact hem.elim
    | create b row g => exact hem.elim
    | createWithin b row => exact hem.elim
    | destroy u => exact hem.elim
    | clearEvents oa => exact hem.elim

/-! ## Non-vacuity -/

namespace StorageEx

/-- `pathExL` (Lemmas/Values.lean) = creation of `⟨1,2⟩ ↦ [13,23]`, write of `77` to cell 1 of
row 2 (displacing `23`), removal of `⟨0,1⟩` (handing back `[10,20]`), `clear_events`. -/
theorem pathEx_noClone : ∀ l ∈ pathExL, l.isClone = false := by decide

example : owned holeEx = [10, 12, 20, 22] ∧ createdRows pathExL = [13, 23]
    ∧ writtenVals pathExL = [77] ∧ destroyedRows pathExL = [10, 20]
    ∧ overwrittenFrom (view holeEx) pathExL = [23]
    ∧ owned (clearEvents pathEx3) = [13, 12, 77, 22] := by decide

example : (pathExL.filter Lbl.isWrite).length = 1 := by decide

example : (owned (clearEvents pathEx3) ++ [10, 20] ++ [23]).Perm
    ([10, 12, 20, 22] ++ [13, 23] ++ [77]) :=
  conservation_with_writes_explicit pathEx_rowsOk pathEx_noClone pathEx_reach

example : ∃ overwritten : List Nat, overwritten.length = 1
    ∧ (owned (clearEvents pathEx3) ++ [10, 20] ++ overwritten).Perm
        ([10, 12, 20, 22] ++ [13, 23] ++ [77]) :=
  conservation_with_writes pathEx_rowsOk pathEx_noClone pathEx_reach

example : ∃ dropped overwritten, dropStorage (clearEvents pathEx3) = .ok dropped ()
    ∧ overwritten = [23] ∧ overwritten.length = 1
    ∧ (dropped ++ [10, 20] ++ overwritten).Perm ([10, 12, 20, 22] ++ [13, 23] ++ [77]) :=
  conservation_drop_with_writes holeEx_inv pathEx_rowsOk pathEx_noClone pathEx_reach

example : (owned holeEx ++ createdRows pathExL ++ writtenVals pathExL).Nodup := by decide

example : (owned (clearEvents pathEx3)).Nodup
    ∧ (∀ x ∈ [10, 20], x ∉ owned (clearEvents pathEx3))
    ∧ (∀ x ∈ [23], x ∉ owned (clearEvents pathEx3)) :=
  let h := nodup_with_writes pathEx_rowsOk pathEx_noClone pathEx_reach (by decide)
  ⟨h.1, h.2.2.2.1, h.2.2.2.2.1⟩

-- one write step, in range: `23` leaves, `77` enters
example : (owned (writeCell pathEx1 2 1 77) ++ [23]).Perm (owned pathEx1 ++ [77]) :=
  write_step_owned (lstep_inv holeEx_inv pathEx_step1) pathEx_step2

/-- A write out of range is a no-op of the model; its value bounces. -/
theorem bounceEx_reach : LReach cfgEx holeEx ([] ++ [.write 5 0 99]) (writeCell holeEx 5 0 99) :=
  .step (.refl _) holeEx_inv (.write holeEx 5 0 99)

example : writeCell holeEx 5 0 99 = holeEx :=
  (write_owned holeEx_inv (.write holeEx 5 0 99)).2 (by decide)

example : overwrittenFrom (view holeEx) [.write 5 0 99] = [99] := by decide

example : (owned (writeCell holeEx 5 0 99) ++ [] ++ [99]).Perm (owned holeEx ++ [] ++ [99]) :=
  conservation_with_writes_explicit (fun _ _ h => by simp at h) (by decide) bounceEx_reach

/-- A path with a clone step: creation, `Clone` with `(· + 100)`, write of `7` to cell 0 of row
0 of the clone (displacing `110`).  The source `pathEx1` keeps `[10, 12, 13, 20, 22, 23]`. -/
def cloneExL : List (Lbl Nat) := [.created ⟨1, 2⟩ [13, 23], .clone (· + 100), .write 0 0 7]

def cloneEx2 : Storage Nat := { pathEx1 with cols := pathEx1.cols.map (·.map (· + 100)) }

theorem cloneEx_reach : LReach cfgEx holeEx cloneExL (writeCell cloneEx2 0 0 7) := by
  have i1 := lstep_inv holeEx_inv pathEx_step1
  have st2 : LStep cfgEx pathEx1 (.clone (· + 100)) cloneEx2 := .clone pathEx1 (· + 100)
  have i2 := lstep_inv i1 st2
  exact .step (.step (.step (.refl _) holeEx_inv pathEx_step1) i1 st2) i2 (.write cloneEx2 0 0 7)

theorem cloneEx_rowsOk : RowsOk holeEx.cols.length cloneExL := by
  intro e row hm
  simp only [cloneExL, List.mem_cons, List.not_mem_nil, or_false] at hm
  rcases hm with hm | hm | hm
  · cases hm; rfl
  · cases hm
  · cases hm

example : owned (writeCell cloneEx2 0 0 7) = [7, 112, 113, 120, 122, 123]
    ∧ overwrittenFrom (view holeEx) cloneExL = [110]
    ∧ owned pathEx1 = [10, 12, 13, 20, 22, 23]
    ∧ clonedVals [(· + 100)] [pathEx1] = [110, 112, 113, 120, 122, 123] := by decide

example : ∃ srcs : List (Storage Nat), srcs.length = 1 ∧ (∀ t ∈ srcs, Inv cfgEx t)
    ∧ (owned (writeCell cloneEx2 0 0 7) ++ [] ++ [110] ++ srcs.flatMap owned).Perm
        ([10, 12, 20, 22] ++ [13, 23] ++ [7] ++ clonedVals [(· + 100)] srcs) :=
  conservation_all_labels cloneEx_rowsOk cloneEx_reach

end StorageEx

end Gecs

section
open Gecs
#print axioms write_step_owned
#print axioms write_step_owned_ex
#print axioms conservation_all_labels
#print axioms conservation_with_writes_explicit
#print axioms conservation_with_writes
#print axioms conservation_drop_with_writes
#print axioms nodup_with_writes
#print axioms conservation_mem_with_writes
#print axioms overwrittenFrom_of_cdc
#print axioms OpsEmit.noClone
end
