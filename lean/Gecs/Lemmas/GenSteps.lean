/-
Tie of the statement lists TRANSLATED from src/archetype/storage.rs / slot.rs on every run
(Gecs/Gen/Steps.lean) to the hand-written primitives of Model/Storage.lean: running the
extracted statements in source order, with the meaning Model/Steps.lean gives to each
statement, IS `forceCreate` / `forceDestroy` / `grow` — results, final states and the states
left behind by the two overflow panics included.  The proofs are by symbolic execution of the
concrete lists, so a re-ordering of independent statements in the Rust code still checks, while
one that moves a `next()` behind a mutation, reads a slot after overwriting it, or updates
`len` before the writes that use it, does not.

Hypotheses: `DenseOk` (handles and columns initialised exactly up to `len`) and, for
`force_destroy`, `d < len` — the `# Safety` contract of the two functions, which every caller in
the model establishes from `Inv` (`Lemmas/Inv.lean`); `grow` needs `len ≤ capacity`.
-/
import Gecs.Gen.Steps

set_option linter.unusedSimpArgs false

namespace Gecs

variable {α : Type}

/-- The part of the representation invariant the callers of the `force_*` primitives
guarantee for the dense arrays: handles and every column are initialised exactly up to `len`. -/
def DenseOk (s : Storage α) : Prop :=
  s.ents.length = s.len ∧ ∀ c ∈ s.cols, c.length = s.len

theorem denseOk_colsAll (s : Storage α) (hok : DenseOk s) :
    (s.cols.all (fun c => c.length == s.len)) = true := by
  simp only [List.all_eq_true, beq_iff_eq]; exact hok.2

theorem denseOk_colsAny (s : Storage α) (hok : DenseOk s) :
    (s.cols.any (fun c => c.length != s.len)) = false := by
  simp only [List.any_eq_false, bne_iff_ne, ne_eq, Decidable.not_not]; exact hok.2

/-- `StorageN::grow`, statement by statement, is the model's `grow` (`none` = `return false`). -/
theorem gen_steps_grow (cfg : Cfg) (s : Storage α) (nc : Nat) (hle : s.len ≤ s.capacity) :
    execGrow cfg Gen.growSteps s nc = .ok (grow cfg s nc) () := by
  unfold execGrow grow Gen.growSteps
  by_cases hroom : s.capacity ≥ cfg.maxCap
  · simp [runG, gstep, hroom]
  · have hl : s.len < cfg.maxCap := by omega
    simp [runG, gstep, hroom, hl]

/-- `StorageN::force_create`, statement by statement, is the model's `forceCreate`. -/
theorem gen_steps_force_create (cfg : Cfg) (s : Storage α) (row : List α) (hok : DenseOk s) :
    Out.same (execCreate cfg Gen.slotBodies Gen.forceCreateSteps s row) (forceCreate cfg s row) := by
  have hall := denseOk_colsAll s hok
  have hlen := hok.1
  unfold execCreate forceCreate Gen.forceCreateSteps Gen.slotBodies Gen.slotAssign Gen.slotRelease
  cases hfh : s.freeHead with
  | data i => simp [runC, cstep, hfh, Out.same]
  | freeEnd => simp [runC, cstep, hfh, Out.same]
  | free si =>
    by_cases hcap : s.len < cfg.maxCap
    · cases hsl : s.slots[si]? with
      | none =>
        have : ¬ si < s.slots.length := by
          intro h; simp [List.getElem?_eq_getElem h] at hsl
        simp [runC, cstep, hfh, hcap, hsl, this, Out.same]
      | some sl =>
        have hlt : si < s.slots.length := (List.getElem?_eq_some_iff.mp hsl).1
        cases hev : cfg.events <;>
          simp [runC, cstep, hfh, hcap, hlt, hev, Out.same, applySlotSets, applySlotSet, writeAt, writeCols, hlen, hall] <;>
          simp [List.getElem?_eq_getElem hlt] at hsl <;> simp [hsl]
    · cases hsl : s.slots[si]? <;> simp [runC, cstep, hfh, hcap, hsl, Out.same]

/-- `StorageN::force_destroy`, statement by statement, is the model's `forceDestroy`: same
result and final state, and the same state behind each of the two overflow panics (i.e. the
untouched one). -/
theorem gen_steps_force_destroy (cfg : Cfg) (s : Storage α) (si d : Nat) (hok : DenseOk s) (hd : d < s.len) :
    Out.same (execDestroy cfg Gen.slotBodies Gen.forceDestroySteps s si d) (forceDestroy cfg s si d) := by
  have hall := denseOk_colsAll s hok
  have hany := denseOk_colsAny s hok
  have hlen := hok.1
  have hd' : d < s.ents.length := by omega
  have hl' : s.len - 1 < s.ents.length := by omega
  have hne : ¬ s.len = 0 := by omega
  have hnd : ¬ d ≥ s.len := by omega
  unfold execDestroy forceDestroy Gen.forceDestroySteps Gen.slotBodies Gen.slotAssign Gen.slotRelease
  cases hsl : s.slots[si]? with
  | none => simp [runD, dstep, hlen, hsl, hnd, hany, Out.same, List.getElem?_eq_getElem hd', List.getElem?_eq_getElem hl']
  | some sl =>
    obtain ⟨hsi, hslg⟩ := List.getElem?_eq_some_iff.mp hsl
    cases hsv : nextVer cfg sl.ver with
    | none => simp [runD, dstep, hlen, hsl, hslg, hsv, hnd, hany, Out.same, List.getElem?_eq_getElem hd', List.getElem?_eq_getElem hl']
    | some sv =>
      cases hav : nextVer cfg s.version with
      | none => simp [runD, dstep, hlen, hsl, hslg, hsv, hav, hnd, hany, Out.same, List.getElem?_eq_getElem hd', List.getElem?_eq_getElem hl']
      | some av =>
        cases hls : s.slots[(s.ents[s.len - 1]'hl').slot]? with
        | none =>
          cases hev : cfg.events <;>
            simp [runD, dstep, hlen, hsl, hslg, hsv, hav, hnd, hd, hne, hany, hall, hev, hls, Out.same,
              List.getElem?_eq_getElem hd', List.getElem?_eq_getElem hl']
        | some lsl =>
          obtain ⟨hlsi, hlsg⟩ := List.getElem?_eq_some_iff.mp hls
          cases hev : cfg.events <;>
            simp [runD, dstep, hlen, hsl, hslg, hsv, hav, hnd, hd, hne, hany, hall, hev, hls, hlsg, hsi, hlsi, Out.same,
              applySlotSets, applySlotSet,
              List.getElem?_eq_getElem hd', List.getElem?_eq_getElem hl']

/-! ### The interpreter discriminates: the statement order of the pinned (pre-fix) tree

With the archetype version at its maximum, the order in which defect F1 had the statements
(`version.next()` AFTER the swap-remove) leaves a panic state that has already lost the
entity's handle, while the hand-written primitive (and the repaired source order, by
`gen_steps_force_destroy`) leaves the state untouched. -/

def f1Order : List DStep :=
  [.bindIndices, .bindEntities, .nextSlotVersion, .pushDestroyed, .lastDenseIndex, .lastEntity, .lastSlotIndex,
   .swapRemoveEntities, .swapRemoveColumns, .bindSlots, .assignLast, .releaseTarget, .nextArchVersion, .setVersion,
   .setFreeHead, .decLen, .returnResult]

def f1State : Storage Nat :=
  { version := 7, len := 1, capacity := 1, freeHead := .freeEnd, slots := [⟨.data 0, 1⟩], ents := [⟨0, 1⟩],
    cols := [[42]], created := [], destroyed := [] }

def f1Cfg : Cfg := { maxCap := 16, vmax := 7, wrapping := false, events := false, debug := false }

def panicEnts {β : Type} : Out (Storage Nat) β → Option Nat
  | .panic _ s => some s.ents.length
  | _ => none

example : panicEnts (execDestroy f1Cfg Gen.slotBodies f1Order f1State 0 0) = some 0
    ∧ panicEnts (forceDestroy f1Cfg f1State 0 0) = some 1
    ∧ panicEnts (execDestroy f1Cfg Gen.slotBodies Gen.forceDestroySteps f1State 0 0) = some 1 := by
  decide

/-- Non-vacuity of the hypotheses: a populated storage meets `DenseOk` and `d < len`. -/
example : DenseOk f1State ∧ 0 < f1State.len := by
  refine ⟨⟨rfl, ?_⟩, by decide⟩
  intro c hc; simp [f1State] at hc; subst hc; rfl

end Gecs
