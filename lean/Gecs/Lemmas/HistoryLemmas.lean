/-
History-level arguments about one storage, made once per atomic step (`SStep`) and lifted
along `SReach`:

1. C01 / C08: a handle that has left the dense array never comes back, and a newly issued
   handle differs from every handle issued before (ghost state `seen`, invariant `HInv`);
2. C09: a direct handle `(d, archetype version)` is accepted later only if it still designates
   the entity it was issued for (`Later`: version monotone, same version ⇒ dense prefix kept);
3. C12: `len` / `capacity` bookkeeping along histories.

Everything about generations is for the NON-wrapping configuration (`cfg.wrapping = false`);
with `wrapping_version` C08 is false by design (`C08_wrapping_witness`).
-/
import Gecs.Lemmas.StorageOps
import Gecs.Lemmas.Reach

namespace Gecs
variable {α : Type}

/-! ## Preliminaries: classification of the atomic steps -/

private theorem Inv.cfgOk {cfg : Cfg} {s : Storage α} (h : Inv cfg s) : CfgOk cfg :=
  ⟨Nat.le_trans h.archVer.1 h.archVer.2⟩

/-- Without `wrapping_version` the next generation is the successor, and exists only below
`vmax`. -/
theorem nextVer_nowrap {cfg : Cfg} (hw : cfg.wrapping = false) {v w : Nat}
    (h : nextVer cfg v = some w) : w = v + 1 ∧ v < cfg.vmax := by
  unfold nextVer at h
  split at h
  · rename_i hlt; cases h; exact ⟨rfl, hlt⟩
  · rw [hw] at h; simp at h

theorem nextVer_none_of_ge {cfg : Cfg} (hw : cfg.wrapping = false) {v : Nat}
    (h : cfg.vmax ≤ v) : nextVer cfg v = none := by
  have : ¬ v < cfg.vmax := by omega
  simp [nextVer, this, hw]

/-- The creating steps, with the handle they return. -/
inductive SCreate (cfg : Cfg) : Storage α → Storage α → Ent → Prop where
  | push (s s' : Storage α) (g : Nat → Nat) (row : List α) (e : Ent)
      (hg : s.capacity < cfg.maxCap → s.capacity < g s.capacity ∧ g s.capacity ≤ cfg.maxCap)
      (h : Gecs.push cfg g s row = .ok e s') : SCreate cfg s s' e
  | pushWithin (s s' : Storage α) (row : List α) (e : Ent)
      (h : Gecs.pushWithin cfg s row = .ok (some e) s') : SCreate cfg s s' e

/-- The removing steps, with the handle of the removed entity (for a direct key `(d, v)`:
the handle stored at dense index `d`). -/
inductive SRemove (cfg : Cfg) : Storage α → Storage α → Ent → Prop where
  | destroyEnt (s s' : Storage α) (e : Ent) (row : List α)
      (h : Gecs.destroyEnt cfg s e = .ok (some row) s') : SRemove cfg s s' e
  | destroyDirect (s s' : Storage α) (d v : Nat) (row : List α) (t : Ent)
      (ht : s.ents[d]? = some t)
      (h : Gecs.destroyDirect cfg s d v = .ok (some row) s') : SRemove cfg s s' t

theorem SCreate.sstep {cfg : Cfg} {s s' : Storage α} {e : Ent} (h : SCreate cfg s s' e) :
    SStep cfg s s' := by
  match h with
  | .push _ _ g row _ hg h => exact .push s s' g row e hg h
  | .pushWithin _ _ row _ h => exact .pushWithin s s' row e h

theorem SRemove.sstep {cfg : Cfg} {s s' : Storage α} {t : Ent} (h : SRemove cfg s s' t) :
    SStep cfg s s' := by
  match h with
  | .destroyEnt _ _ _ row h => exact .destroyEnt s s' t row h
  | .destroyDirect _ _ d v row _ _ h => exact .destroyDirect s s' d v row h

/-- Steps that touch neither the handles, the slots nor the scalar fields
(component write, `clear_events`, clone). -/
structure Quiet (s s' : Storage α) : Prop where
  ents : s'.ents = s.ents
  slots : s'.slots = s.slots
  version : s'.version = s.version
  cap : s'.capacity = s.capacity
  len : s'.len = s.len

/-- What a creating step does to the handle side of the storage. -/
structure CreateFacts (cfg : Cfg) (s s' : Storage α) (e : Ent) : Prop where
  inv' : Inv cfg s'
  len : s'.len = s.len + 1
  cap : s.capacity ≤ s'.capacity
  ents : s'.ents = s.ents ++ [e]
  notMem : e ∉ s.ents
  version : s'.version = s.version
  slotNew : ∃ sl : Slot, s'.slots[e.slot]? = some sl ∧ sl.ver = e.ver
  frame : ∀ (i : Nat) (sl : Slot), i ≠ e.slot → s.slots[i]? = some sl → s'.slots[i]? = some sl
  /-- if the slot existed before (no growth into it) it already carried the issued generation -/
  slotOld : ∀ sl : Slot, s.slots[e.slot]? = some sl → sl.ver = e.ver

/-- What a removing step does to the handle side of the storage. -/
structure RemoveFacts (cfg : Cfg) (s s' : Storage α) (t : Ent) : Prop where
  inv' : Inv cfg s'
  len : s'.len = s.len - 1
  lenPos : 0 < s.len
  cap : s'.capacity = s.capacity
  pos : ∃ d, s.ents[d]? = some t ∧ s'.ents = swapRemove s.ents d
  slotVer : ∃ sv, nextVer cfg t.ver = some sv
      ∧ ∃ sl : Slot, s'.slots[t.slot]? = some sl ∧ sl.ver = sv
  archVer : nextVer cfg s.version = some s'.version
  frame : ∀ (i : Nat) (sl : Slot), i ≠ t.slot → s.slots[i]? = some sl →
      ∃ sl' : Slot, s'.slots[i]? = some sl' ∧ sl'.ver = sl.ver

theorem screate_facts {cfg : Cfg} {s s' : Storage α} {e : Ent} (h : Inv cfg s)
    (hc : SCreate cfg s s' e) : CreateFacts cfg s s' e := by
  match hc with
  | .push _ _ g row _ hg hp =>
    have hlt : s.len < cfg.maxCap := by
      by_cases hlt : s.len < cfg.maxCap
      · exact hlt
      · have hfull : s.len = cfg.maxCap := by have := h.lenCap; have := h.capMax; omega
        rw [(push_overflow cfg g s row h hfull).2] at hp; cases hp
    obtain ⟨e', s'', h1, h2, h3, h4, h5, h6, h7, _, _, _, _, _, h13, h14, h15⟩ :=
      push_ok cfg g s row h h.cfgOk hg hlt
    rw [h1] at hp; cases hp
    obtain ⟨sl, hsl, hsl'⟩ := h13
    exact ⟨h2, h3, h4, h5, h6, h7, ⟨sl, hsl, by rw [hsl']⟩, h14, fun sl hs => (h15 sl hs).2⟩
  | .pushWithin _ _ row _ hp =>
    have hlt : s.len < s.capacity := by
      by_cases hlt : s.len < s.capacity
      · exact hlt
      · rw [pushWithin_full row (by omega)] at hp; cases hp
    obtain ⟨e', s'', hok, hinv', hlen', hcap', hver', hents', _, hfree, hslots', _, _⟩ :=
      forceCreate_inv cfg s row h hlt
    have hnf : ¬ s.len ≥ s.capacity := by omega
    have hpw : Gecs.pushWithin cfg s row = .ok (some e') s'' := by simp [pushWithin, hnf, hok]
    rw [hpw] at hp; cases hp
    obtain ⟨sl0, hsl0, _, hv0⟩ := hfree
    have hes : e.slot < s.slots.length := (List.getElem?_eq_some_iff.mp hsl0).1
    refine ⟨hinv', hlen', by omega, hents', forceCreate_fresh h ⟨sl0, hsl0, ‹_›, hv0⟩, hver',
      ⟨⟨.data s.len, e.ver⟩, by rw [hslots', List.getElem?_set_self hes], rfl⟩, ?_, ?_⟩
    · intro i sl hne hi
      rw [hslots', List.getElem?_set_ne (Ne.symm hne)]; exact hi
    · intro sl hs
      rw [hsl0] at hs; cases hs; exact hv0

/-- `force_destroy` on the position of a live handle, when it succeeds. -/
theorem forceDestroy_facts {cfg : Cfg} {s s' : Storage α} (h : Inv cfg s) {d : Nat} {t : Ent}
    (hd : s.ents[d]? = some t) {row : List α}
    (hok : forceDestroy cfg s t.slot d = .ok row s') : RemoveFacts cfg s s' t := by
  have hsl := h.dense d t hd
  cases hsv : nextVer cfg t.ver with
  | none => rw [forceDestroy_slot_overflow cfg s _ d _ h hsl hsv] at hok; cases hok
  | some sv =>
    cases hav : nextVer cfg s.version with
    | none => rw [forceDestroy_arch_overflow cfg s _ d _ h hsl sv hsv hav] at hok; cases hok
    | some av =>
      obtain ⟨row', s'', hok', hinv, _, _, hlen, hcap, hver, hents, _, hslot, hframe, _, _⟩ :=
        forceDestroy_inv cfg s t.slot d t.ver h hsl sv av hsv hav
      rw [hok'] at hok; cases hok
      have hdl := h.ents_lt hd
      exact ⟨hinv, hlen, by omega, hcap, ⟨d, hd, hents⟩, ⟨sv, hsv, _, hslot, rfl⟩,
        by rw [hver]; exact hav, hframe⟩

theorem sremove_facts {cfg : Cfg} {s s' : Storage α} {t : Ent} (h : Inv cfg s)
    (hr : SRemove cfg s s' t) : RemoveFacts cfg s s' t := by
  match hr with
  | .destroyEnt _ _ _ row hde =>
    by_cases hm : t ∈ s.ents
    · obtain ⟨d, hd⟩ := List.getElem?_of_mem hm
      rw [destroyEnt_of_mem h hd] at hde
      generalize hfd : forceDestroy cfg s t.slot d = r at hde
      cases r with
      | ok r s'' =>
        simp only [Out.ok.injEq, Option.some.injEq] at hde
        obtain ⟨rfl, rfl⟩ := hde
        exact forceDestroy_facts h hd hfd
      | panic m s'' => cases hde
      | ub m => cases hde
    · rcases resolveEntity_of_not_mem cfg s t h hm with h1 | ⟨h1, _⟩
      · simp [Gecs.destroyEnt, h1] at hde
      · simp [Gecs.destroyEnt, h1] at hde
  | .destroyDirect _ _ d v row _ ht hdd =>
    rcases resolveDirect_spec cfg s d v h with h1 | ⟨e, _, rfl, hd⟩ | ⟨msg, h1, _⟩
    · simp [Gecs.destroyDirect, h1] at hdd
    · rw [ht] at hd; cases hd
      rw [destroyDirect_of_lt h ht] at hdd
      generalize hfd : forceDestroy cfg s t.slot d = r at hdd
      cases r with
      | ok r s'' =>
        simp only [Out.ok.injEq, Option.some.injEq] at hdd
        obtain ⟨rfl, rfl⟩ := hdd
        exact forceDestroy_facts h ht hfd
      | panic m s'' => cases hdd
      | ub m => cases hdd
    · simp [Gecs.destroyDirect, h1] at hdd

/-- Every atomic step is quiet, a creation or a removal. -/
theorem SStep.classify {cfg : Cfg} {s s' : Storage α} (h : Inv cfg s) (hs : SStep cfg s s') :
    (Quiet s s' ∧ Inv cfg s') ∨ (∃ e, SCreate cfg s s' e) ∨ (∃ t, SRemove cfg s s' t) := by
  match hs with
  | .write _ d c x => exact .inl ⟨⟨rfl, rfl, rfl, rfl, rfl⟩, writeCell_inv h⟩
  | .push _ _ g row e hg hp => exact .inr (.inl ⟨e, .push s s' g row e hg hp⟩)
  | .pushWithin _ _ row e hp => exact .inr (.inl ⟨e, .pushWithin s s' row e hp⟩)
  | .destroyEnt _ _ e row hde => exact .inr (.inr ⟨e, .destroyEnt s s' e row hde⟩)
  | .destroyDirect _ _ d v row hdd =>
    rcases resolveDirect_spec cfg s d v h with h1 | ⟨e, _, _, hd⟩ | ⟨msg, h1, _⟩
    · simp [Gecs.destroyDirect, h1] at hdd
    · exact .inr (.inr ⟨e, .destroyDirect s s' d v row e hd hdd⟩)
    · simp [Gecs.destroyDirect, h1] at hdd
  | .clear _ => exact .inl ⟨⟨rfl, rfl, rfl, rfl, rfl⟩, clearEvents_inv h⟩
  | .clone _ cl => exact .inl ⟨⟨rfl, rfl, rfl, rfl, rfl⟩, cloneStorage_inv h⟩

/-- Membership in the dense array after a removal: exactly the removed handle is gone. -/
theorem RemoveFacts.mem_iff {cfg : Cfg} {s s' : Storage α} {t : Ent} (h : Inv cfg s)
    (f : RemoveFacts cfg s s' t) : ∀ x, x ∈ s'.ents ↔ (x ∈ s.ents ∧ x ≠ t) := by
  obtain ⟨d, hd, hents⟩ := f.pos
  intro x; rw [hents]; exact mem_swapRemove_ents cfg s h d t hd x

theorem RemoveFacts.mem {cfg : Cfg} {s s' : Storage α} {t : Ent}
    (f : RemoveFacts cfg s s' t) : t ∈ s.ents := by
  obtain ⟨d, hd, _⟩ := f.pos
  exact List.mem_of_getElem? hd

/-- The removed handle `t` was in the dense array, is not in it afterwards, and every other
handle stays. -/
theorem sremove_spec {cfg : Cfg} {s s' : Storage α} {t : Ent} (h : Inv cfg s)
    (hr : SRemove cfg s s' t) :
    t ∈ s.ents ∧ t ∉ s'.ents ∧ ∀ x, x ∈ s'.ents ↔ (x ∈ s.ents ∧ x ≠ t) := by
  have f := sremove_facts h hr
  exact ⟨f.mem, fun hm => ((f.mem_iff h t).mp hm).2 rfl, f.mem_iff h⟩

/-- `sremove_spec` for a successful removal by `Entity` key: the removed handle is the key. -/
theorem destroyEnt_removed {cfg : Cfg} {s s' : Storage α} {e : Ent} {row : List α}
    (h : Inv cfg s) (hd : destroyEnt cfg s e = .ok (some row) s') :
    e ∈ s.ents ∧ e ∉ s'.ents ∧ ∀ x, x ∈ s'.ents ↔ (x ∈ s.ents ∧ x ≠ e) :=
  sremove_spec h (.destroyEnt s s' e row hd)

/-- `sremove_spec` for a successful removal by `EntityDirect` key `(d, v)`: the key was
current (`v = s.version`) and the removed handle is the one stored at dense index `d`. -/
theorem destroyDirect_removed {cfg : Cfg} {s s' : Storage α} {d v : Nat} {row : List α}
    (h : Inv cfg s) (hd : destroyDirect cfg s d v = .ok (some row) s') :
    ∃ t, s.ents[d]? = some t ∧ v = s.version ∧ SRemove cfg s s' t
      ∧ t ∈ s.ents ∧ t ∉ s'.ents ∧ ∀ x, x ∈ s'.ents ↔ (x ∈ s.ents ∧ x ≠ t) := by
  rcases resolveDirect_spec cfg s d v h with h1 | ⟨e, _, hv, he⟩ | ⟨msg, h1, _⟩
  · simp [Gecs.destroyDirect, h1] at hd
  · have hr : SRemove cfg s s' e := .destroyDirect s s' d v row e he hd
    exact ⟨e, he, hv, hr, sremove_spec h hr⟩
  · simp [Gecs.destroyDirect, h1] at hd

/-! ## 3. `Inv`, `len`, `capacity` along histories (C12) -/

theorem sstep_inv {cfg : Cfg} {s s' : Storage α} (h : Inv cfg s) (hs : SStep cfg s s') :
    Inv cfg s' := by
  rcases hs.classify h with ⟨_, hi⟩ | ⟨e, hc⟩ | ⟨t, hr⟩
  · exact hi
  · exact (screate_facts h hc).inv'
  · exact (sremove_facts h hr).inv'

theorem sreach_inv {cfg : Cfg} {s s' : Storage α} (h : Inv cfg s) (hr : SReach cfg s s') :
    Inv cfg s' := by
  cases hr with
  | refl => exact h
  | step _ hi hs => exact sstep_inv hi hs

theorem sstep_capacity_mono {cfg : Cfg} {s s' : Storage α} (h : Inv cfg s)
    (hs : SStep cfg s s') : s.capacity ≤ s'.capacity := by
  rcases hs.classify h with ⟨q, _⟩ | ⟨e, hc⟩ | ⟨t, hr⟩
  · rw [q.cap]; exact Nat.le_refl _
  · exact (screate_facts h hc).cap
  · rw [(sremove_facts h hr).cap]; exact Nat.le_refl _

theorem sreach_capacity_mono {cfg : Cfg} {s s' : Storage α} (_h : Inv cfg s)
    (hr : SReach cfg s s') : s.capacity ≤ s'.capacity := by
  induction hr with
  | refl => exact Nat.le_refl _
  | step _ hi hs ih => exact Nat.le_trans ih (sstep_capacity_mono hi hs)

/-- Exact `len` bookkeeping of one step: unchanged, `+1` (creation, the new handle appended)
or `-1` (removal). -/
theorem sstep_len {cfg : Cfg} {s s' : Storage α} (h : Inv cfg s) (hs : SStep cfg s s') :
    (s'.len = s.len ∧ s'.ents = s.ents)
    ∨ (∃ e, s'.len = s.len + 1 ∧ s'.ents = s.ents ++ [e] ∧ e ∉ s.ents)
    ∨ (∃ t, s'.len + 1 = s.len ∧ t ∈ s.ents ∧ ∀ x, x ∈ s'.ents ↔ (x ∈ s.ents ∧ x ≠ t)) := by
  rcases hs.classify h with ⟨q, _⟩ | ⟨e, hc⟩ | ⟨t, hr⟩
  · exact .inl ⟨q.len, q.ents⟩
  · have f := screate_facts h hc
    exact .inr (.inl ⟨e, f.len, f.ents, f.notMem⟩)
  · have f := sremove_facts h hr
    refine .inr (.inr ⟨t, ?_, f.mem, f.mem_iff h⟩)
    have := f.len; have := f.lenPos; omega

/-- `len` is exactly the number of live entities, each listed once. -/
theorem len_eq_ents {cfg : Cfg} {s : Storage α} (h : Inv cfg s) :
    s.len = s.ents.length ∧ s.ents.Nodup :=
  ⟨h.entsLen.symm, ents_nodup h⟩

theorem is_empty_iff {cfg : Cfg} {s : Storage α} (h : Inv cfg s) :
    s.len = 0 ↔ s.ents = [] := by
  rw [← h.entsLen]; exact List.length_eq_zero_iff

/-- `len ≤ capacity ≤ maxCap` at every reachable state. -/
theorem sreach_len_le {cfg : Cfg} {s s' : Storage α} (h : Inv cfg s) (hr : SReach cfg s s') :
    s'.len ≤ s'.capacity ∧ s'.capacity ≤ cfg.maxCap :=
  ⟨(sreach_inv h hr).lenCap, (sreach_inv h hr).capMax⟩

private theorem SReach.single {cfg : Cfg} {s s' : Storage α} (h : Inv cfg s) (hs : SStep cfg s s') :
    SReach cfg s s' := .step (.refl s) h hs

private theorem SReach.append {cfg : Cfg} {s s' s'' : Storage α} (h1 : SReach cfg s s')
    (h2 : SReach cfg s' s'') : SReach cfg s s'' := by
  induction h2 with
  | refl => exact h1
  | step _ hi hs ih => exact .step ih hi hs

/-! ## 1. Handles never come back; new handles are fresh (C01, C08) -/

/-- Ghost invariant.  `seen` is (a superset of) every handle that has ever been in the dense
array, used as a set.  A seen handle that is no longer stored is *stale*: the generation of
its slot has moved strictly past it. -/
structure HInv (cfg : Cfg) (s : Storage α) (seen : List Ent) : Prop where
  inv : Inv cfg s
  live_seen : ∀ e ∈ s.ents, e ∈ seen
  stale_lt : ∀ e ∈ seen, e ∉ s.ents →
    ∃ sl : Slot, s.slots[e.slot]? = some sl ∧ e.ver < sl.ver

/-- Every seen handle has a slot index below the capacity (so growth, which creates
generation-1 slots at indices `≥` the old capacity, never touches a seen handle's slot). -/
theorem HInv.seen_slot_lt {cfg : Cfg} {s : Storage α} {seen : List Ent}
    (h : HInv cfg s seen) : ∀ e ∈ seen, e.slot < s.capacity := by
  intro e he
  by_cases hm : e ∈ s.ents
  · obtain ⟨d, hd⟩ := List.getElem?_of_mem hm
    exact h.inv.ents_slot_lt hd
  · obtain ⟨sl, hsl, _⟩ := h.stale_lt e he hm
    have := (List.getElem?_eq_some_iff.mp hsl).1
    rw [h.inv.slotsLen] at this; exact this

/-- A stale handle's generation is strictly below `vmax` (its slot has moved past it). -/
theorem HInv.stale_ver_lt_vmax {cfg : Cfg} {s : Storage α} {seen : List Ent}
    (h : HInv cfg s seen) : ∀ e ∈ seen, e.ver < cfg.vmax ∨ e ∈ s.ents := by
  intro e he
  by_cases hm : e ∈ s.ents
  · exact .inr hm
  · obtain ⟨sl, hsl, hlt⟩ := h.stale_lt e he hm
    have := (h.inv.verPos _ _ hsl).2
    exact .inl (by omega)

/-- The ghost may be started at any state. -/
theorem HInv.of_inv {cfg : Cfg} {s : Storage α} (h : Inv cfg s) : HInv cfg s s.ents :=
  ⟨h, fun _ he => he, fun _ he hn => absurd he hn⟩

/-- A storage fresh from `with_capacity` has seen nothing. -/
theorem HInv.init {cfg : Cfg} (hv : CfgOk cfg) {ncols cap : Nat} {s : Storage α}
    (h : withCapacity cfg ncols cap = .ok () s) : HInv cfg s [] := by
  by_cases hc : cap ≤ cfg.maxCap
  · obtain ⟨s0, h1, h2, h3, _⟩ := withCapacity_inv (α := α) cfg ncols cap hc hv
    rw [h1] at h; cases h
    have hents : s.ents = [] := (is_empty_iff h2).mp h3
    exact ⟨h2, (by intro e he; rw [hents] at he; cases he), (by intro e he; cases he)⟩
  · obtain ⟨s0, h1⟩ := withCapacity_panics (α := α) cfg ncols cap (by omega)
    rw [h1] at h; cases h

/-- `seen` is used as a set: it may be replaced by any list with the same members up to live
handles. -/
theorem HInv.mono {cfg : Cfg} {s : Storage α} {seen seen' : List Ent} (h : HInv cfg s seen)
    (h1 : ∀ e ∈ seen', e ∈ seen ∨ e ∈ s.ents) (h2 : ∀ e ∈ s.ents, e ∈ seen') :
    HInv cfg s seen' := by
  refine ⟨h.inv, h2, ?_⟩
  intro e he hn
  rcases h1 e he with h3 | h3
  · exact h.stale_lt e h3 hn
  · exact absurd h3 hn

/-- C08 step: the handle returned by a creation has never been seen. -/
theorem create_fresh {cfg : Cfg} {s s' : Storage α} {seen : List Ent} {e : Ent}
    (h : HInv cfg s seen) (hc : SCreate cfg s s' e) : e ∉ seen := by
  have f := screate_facts h.inv hc
  intro he
  obtain ⟨sl, hsl, hlt⟩ := h.stale_lt e he f.notMem
  have := f.slotOld sl hsl
  omega

theorem create_fresh_push {cfg : Cfg} {s s' : Storage α} {seen : List Ent} {e : Ent}
    {g : Nat → Nat} {row : List α} (h : HInv cfg s seen)
    (hg : s.capacity < cfg.maxCap → s.capacity < g s.capacity ∧ g s.capacity ≤ cfg.maxCap)
    (hp : push cfg g s row = .ok e s') : e ∉ seen :=
  create_fresh h (.push s s' g row e hg hp)

theorem create_fresh_pushWithin {cfg : Cfg} {s s' : Storage α} {seen : List Ent} {e : Ent}
    {row : List α} (h : HInv cfg s seen)
    (hp : pushWithin cfg s row = .ok (some e) s') : e ∉ seen :=
  create_fresh h (.pushWithin s s' row e hp)

/-- A creation keeps the ghost invariant (needs no assumption on wrapping: creation does not
touch generations). -/
theorem screate_hinv {cfg : Cfg} {s s' : Storage α} {seen : List Ent} {e : Ent}
    (h : HInv cfg s seen) (hc : SCreate cfg s s' e) : HInv cfg s' (seen ++ s'.ents) := by
  have f := screate_facts h.inv hc
  refine ⟨f.inv', fun x hx => List.mem_append_right _ hx, ?_⟩
  intro x hx hn
  have hxs : x ∈ seen := by
    rcases List.mem_append.mp hx with h1 | h1
    · exact h1
    · exact absurd h1 hn
  rw [f.ents] at hn
  have hn1 : x ∉ s.ents := fun hm => hn (List.mem_append_left _ hm)
  obtain ⟨sl, hsl, hlt⟩ := h.stale_lt x hxs hn1
  by_cases hs : x.slot = e.slot
  · rw [hs] at hsl
    have hv := f.slotOld sl hsl
    obtain ⟨sl', hsl', hv'⟩ := f.slotNew
    exact ⟨sl', by rw [hs]; exact hsl', by omega⟩
  · exact ⟨sl, f.frame _ _ hs hsl, hlt⟩

/-- A removal keeps the ghost invariant when generations do not wrap. -/
theorem sremove_hinv {cfg : Cfg} (hw : cfg.wrapping = false) {s s' : Storage α}
    {seen : List Ent} {t : Ent} (h : HInv cfg s seen) (hr : SRemove cfg s s' t) :
    HInv cfg s' (seen ++ s'.ents) := by
  have f := sremove_facts h.inv hr
  have hmem := f.mem_iff h.inv
  refine ⟨f.inv', fun x hx => List.mem_append_right _ hx, ?_⟩
  intro x hx hn
  have hxs : x ∈ seen := by
    rcases List.mem_append.mp hx with h1 | h1
    · exact h1
    · exact absurd h1 hn
  obtain ⟨sv, hsv, slt, hslt, hvt⟩ := f.slotVer
  have hsv' := (nextVer_nowrap hw hsv).1
  obtain ⟨d, hd, _⟩ := f.pos
  have hts := h.inv.dense d t hd
  by_cases hxt : x = t
  · subst hxt
    exact ⟨slt, hslt, by omega⟩
  · have hn1 : x ∉ s.ents := fun hm => hn ((hmem x).mpr ⟨hm, hxt⟩)
    obtain ⟨sl, hsl, hlt⟩ := h.stale_lt x hxs hn1
    by_cases hs : x.slot = t.slot
    · rw [hs, hts] at hsl; cases hsl
      exact ⟨slt, by rw [hs]; exact hslt, by simp only at hlt; omega⟩
    · obtain ⟨sl', hsl', hv'⟩ := f.frame _ _ hs hsl
      exact ⟨sl', hsl', by omega⟩

theorem quiet_hinv {cfg : Cfg} {s s' : Storage α} {seen : List Ent}
    (h : HInv cfg s seen) (q : Quiet s s') (hi : Inv cfg s') :
    HInv cfg s' (seen ++ s'.ents) := by
  refine ⟨hi, fun x hx => List.mem_append_right _ hx, ?_⟩
  intro x hx hn
  have hxs : x ∈ seen := by
    rcases List.mem_append.mp hx with h1 | h1
    · exact h1
    · exact absurd h1 hn
  rw [q.ents] at hn
  rw [q.slots]; exact h.stale_lt x hxs hn

/-- Every atomic step keeps the ghost invariant, the ghost growing by the handles stored
afterwards (`seen` is a set; duplicates do not matter). -/
theorem sstep_hinv {cfg : Cfg} (hw : cfg.wrapping = false) {s s' : Storage α}
    {seen : List Ent} (h : HInv cfg s seen) (hs : SStep cfg s s') :
    HInv cfg s' (seen ++ s'.ents) := by
  rcases hs.classify h.inv with ⟨q, hi⟩ | ⟨e, hc⟩ | ⟨t, hr⟩
  · exact quiet_hinv h q hi
  · exact screate_hinv h hc
  · exact sremove_hinv hw h hr

/-- The duplicate-free variant of the ghost update. -/
theorem sstep_hinv_filter {cfg : Cfg} (hw : cfg.wrapping = false) {s s' : Storage α}
    {seen : List Ent} (h : HInv cfg s seen) (hs : SStep cfg s s') :
    HInv cfg s' (seen ++ s'.ents.filter (· ∉ seen)) := by
  have h' := sstep_hinv hw h hs
  refine h'.mono ?_ ?_
  · intro e he
    rcases List.mem_append.mp he with h1 | h1
    · exact .inl (List.mem_append_left _ h1)
    · exact .inr (List.mem_filter.mp h1).1
  · intro e he
    by_cases hm : e ∈ seen
    · exact List.mem_append_left _ hm
    · exact List.mem_append_right _ (List.mem_filter.mpr ⟨he, by simpa using hm⟩)

/-- One step never brings a stale handle back. -/
theorem sstep_no_resurrection {cfg : Cfg} {s s' : Storage α} {seen : List Ent}
    (h : HInv cfg s seen) (hs : SStep cfg s s') :
    ∀ e ∈ seen, e ∉ s.ents → e ∉ s'.ents := by
  intro x hx hn
  rcases hs.classify h.inv with ⟨q, _⟩ | ⟨e, hc⟩ | ⟨t, hr⟩
  · rw [q.ents]; exact hn
  · have f := screate_facts h.inv hc
    have hfr := create_fresh h hc
    rw [f.ents]
    intro hm
    rcases List.mem_append.mp hm with h1 | h1
    · exact hn h1
    · simp only [List.mem_singleton] at h1; subst h1; exact hfr hx
  · have f := sremove_facts h.inv hr
    intro hm; exact hn ((f.mem_iff h.inv x).mp hm).1

/-- Lifting along `SReach`, together with the no-resurrection clause. -/
theorem sreach_hinv_strong {cfg : Cfg} (hw : cfg.wrapping = false) {s s' : Storage α}
    {seen : List Ent} (h : HInv cfg s seen) (hr : SReach cfg s s') :
    ∃ seen', HInv cfg s' seen' ∧ (∀ e ∈ seen, e ∈ seen')
      ∧ (∀ e ∈ seen, e ∉ s.ents → e ∉ s'.ents) := by
  induction hr with
  | refl => exact ⟨seen, h, fun _ he => he, fun _ _ hn => hn⟩
  | @step s₁ s₂ _ hi hs ih =>
    obtain ⟨seen₁, h₁, hsub, hdead⟩ := ih
    refine ⟨seen₁ ++ s₂.ents, sstep_hinv hw h₁ hs,
      fun e he => List.mem_append_left _ (hsub e he), ?_⟩
    intro e he hn
    exact sstep_no_resurrection h₁ hs e (hsub e he) (hdead e he hn)

theorem sreach_hinv {cfg : Cfg} (hw : cfg.wrapping = false) {s s' : Storage α}
    {seen : List Ent} (h : HInv cfg s seen) (hr : SReach cfg s s') :
    ∃ seen', HInv cfg s' seen' ∧ (∀ e ∈ seen, e ∈ seen') ∧ (∀ e ∈ s'.ents, e ∈ seen') := by
  obtain ⟨seen', h', hsub, _⟩ := sreach_hinv_strong hw h hr
  exact ⟨seen', h', hsub, h'.live_seen⟩

/-- **C01 (history form).**  A handle that has left the dense array — its entity was
destroyed — is never in it again, no matter how often its slot or its dense position is reused
or how the archetype grows. -/
theorem no_resurrection {cfg : Cfg} (hw : cfg.wrapping = false) {s s' : Storage α}
    {seen : List Ent} (h : HInv cfg s seen) (hr : SReach cfg s s') :
    ∀ e ∈ seen, e ∉ s.ents → e ∉ s'.ents :=
  (sreach_hinv_strong hw h hr).choose_spec.2.2

/-- … hence it is rejected by `resolve_entity` forever. -/
theorem no_resurrection_resolve {cfg : Cfg} (hw : cfg.wrapping = false) {s s' : Storage α}
    {seen : List Ent} (h : HInv cfg s seen) (hr : SReach cfg s s') (e : Ent) (he : e ∈ seen)
    (hn : e ∉ s.ents) : ¬ ∃ d, resolveEntity cfg s' e = .ok (some (e.slot, d)) s' := by
  rw [resolve_iff_mem cfg s' (sreach_inv h.inv hr) e]
  exact no_resurrection hw h hr e he hn

/-- Ghost-free form of C01: after the removal of `t`, at every later state `t ∉ ents`,
i.e. `t` does not resolve. -/
theorem C01_destroyed_stays_dead {cfg : Cfg} (hw : cfg.wrapping = false)
    {s s₁ s' : Storage α} {t : Ent} (h : Inv cfg s) (hrm : SRemove cfg s s₁ t)
    (hr : SReach cfg s₁ s') :
    t ∉ s'.ents ∧ ¬ ∃ d, resolveEntity cfg s' t = .ok (some (t.slot, d)) s' := by
  have h0 := HInv.of_inv h
  have h1 := sstep_hinv hw h0 hrm.sstep
  obtain ⟨hm, hnm, _⟩ := sremove_spec h hrm
  exact ⟨no_resurrection hw h1 hr t (List.mem_append_left _ hm) hnm,
    no_resurrection_resolve hw h1 hr t (List.mem_append_left _ hm) hnm⟩

/-- **C08 (history form).**  A handle returned by a creation at any later point differs from
every handle seen so far. -/
theorem fresh_forever {cfg : Cfg} (hw : cfg.wrapping = false) {s s₁ s₂ : Storage α}
    {seen : List Ent} {e : Ent} (h : HInv cfg s seen) (hr : SReach cfg s s₁)
    (hc : SCreate cfg s₁ s₂ e) : e ∉ seen := by
  obtain ⟨seen₁, h₁, hsub, _⟩ := sreach_hinv hw h hr
  exact fun he => create_fresh h₁ hc (hsub e he)

theorem fresh_forever_push {cfg : Cfg} (hw : cfg.wrapping = false) {s s₁ s₂ : Storage α}
    {seen : List Ent} {e : Ent} {g : Nat → Nat} {row : List α}
    (h : HInv cfg s seen) (hr : SReach cfg s s₁)
    (hg : s₁.capacity < cfg.maxCap → s₁.capacity < g s₁.capacity ∧ g s₁.capacity ≤ cfg.maxCap)
    (hp : push cfg g s₁ row = .ok e s₂) : e ∉ seen :=
  fresh_forever hw h hr (.push s₁ s₂ g row e hg hp)

theorem fresh_forever_pushWithin {cfg : Cfg} (hw : cfg.wrapping = false)
    {s s₁ s₂ : Storage α} {seen : List Ent} {e : Ent} {row : List α}
    (h : HInv cfg s seen) (hr : SReach cfg s s₁)
    (hp : pushWithin cfg s₁ row = .ok (some e) s₂) : e ∉ seen :=
  fresh_forever hw h hr (.pushWithin s₁ s₂ row e hp)

/-- Ghost-free form of C08: a handle that was stored at some state is never returned by a
later creation (whether or not its entity is still alive). -/
theorem C08_never_reissued {cfg : Cfg} (hw : cfg.wrapping = false) {s s₁ s₂ : Storage α}
    {x e : Ent} (h : Inv cfg s) (hx : x ∈ s.ents) (hr : SReach cfg s s₁)
    (hc : SCreate cfg s₁ s₂ e) : e ≠ x := by
  intro heq; subst heq
  exact fresh_forever hw (HInv.of_inv h) hr hc hx

/-- Generation overflow (non-wrapping): removing an entity whose slot generation, or whose
archetype's version, is at `vmax` panics with the state unchanged.  The entity simply stays
alive; nothing is reissued. -/
theorem overflow_blocks_reissue {cfg : Cfg} (hw : cfg.wrapping = false) {s : Storage α}
    {t : Ent} (h : Inv cfg s) (ht : t ∈ s.ents)
    (hv : t.ver = cfg.vmax ∨ s.version = cfg.vmax) :
    ∃ msg, destroyEnt cfg s t = .panic msg s := by
  obtain ⟨d, hd⟩ := List.getElem?_of_mem ht
  rw [destroyEnt_of_mem h hd]
  rcases forceDestroy_live cfg s d t h hd with
    ⟨row, s', sv, av, _, _, hsv, hav, _⟩ | ⟨hp, _⟩ | ⟨hp, _⟩
  · rcases hv with hv | hv
    · have := (nextVer_nowrap hw hsv).2; omega
    · have := (nextVer_nowrap hw hav).2; omega
  · rw [hp]; exact ⟨_, rfl⟩
  · rw [hp]; exact ⟨_, rfl⟩

/-- The same through a direct key. -/
theorem overflow_blocks_reissue_direct {cfg : Cfg} (hw : cfg.wrapping = false)
    {s : Storage α} {d : Nat} {t : Ent} (h : Inv cfg s) (hd : s.ents[d]? = some t)
    (hv : t.ver = cfg.vmax ∨ s.version = cfg.vmax) :
    ∃ msg, destroyDirect cfg s d s.version = .panic msg s := by
  rw [destroyDirect_of_lt h hd]
  rcases forceDestroy_live cfg s d t h hd with
    ⟨row, s', sv, av, _, _, hsv, hav, _⟩ | ⟨hp, _⟩ | ⟨hp, _⟩
  · rcases hv with hv | hv
    · have := (nextVer_nowrap hw hsv).2; omega
    · have := (nextVer_nowrap hw hav).2; omega
  · rw [hp]; exact ⟨_, rfl⟩
  · rw [hp]; exact ⟨_, rfl⟩

/-! ## 2. Direct handles (C09) -/

/-- Relation between an earlier and a later state of one storage, as seen by direct handles:
the archetype version never decreases, and as long as it is unchanged the dense array only
grows at the end.  (With `wrapping_version` the clause `ver_le` fails after `vmax` removals:
the version wraps back to 1, and a direct handle taken `vmax` removals ago is accepted again —
the documented limitation of that feature.) -/
structure Later (s s' : Storage α) : Prop where
  ver_le : s.version ≤ s'.version
  same_prefix : s.version = s'.version → s.ents <+: s'.ents

theorem Later.refl (s : Storage α) : Later s s :=
  ⟨Nat.le_refl _, fun _ => List.prefix_refl _⟩

theorem Later.trans {s s' s'' : Storage α} (h1 : Later s s') (h2 : Later s' s'') :
    Later s s'' := by
  refine ⟨Nat.le_trans h1.ver_le h2.ver_le, ?_⟩
  intro heq
  have a := h1.ver_le
  have b := h2.ver_le
  have e1 : s.version = s'.version := by omega
  have e2 : s'.version = s''.version := by omega
  exact (h1.same_prefix e1).trans (h2.same_prefix e2)

/-- A removal bumps the archetype version by exactly one (non-wrapping). -/
theorem sremove_version {cfg : Cfg} (hw : cfg.wrapping = false) {s s' : Storage α} {t : Ent}
    (h : Inv cfg s) (hr : SRemove cfg s s' t) : s'.version = s.version + 1 :=
  (nextVer_nowrap hw (sremove_facts h hr).archVer).1

theorem sstep_version_strict {cfg : Cfg} (hw : cfg.wrapping = false) {s s' : Storage α}
    {t : Ent} (h : Inv cfg s) (hr : SRemove cfg s s' t) : s.version < s'.version := by
  rw [sremove_version hw h hr]; exact Nat.lt_succ_self _

theorem sstep_later {cfg : Cfg} (hw : cfg.wrapping = false) {s s' : Storage α}
    (h : Inv cfg s) (hs : SStep cfg s s') : Later s s' := by
  rcases hs.classify h with ⟨q, _⟩ | ⟨e, hc⟩ | ⟨t, hr⟩
  · exact ⟨by rw [q.version]; exact Nat.le_refl _, fun _ => by rw [q.ents]; exact List.prefix_refl _⟩
  · have f := screate_facts h hc
    exact ⟨by rw [f.version]; exact Nat.le_refl _,
      fun _ => by rw [f.ents]; exact List.prefix_append _ _⟩
  · have hv := sremove_version hw h hr
    exact ⟨by omega, fun heq => by omega⟩

/-- What one step does to version and dense array, exactly. -/
theorem sstep_version_cases {cfg : Cfg} (hw : cfg.wrapping = false) {s s' : Storage α}
    (h : Inv cfg s) (hs : SStep cfg s s') :
    (s'.version = s.version ∧ (s'.ents = s.ents ∨ ∃ e, s'.ents = s.ents ++ [e]))
    ∨ s'.version = s.version + 1 := by
  rcases hs.classify h with ⟨q, _⟩ | ⟨e, hc⟩ | ⟨t, hr⟩
  · exact .inl ⟨q.version, .inl q.ents⟩
  · have f := screate_facts h hc
    exact .inl ⟨f.version, .inr ⟨e, f.ents⟩⟩
  · exact .inr (sremove_version hw h hr)

theorem sreach_later {cfg : Cfg} (hw : cfg.wrapping = false) {s s' : Storage α}
    (hr : SReach cfg s s') : Later s s' := by
  induction hr with
  | refl => exact Later.refl _
  | step _ hi hs ih => exact ih.trans (sstep_later hw hi hs)

/-- A path that contains at least one removal. -/
inductive SReachD (cfg : Cfg) : Storage α → Storage α → Prop where
  | mk {s s₁ s₂ s' : Storage α} {t : Ent} : SReach cfg s s₁ → Inv cfg s₁ →
      SRemove cfg s₁ s₂ t → SReach cfg s₂ s' → SReachD cfg s s'

theorem SReachD.sreach {cfg : Cfg} {s s' : Storage α} (h : SReachD cfg s s') :
    SReach cfg s s' := by
  match h with
  | .mk h1 hi hr h2 => exact (SReach.step h1 hi hr.sstep).append h2

/-- Any removal in between strictly increases the archetype version. -/
theorem removal_bumps {cfg : Cfg} (hw : cfg.wrapping = false) {s s₁ s₂ s' : Storage α}
    {t : Ent} (h : Inv cfg s) (h1 : SReach cfg s s₁) (hr : SRemove cfg s₁ s₂ t)
    (h2 : SReach cfg s₂ s') : s.version < s'.version := by
  have a := (sreach_later hw h1).ver_le
  have b := sstep_version_strict hw (sreach_inv h h1) hr
  have c := (sreach_later hw h2).ver_le
  omega

theorem sreach_version_lt_of_destroy {cfg : Cfg} (hw : cfg.wrapping = false)
    {s s' : Storage α} (h : SReachD cfg s s') : s.version < s'.version := by
  match h with
  | .mk h1 hi hr h2 =>
    have a := (sreach_later hw h1).ver_le
    have b := sstep_version_strict hw hi hr
    have c := (sreach_later hw h2).ver_le
    omega

/-- Steps other than removals: writes, creations (with growth), `clear_events`, clone. -/
inductive SKeep (cfg : Cfg) : Storage α → Storage α → Prop where
  | write (s : Storage α) (d c : Nat) (x : α) : SKeep cfg s (writeCell s d c x)
  | create {s s' : Storage α} {e : Ent} : SCreate cfg s s' e → SKeep cfg s s'
  | clear (s : Storage α) : SKeep cfg s (clearEvents s)
  | clone (s : Storage α) (cl : α → α) : SKeep cfg s { s with cols := s.cols.map (·.map cl) }

theorem SKeep.sstep {cfg : Cfg} {s s' : Storage α} (h : SKeep cfg s s') : SStep cfg s s' := by
  match h with
  | .write _ d c x => exact .write s d c x
  | .create hc => exact hc.sstep
  | .clear _ => exact .clear s
  | .clone _ cl => exact .clone s cl

/-- Paths without removals. -/
inductive SReachK (cfg : Cfg) : Storage α → Storage α → Prop where
  | refl (s : Storage α) : SReachK cfg s s
  | step {s s' s'' : Storage α} : SReachK cfg s s' → Inv cfg s' → SKeep cfg s' s'' →
      SReachK cfg s s''

theorem SReachK.sreach {cfg : Cfg} {s s' : Storage α} (h : SReachK cfg s s') :
    SReach cfg s s' := by
  induction h with
  | refl => exact .refl _
  | step _ hi hk ih => exact .step ih hi hk.sstep

/-- Without removals the version is unchanged and the dense array only grows at the end
(no assumption on wrapping). -/
theorem skeep_spec {cfg : Cfg} {s s' : Storage α} (h : Inv cfg s) (hk : SKeep cfg s s') :
    s'.version = s.version ∧ s.ents <+: s'.ents := by
  match hk with
  | .write _ d c x => exact ⟨rfl, List.prefix_refl _⟩
  | .create hc =>
    have f := screate_facts h hc
    exact ⟨f.version, by rw [f.ents]; exact List.prefix_append _ _⟩
  | .clear _ => exact ⟨rfl, List.prefix_refl _⟩
  | .clone _ cl => exact ⟨rfl, List.prefix_refl _⟩

theorem sreachK_spec {cfg : Cfg} {s s' : Storage α} (hr : SReachK cfg s s') :
    s'.version = s.version ∧ s.ents <+: s'.ents := by
  induction hr with
  | refl => exact ⟨rfl, List.prefix_refl _⟩
  | step _ hi hk ih =>
    obtain ⟨a, b⟩ := skeep_spec hi hk
    exact ⟨by rw [a, ih.1], ih.2.trans b⟩

theorem isPrefix_getElem?_some {β : Type} {l l' : List β} (hp : l <+: l') {d : Nat} {x : β}
    (hx : l[d]? = some x) : l'[d]? = some x := by
  obtain ⟨r, rfl⟩ := hp
  rw [List.getElem?_append_left (List.getElem?_eq_some_iff.mp hx).1]; exact hx

/-- **C09, issue.**  The direct handle `(d, s.version)` of a stored entity is accepted in the
state it is issued in (no debug assertion fires). -/
theorem C09_issue {cfg : Cfg} {s : Storage α} {d : Nat} {e : Ent} (h : Inv cfg s)
    (he : s.ents[d]? = some e) :
    ∃ si, resolveDirect cfg s d s.version = .ok (some (si, d)) s :=
  ⟨e.slot, resolveDirect_of_lt h he⟩

/-- **C09, safety.**  Whenever the direct handle issued for `e` at `s` is accepted at a later
state, it designates the very entity it was issued for. -/
theorem C09_safe {cfg : Cfg} (hw : cfg.wrapping = false) {s s' : Storage α} {d : Nat}
    {e : Ent} (h : Inv cfg s) (he : s.ents[d]? = some e) (hr : SReach cfg s s')
    (hacc : ∃ si, resolveDirect cfg s' d s.version = .ok (some (si, d)) s') :
    s'.ents[d]? = some e := by
  have hv := ((resolveDirect_iff cfg s' d s.version (sreach_inv h hr)).mp hacc).1
  exact isPrefix_getElem?_some ((sreach_later hw hr).same_prefix hv) he

/-- The same for any in-range dense index: the handle `(d, s.version)`, `d < s.len`, if
accepted later, designates whatever was stored at `d` when it was issued. -/
theorem C09_safe_idx {cfg : Cfg} (hw : cfg.wrapping = false) {s s' : Storage α} {d : Nat}
    (h : Inv cfg s) (hd : d < s.len) (hr : SReach cfg s s')
    (hacc : ∃ si, resolveDirect cfg s' d s.version = .ok (some (si, d)) s') :
    s'.ents[d]? = s.ents[d]? := by
  have hlt : d < s.ents.length := by rw [h.entsLen]; exact hd
  have he : s.ents[d]? = some s.ents[d] := List.getElem?_eq_getElem hlt
  rw [he]; exact C09_safe hw h he hr hacc

/-- … and the slot index it returns is that entity's. -/
theorem C09_safe_slot {cfg : Cfg} (hw : cfg.wrapping = false) {s s' : Storage α} {d : Nat}
    {e : Ent} (h : Inv cfg s) (he : s.ents[d]? = some e) (hr : SReach cfg s s') {si : Nat}
    (hacc : resolveDirect cfg s' d s.version = .ok (some (si, d)) s') :
    si = e.slot ∧ s'.ents[d]? = some e := by
  have h' := sreach_inv h hr
  have hd := C09_safe hw h he hr ⟨si, hacc⟩
  have hv := ((resolveDirect_iff cfg s' d s.version h').mp ⟨si, hacc⟩).1
  have := resolveDirect_of_lt (cfg := cfg) h' hd
  rw [← hv, hacc] at this
  simp only [Out.ok.injEq, Option.some.injEq, Prod.mk.injEq, and_true] at this
  exact ⟨this, hd⟩

/-- **C09, death.**  After any removal in the archetype the handle is never accepted again:
`resolve_direct` answers `None`. -/
theorem C09_dies_exact {cfg : Cfg} (hw : cfg.wrapping = false) {s s₁ s₂ s' : Storage α}
    {t : Ent} (d : Nat) (h : Inv cfg s) (h1 : SReach cfg s s₁) (hrm : SRemove cfg s₁ s₂ t)
    (h2 : SReach cfg s₂ s') : resolveDirect cfg s' d s.version = .ok none s' := by
  have hlt := removal_bumps hw h h1 hrm h2
  have hne : s.version ≠ s'.version := by omega
  unfold resolveDirect
  split
  · rfl
  · first | rfl | rw [if_pos hne]

theorem C09_dies {cfg : Cfg} (hw : cfg.wrapping = false) {s s₁ s₂ s' : Storage α}
    {t : Ent} (d : Nat) (h : Inv cfg s) (h1 : SReach cfg s s₁) (hrm : SRemove cfg s₁ s₂ t)
    (h2 : SReach cfg s₂ s') :
    ¬ ∃ si, resolveDirect cfg s' d s.version = .ok (some (si, d)) s' := by
  rintro ⟨si, hsi⟩
  rw [C09_dies_exact hw d h h1 hrm h2] at hsi; cases hsi

/-- **C09, life.**  While the archetype version is unchanged the handle stays accepted (and,
by `C09_safe`, designates the same entity). -/
theorem C09_lives {cfg : Cfg} (hw : cfg.wrapping = false) {s s' : Storage α} {d : Nat}
    {e : Ent} (h : Inv cfg s) (he : s.ents[d]? = some e) (hr : SReach cfg s s')
    (hv : s'.version = s.version) :
    ∃ si, resolveDirect cfg s' d s.version = .ok (some (si, d)) s' := by
  have h' := sreach_inv h hr
  have hd := isPrefix_getElem?_some ((sreach_later hw hr).same_prefix hv.symm) he
  exact (resolveDirect_iff cfg s' d s.version h').mpr ⟨hv.symm, h'.ents_lt hd⟩

/-- Corollary: along a path without removals (only writes, creations, growth, clears, clone)
the handle stays accepted and keeps designating `e`.  No assumption on wrapping. -/
theorem C09_lives_keep {cfg : Cfg} {s s' : Storage α} {d : Nat} {e : Ent} (h : Inv cfg s)
    (he : s.ents[d]? = some e) (hr : SReachK cfg s s') :
    resolveDirect cfg s' d s.version = .ok (some (e.slot, d)) s' ∧ s'.ents[d]? = some e := by
  have h' := sreach_inv h hr.sreach
  obtain ⟨hv, hp⟩ := sreachK_spec hr
  have hd := isPrefix_getElem?_some hp he
  rw [← hv]; exact ⟨resolveDirect_of_lt h' hd, hd⟩

/-! ## C08 fails by design with `wrapping_version`

One slot, `vmax = 2`: create, destroy, create, destroy, create.  The generation of slot 0 goes
1 → 2 → (wraps) 1, and the third creation returns the handle `(0, 1)` of the first. -/
namespace HistEx

def cfgW : Cfg := ⟨1, 2, true, false, false⟩

def w0 : Storage Nat := ⟨1, 0, 1, .free 0, [⟨.freeEnd, 1⟩], [], [[]], [], []⟩
def w1 : Storage Nat := ⟨1, 1, 1, .freeEnd, [⟨.data 0, 1⟩], [⟨0, 1⟩], [[7]], [], []⟩
def w2 : Storage Nat := ⟨2, 0, 1, .free 0, [⟨.freeEnd, 2⟩], [], [[]], [], []⟩
def w3 : Storage Nat := ⟨2, 1, 1, .freeEnd, [⟨.data 0, 2⟩], [⟨0, 2⟩], [[8]], [], []⟩
def w4 : Storage Nat := ⟨1, 0, 1, .free 0, [⟨.freeEnd, 1⟩], [], [[]], [], []⟩
def w5 : Storage Nat := ⟨1, 1, 1, .freeEnd, [⟨.data 0, 1⟩], [⟨0, 1⟩], [[9]], [], []⟩

theorem step0 : withCapacity cfgW 1 1 = .ok () w0 := rfl
theorem step1 : pushWithin cfgW w0 [7] = .ok (some ⟨0, 1⟩) w1 := rfl
theorem step2 : destroyEnt cfgW w1 ⟨0, 1⟩ = .ok (some [7]) w2 := rfl
theorem step3 : pushWithin cfgW w2 [8] = .ok (some ⟨0, 2⟩) w3 := rfl
theorem step4 : destroyEnt cfgW w3 ⟨0, 2⟩ = .ok (some [8]) w4 := rfl
theorem step5 : pushWithin cfgW w4 [9] = .ok (some ⟨0, 1⟩) w5 := rfl

end HistEx

open HistEx in
/-- With `wrapping_version` the same handle is issued twice (model functions run directly). -/
theorem C08_wrapping_witness :
    ∃ (s0 s1 s2 s3 s4 s5 : Storage Nat) (e e' : Ent) (r1 r2 : List Nat),
      cfgW.wrapping = true ∧ cfgW.vmax = 2
      ∧ withCapacity cfgW 1 1 = .ok () s0
      ∧ pushWithin cfgW s0 [7] = .ok (some e) s1
      ∧ destroyEnt cfgW s1 e = .ok (some r1) s2
      ∧ pushWithin cfgW s2 [8] = .ok (some e') s3
      ∧ destroyEnt cfgW s3 e' = .ok (some r2) s4
      ∧ pushWithin cfgW s4 [9] = .ok (some e) s5 :=
  ⟨w0, w1, w2, w3, w4, w5, ⟨0, 1⟩, ⟨0, 2⟩, [7], [8], rfl, rfl,
    step0, step1, step2, step3, step4, step5⟩

namespace HistEx

theorem cfgW_ok : CfgOk cfgW := ⟨by decide⟩

theorem w0_inv : Inv cfgW w0 := (HInv.init cfgW_ok step0).inv
theorem w1_inv : Inv cfgW w1 := sstep_inv w0_inv (.pushWithin _ _ _ _ step1)
theorem w2_inv : Inv cfgW w2 := sstep_inv w1_inv (.destroyEnt _ _ _ _ step2)
theorem w3_inv : Inv cfgW w3 := sstep_inv w2_inv (.pushWithin _ _ _ _ step3)
theorem w4_inv : Inv cfgW w4 := sstep_inv w3_inv (.destroyEnt _ _ _ _ step4)

theorem w2_hinv : HInv cfgW w2 [⟨0, 1⟩] := by
  refine ⟨w2_inv, (by intro e he; cases he), ?_⟩
  intro e he _
  simp only [List.mem_singleton] at he; subst he
  exact ⟨⟨.freeEnd, 2⟩, rfl, by decide⟩

end HistEx

open HistEx in
/-- The conclusions of `no_resurrection` and `fresh_forever` are false for a wrapping
configuration: all their other hypotheses hold here, yet the stale handle `(0, 1)` is back in
the dense array, returned by a creation. -/
theorem C08_wrapping_resurrection :
    ∃ (s s₁ s' : Storage Nat) (seen : List Ent) (e : Ent),
      HInv cfgW s seen ∧ SReach cfgW s s₁ ∧ SCreate cfgW s₁ s' e
      ∧ e ∈ seen ∧ e ∉ s.ents ∧ e ∈ s'.ents :=
  ⟨w2, w4, w5, [⟨0, 1⟩], ⟨0, 1⟩, w2_hinv,
    .step (.step (.refl _) w2_inv (.pushWithin _ _ _ _ step3)) w3_inv (.destroyEnt _ _ _ _ step4),
    .pushWithin _ _ [9] _ step5, by decide, by decide, by decide⟩

/-! ## Non-vacuity (non-wrapping configuration `cfgEx`, 3-slot storage `holeEx`) -/
namespace HistEx
open StorageEx

/-- `holeEx`: handles `(0,1)`, `(2,1)` live, slot 1 free at generation 2, so `(1,1)` is a stale
handle that was seen earlier. -/
theorem holeEx_hinv : HInv cfgEx holeEx [⟨0, 1⟩, ⟨2, 1⟩, ⟨1, 1⟩] := by
  refine ⟨holeEx_inv, by decide, ?_⟩
  intro e he hn
  simp only [List.mem_cons, List.not_mem_nil, or_false] at he
  rcases he with rfl | rfl | rfl
  · exact absurd (by decide) hn
  · exact absurd (by decide) hn
  · exact ⟨⟨.freeEnd, 2⟩, rfl, by decide⟩

example : cfgEx.wrapping = false := rfl
example : (⟨1, 1⟩ : Ent) ∈ [(⟨0, 1⟩ : Ent), ⟨2, 1⟩, ⟨1, 1⟩] ∧ (⟨1, 1⟩ : Ent) ∉ holeEx.ents := by
  decide

/-- a creation on `holeEx` (reusing slot 1, now at generation 2) … -/
def holeEx1 : Storage Nat :=
  ⟨2, 3, 3, .freeEnd, [⟨.data 0, 1⟩, ⟨.data 2, 2⟩, ⟨.data 1, 1⟩], [⟨0, 1⟩, ⟨2, 1⟩, ⟨1, 2⟩],
    [[10, 12, 13], [20, 22, 23]], [⟨1, 2⟩], []⟩

theorem holeEx_create : pushWithin cfgEx holeEx [13, 23] = .ok (some ⟨1, 2⟩) holeEx1 := rfl

/-- … returns a handle that differs from all three seen handles -/
example : (⟨1, 2⟩ : Ent) ∉ [(⟨0, 1⟩ : Ent), ⟨2, 1⟩, ⟨1, 1⟩] :=
  create_fresh_pushWithin holeEx_hinv holeEx_create

/-- … and the stale handle `(1,1)` stays out although its slot is occupied again -/
example : (⟨1, 1⟩ : Ent) ∉ holeEx1.ents :=
  no_resurrection rfl holeEx_hinv (SReach.single holeEx_inv (.pushWithin _ _ _ _ holeEx_create))
    ⟨1, 1⟩ (by decide) (by decide)

/-- then the entity in slot 0 (dense index 0) is removed through its direct handle `(0, 2)` -/
def holeEx2 : Storage Nat :=
  ⟨3, 2, 3, .free 0, [⟨.freeEnd, 2⟩, ⟨.data 0, 2⟩, ⟨.data 1, 1⟩], [⟨1, 2⟩, ⟨2, 1⟩],
    [[13, 12], [23, 22]], [⟨1, 2⟩], [⟨0, 1⟩]⟩

theorem holeEx1_destroy : destroyDirect cfgEx holeEx1 0 2 = .ok (some [10, 20]) holeEx2 := rfl

theorem holeEx1_inv : Inv cfgEx holeEx1 :=
  sstep_inv holeEx_inv (.pushWithin _ _ _ _ holeEx_create)

theorem holeEx1_remove : SRemove cfgEx holeEx1 holeEx2 ⟨0, 1⟩ :=
  .destroyDirect _ _ 0 2 [10, 20] ⟨0, 1⟩ rfl holeEx1_destroy

-- C09 on this history: the direct handle (1, 2) issued at `holeEx` for entity (2,1) …
example : ∃ si, resolveDirect cfgEx holeEx 1 holeEx.version = .ok (some (si, 1)) holeEx :=
  C09_issue holeEx_inv (e := ⟨2, 1⟩) rfl
-- … survives the creation …
example : resolveDirect cfgEx holeEx1 1 holeEx.version = .ok (some (2, 1)) holeEx1
    ∧ holeEx1.ents[1]? = some ⟨2, 1⟩ :=
  C09_lives_keep holeEx_inv (e := ⟨2, 1⟩) rfl
    (.step (.refl _) holeEx_inv (.create (.pushWithin _ _ _ _ holeEx_create)))
-- … and dies with the removal of another entity, although entity (2,1) is still at index 1
example : resolveDirect cfgEx holeEx2 1 holeEx.version = .ok none holeEx2 :=
  C09_dies_exact rfl 1 holeEx_inv
    (SReach.single holeEx_inv (.pushWithin _ _ _ _ holeEx_create)) holeEx1_remove (.refl _)
example : holeEx2.ents[1]? = some ⟨2, 1⟩ := rfl

/-- a further creation reuses slot 0, now at generation 2 -/
def holeEx3 : Storage Nat :=
  ⟨3, 3, 3, .freeEnd, [⟨.data 2, 2⟩, ⟨.data 0, 2⟩, ⟨.data 1, 1⟩], [⟨1, 2⟩, ⟨2, 1⟩, ⟨0, 2⟩],
    [[13, 12, 14], [23, 22, 24]], [⟨1, 2⟩, ⟨0, 2⟩], [⟨0, 1⟩]⟩

theorem holeEx2_create : pushWithin cfgEx holeEx2 [14, 24] = .ok (some ⟨0, 2⟩) holeEx3 := rfl

theorem holeEx_reach2 : SReach cfgEx holeEx holeEx2 :=
  .step (SReach.single holeEx_inv (.pushWithin _ _ _ _ holeEx_create)) holeEx1_inv
    holeEx1_remove.sstep

-- `sstep_hinv`: the ghost after the first creation
example : HInv cfgEx holeEx1 ([⟨0, 1⟩, ⟨2, 1⟩, ⟨1, 1⟩] ++ holeEx1.ents) :=
  sstep_hinv rfl holeEx_hinv (.pushWithin _ _ _ _ holeEx_create)

-- `fresh_forever`: two steps later the creation returns (0,2), different from all three
-- handles seen at `holeEx` — in particular from (0,1), the previous tenant of slot 0
example : (⟨0, 2⟩ : Ent) ∉ [(⟨0, 1⟩ : Ent), ⟨2, 1⟩, ⟨1, 1⟩] :=
  fresh_forever_pushWithin rfl holeEx_hinv holeEx_reach2 holeEx2_create

-- `C09_safe`: a handle accepted after the creation still designates entity (2,1)
example : holeEx1.ents[1]? = some ⟨2, 1⟩ :=
  C09_safe rfl holeEx_inv (e := ⟨2, 1⟩) rfl
    (SReach.single holeEx_inv (.pushWithin _ _ _ _ holeEx_create)) ⟨2, rfl⟩

-- C01: the removed handle (0,1) never resolves again
example : (⟨0, 1⟩ : Ent) ∉ holeEx2.ents :=
  (C01_destroyed_stays_dead rfl holeEx1_inv holeEx1_remove (.refl _)).1

-- overflow: `ovfEx` holds an entity whose slot generation is `vmax = 5`
example : ∃ msg, destroyEnt cfgEx ovfEx ⟨0, 5⟩ = .panic msg ovfEx :=
  overflow_blocks_reissue rfl ovfEx_inv (by decide) (.inl rfl)
example : ∃ msg, destroyEnt cfgEx archOvfEx ⟨0, 1⟩ = .panic msg archOvfEx :=
  overflow_blocks_reissue rfl archOvfEx_inv (by decide) (.inr rfl)

-- C12 on the history holeEx → holeEx1 → holeEx2
example : holeEx.capacity ≤ holeEx2.capacity ∧ Inv cfgEx holeEx2
    ∧ holeEx2.len = holeEx2.ents.length := by
  have hr := holeEx_reach2
  exact ⟨sreach_capacity_mono holeEx_inv hr, sreach_inv holeEx_inv hr,
    (len_eq_ents (sreach_inv holeEx_inv hr)).1⟩

-- `HInv.init` / growth: a fresh storage of capacity 0 grows on the first create
example : ∃ s : Storage Nat, withCapacity cfgEx 1 0 = .ok () s ∧ HInv cfgEx s [] :=
  ⟨_, rfl, HInv.init (ncols := 1) (cap := 0) cfgEx_ok rfl⟩

-- growth: `fullEx` is full (capacity 2); `push` grows it to capacity 6.  The ghost invariant
-- survives the growth step and the new handle is fresh.
example : ∃ e s', push cfgEx (codeGrowth cfgEx) fullEx [12] = .ok e s' ∧ s'.capacity = 6
    ∧ HInv cfgEx s' (fullEx.ents ++ s'.ents) ∧ e ∉ fullEx.ents := by
  obtain ⟨e, s', h1, _, _, _, _, _, _, _, h9, _⟩ :=
    push_ok cfgEx (codeGrowth cfgEx) fullEx [12] fullEx_inv cfgEx_ok
      (fun hh => codeGrowth_ok cfgEx _ hh) (by decide)
  have hs : SCreate cfgEx fullEx s' e :=
    .push _ _ _ _ _ (fun hh => codeGrowth_ok cfgEx _ hh) h1
  exact ⟨e, s', h1, by rw [h9 (by decide)]; decide,
    sstep_hinv rfl (HInv.of_inv fullEx_inv) hs.sstep, create_fresh (HInv.of_inv fullEx_inv) hs⟩

end HistEx
end Gecs

section
open Gecs
#print axioms SStep.classify
#print axioms sstep_inv
#print axioms sreach_inv
#print axioms sstep_capacity_mono
#print axioms sreach_capacity_mono
#print axioms sstep_len
#print axioms len_eq_ents
#print axioms is_empty_iff
#print axioms HInv.init
#print axioms HInv.of_inv
#print axioms create_fresh
#print axioms sremove_spec
#print axioms destroyEnt_removed
#print axioms destroyDirect_removed
#print axioms sstep_hinv
#print axioms sstep_hinv_filter
#print axioms sreach_hinv
#print axioms no_resurrection
#print axioms no_resurrection_resolve
#print axioms C01_destroyed_stays_dead
#print axioms fresh_forever
#print axioms fresh_forever_push
#print axioms fresh_forever_pushWithin
#print axioms C08_never_reissued
#print axioms C08_wrapping_witness
#print axioms C08_wrapping_resurrection
#print axioms overflow_blocks_reissue
#print axioms overflow_blocks_reissue_direct
#print axioms Later.refl
#print axioms Later.trans
#print axioms sstep_later
#print axioms sreach_later
#print axioms sstep_version_strict
#print axioms removal_bumps
#print axioms sreach_version_lt_of_destroy
#print axioms C09_issue
#print axioms C09_safe
#print axioms C09_safe_idx
#print axioms C09_safe_slot
#print axioms C09_dies
#print axioms C09_dies_exact
#print axioms C09_lives
#print axioms C09_lives_keep
end
