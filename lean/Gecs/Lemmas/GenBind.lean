/-
Each of the four binding tables extracted from macros/src/generate/query.rs binds, for every
bound parameter list, storage, index and version, exactly what the model's `bindArgs` binds.
-/
import Gecs.Gen.Steps

set_option linter.unusedSimpArgs false

namespace Gecs

variable {α : Type}

/-- What `bindArgs` needs of a table, as a decidable check on the table alone. -/
def tableOk (t : List BindRow) : Bool :=
  (lookupBind t .Component true == some .compMut || lookupBind t .Component true == some .compField)
  && (lookupBind t .Component false == some .compRef || lookupBind t .Component false == some .compField)
  && lookupBind t .Entity false == some .entityAtIdx && lookupBind t .EntityWild false == some .entityAtIdx
  && lookupBind t .EntityAny false == some .entityAtIdxIntoAny
  && lookupBind t .EntityDirect false == some .directIdxVersion
  && lookupBind t .EntityDirectWild false == some .directIdxVersion
  && lookupBind t .EntityDirectAny false == some .directIdxVersionIntoAny

theorem bindOneT_of_ok (t : List BindRow) (h : tableOk t = true) (idA : Nat) (s : Storage α) (version idx : Nat)
    (p : Param) :
    bindOneT t idA s version idx p =
      (match p with
       | .comp c m => ((s.cols.getD c [])[idx]?).map (Arg.comp m)
       | .ent | .entAny => (s.ents[idx]?).map (fun e => Arg.ent (mkKey e.slot idA e.ver))
       | .dir | .dirAny => some (Arg.dir (mkKey idx idA version))) := by
  simp only [tableOk, Bool.and_eq_true, Bool.or_eq_true, beq_iff_eq] at h
  obtain ⟨⟨⟨⟨⟨⟨⟨h1, h2⟩, h3⟩, h4⟩, h5⟩, h6⟩, h7⟩, h8⟩ := h
  cases p with
  | comp c m =>
    cases m
    · rcases h2 with h2 | h2 <;> simp [bindOneT, paramRows, h2, kindFits, argOfKind, paramCol, paramMut]
    · rcases h1 with h1 | h1 <;> simp [bindOneT, paramRows, h1, kindFits, argOfKind, paramCol, paramMut]
  | ent => simp [bindOneT, paramRows, h3, h4, kindFits, argOfKind]
  | entAny => simp [bindOneT, paramRows, h5, kindFits, argOfKind]
  | dir => simp [bindOneT, paramRows, h6, h7, kindFits, argOfKind]
  | dirAny => simp [bindOneT, paramRows, h8, kindFits, argOfKind]

theorem bindArgsT_of_ok (t : List BindRow) (h : tableOk t = true) (idA : Nat) (s : Storage α) (version idx : Nat) :
    ∀ ps : List Param, bindArgsT t idA s version idx ps = bindArgs idA s version idx ps := by
  intro ps
  induction ps with
  | nil => rfl
  | cons p ps ih =>
    unfold bindArgsT bindArgs
    rw [bindOneT_of_ok t h, ih]
    cases p <;> rfl

theorem gen_bind_tables_ok :
    tableOk Gen.iterBindMut = true ∧ tableOk Gen.iterBindBorrow = true
    ∧ tableOk Gen.findBindMut = true ∧ tableOk Gen.findBindBorrow = true := by
  decide

/-- The arguments the generated code hands to the user closure — in `ecs_iter!`,
`ecs_iter_borrow!`, `ecs_iter_destroy!` (index = loop index) and in `ecs_find!` /
`ecs_find_borrow!` (index = the resolved dense index) — are `bindArgs`. -/
theorem gen_bind_args (idA : Nat) (s : Storage α) (version idx : Nat) (ps : List Param) :
    bindArgsT Gen.iterBindMut idA s version idx ps = bindArgs idA s version idx ps
    ∧ bindArgsT Gen.iterBindBorrow idA s version idx ps = bindArgs idA s version idx ps
    ∧ bindArgsT Gen.findBindMut idA s version idx ps = bindArgs idA s version idx ps
    ∧ bindArgsT Gen.findBindBorrow idA s version idx ps = bindArgs idA s version idx ps := by
  obtain ⟨h1, h2, h3, h4⟩ := gen_bind_tables_ok
  exact ⟨bindArgsT_of_ok _ h1 idA s version idx ps, bindArgsT_of_ok _ h2 idA s version idx ps,
         bindArgsT_of_ok _ h3 idA s version idx ps, bindArgsT_of_ok _ h4 idA s version idx ps⟩

/-- The interpreter discriminates: a table whose SHARED component arm binds mutably (seeded
change C11: `component_mut` in the shared arm) is not ok. -/
example : tableOk (Gen.findBindBorrow.map (fun r =>
    if r.variant == .Component && r.isMut == some false then { r with kind := .compMut } else r)) = false := by
  decide

end Gecs
