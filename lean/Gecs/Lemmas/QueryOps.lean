/-
Query loops with arbitrary closures, the step theorem and the run theorem.

For every closure state type `σ` and every closure `f` (an arbitrary function: it may return
any writes, ask for any removal, panic at any point) the loops emitted by `ecs_iter!`,
`ecs_iter_destroy!` and `ecs_find!` never reach `ub` from a world satisfying `WInv`, and they
change each storage only by atomic steps (`SReach`).  `stepOp_spec` / `run_inv` lift this to
single operations and to ALL finite histories, continuing after every panic.

Deviation from the requested statements: operations must be *well-scoped* (`Op.Scoped`):
archetype indices exist, rows have one value per column, `ecs_find!` only names existing
columns, typed key uses name an existing archetype.  These are static guarantees of the Rust
type system / macro expansion; the model (which uses numbers) answers `ub` without them.
Concrete counterexamples are at the end of the file.
-/
import Gecs.Lemmas.WorldOps

namespace Gecs
variable {α σ : Type}

/-! ## C. Loops -/

theorem slicesValid_of_inv {cfg : Cfg} {s : Storage α} (h : Inv cfg s) :
    slicesValid cfg s = true := by
  have hall : s.cols.all (fun c => c.length == s.len) = true := by
    rw [List.all_eq_true]; intro c hc; simp [h.colsLen c hc]
  simp [slicesValid, h.entsLen, h.len_le_maxCap, hall]

/-- Only component values differ between `s` and `s'`. -/
structure ColsOnly (s s' : Storage α) : Prop where
  ents : s'.ents = s.ents
  len : s'.len = s.len
  capacity : s'.capacity = s.capacity
  version : s'.version = s.version
  slots : s'.slots = s.slots
  freeHead : s'.freeHead = s.freeHead
  created : s'.created = s.created
  destroyed : s'.destroyed = s.destroyed
  ncols : s'.cols.length = s.cols.length

theorem ColsOnly.refl (s : Storage α) : ColsOnly s s :=
  ⟨rfl, rfl, rfl, rfl, rfl, rfl, rfl, rfl, rfl⟩

theorem ColsOnly.trans {s s' s'' : Storage α} (h1 : ColsOnly s s') (h2 : ColsOnly s' s'') :
    ColsOnly s s'' :=
  ⟨h2.ents.trans h1.ents, h2.len.trans h1.len, h2.capacity.trans h1.capacity,
   h2.version.trans h1.version, h2.slots.trans h1.slots, h2.freeHead.trans h1.freeHead,
   h2.created.trans h1.created, h2.destroyed.trans h1.destroyed, h2.ncols.trans h1.ncols⟩

theorem ColsOnly.writeCell (s : Storage α) (d c : Nat) (x : α) : ColsOnly s (writeCell s d c x) :=
  ⟨rfl, rfl, rfl, rfl, rfl, rfl, rfl, rfl, by simp [Gecs.writeCell]⟩

/-- The closure's writes: a finite sequence of `SStep.write`. -/
theorem applyWrites_spec {cfg : Cfg} (idx : Nat) :
    ∀ (ps : List Param) (ws : List (Option α)) (s : Storage α), Inv cfg s →
      Inv cfg (applyWrites s idx ps ws) ∧ SReach cfg s (applyWrites s idx ps ws)
        ∧ ColsOnly s (applyWrites s idx ps ws) := by
  intro ps
  induction ps with
  | nil => intro ws s hs; simp only [applyWrites]; exact ⟨hs, .refl s, .refl s⟩
  | cons p ps ih =>
    intro ws s hs
    cases ws with
    | nil => simp only [applyWrites]; exact ⟨hs, .refl s, .refl s⟩
    | cons w ws =>
      by_cases hc : ∃ c x, p = .comp c true ∧ w = some x
      · obtain ⟨c, x, rfl, rfl⟩ := hc
        simp only [applyWrites]
        obtain ⟨h1, h2, h3⟩ := ih ws (writeCell s idx c x) (writeCell_inv hs)
        exact ⟨h1, (SReach.of_step hs (.write s idx c x)).trans h2,
          (ColsOnly.writeCell s idx c x).trans h3⟩
      · have : applyWrites s idx (p :: ps) (w :: ws) = applyWrites s idx ps ws := by
          rw [applyWrites]
          intro c x hp hw; exact hc ⟨c, x, hp, hw⟩
        rw [this]; exact ih ws s hs

theorem applyWrites_reach {cfg : Cfg} {s : Storage α} (hs : Inv cfg s) (idx : Nat)
    (ps : List Param) (ws : List (Option α)) : SReach cfg s (applyWrites s idx ps ws) :=
  (applyWrites_spec idx ps ws s hs).2.1

theorem applyWrites_inv {cfg : Cfg} {s : Storage α} (hs : Inv cfg s) (idx : Nat)
    (ps : List Param) (ws : List (Option α)) : Inv cfg (applyWrites s idx ps ws) :=
  (applyWrites_spec idx ps ws s hs).1

theorem applyWrites_colsOnly {cfg : Cfg} {s : Storage α} (hs : Inv cfg s) (idx : Nat)
    (ps : List Param) (ws : List (Option α)) : ColsOnly s (applyWrites s idx ps ws) :=
  (applyWrites_spec idx ps ws s hs).2.2

/-- `P` holds of the storage carried by the outcome; `ub` does not satisfy anything. -/
def LoopOut.sat (P : Storage α → Prop) : LoopOut σ α → Prop
  | .done _ s' => P s'
  | .stop _ s' => P s'
  | .panic _ _ s' => P s'
  | .ub _ => False

theorem LoopOut.sat_mono {P Q : Storage α → Prop} {o : LoopOut σ α} (h : o.sat P)
    (hpq : ∀ s, P s → Q s) : o.sat Q := by
  cases o <;> simp only [LoopOut.sat] at h ⊢ <;> first | exact hpq _ h | exact h

theorem LoopOut.sat_not_ub {P : Storage α → Prop} {o : LoopOut σ α} (h : o.sat P) :
    ∀ m, o ≠ .ub m := by
  intro m hm; rw [hm] at h; exact h

theorem iterLoop_sat {cfg : Cfg} (idA : Nat) (ps : List Param) (f : Closure σ α Step)
    (version : Nat) :
    ∀ (idxs : List Nat) (st : σ) (s : Storage α), Inv cfg s →
      (iterLoop idA ps f version idxs st s).sat
        (fun s' => Inv cfg s' ∧ SReach cfg s s' ∧ ColsOnly s s') := by
  intro idxs
  induction idxs with
  | nil => intro st s hs; simp only [iterLoop, LoopOut.sat]; exact ⟨hs, .refl s, .refl s⟩
  | cons idx rest ih =>
    intro st s hs
    rw [iterLoop]
    cases hb : bindArgs idA s version idx ps with
    | none => exact ⟨hs, .refl s, .refl s⟩
    | some args =>
      simp only []
      cases hf : f st args with
      | panic st' ws => exact applyWrites_spec idx ps ws s hs
      | ret st' ws r =>
        cases r with
        | brk => exact applyWrites_spec idx ps ws s hs
        | cont =>
          obtain ⟨h1, h2, h3⟩ := applyWrites_spec (cfg := cfg) idx ps ws s hs
          exact LoopOut.sat_mono (ih st' _ h1)
            (fun s' ⟨g1, g2, g3⟩ => ⟨g1, h2.trans g2, h3.trans g3⟩)

/-- What `ecs_iter_destroy!` can do to one storage. -/
def DestroyPost (cfg : Cfg) (s s' : Storage α) : Prop :=
  Inv cfg s' ∧ SReach cfg s s' ∧ s'.capacity = s.capacity ∧ s'.cols.length = s.cols.length
    ∧ s'.len ≤ s.len

theorem DestroyPost.refl {cfg : Cfg} {s : Storage α} (hs : Inv cfg s) : DestroyPost cfg s s :=
  ⟨hs, .refl s, rfl, rfl, Nat.le_refl _⟩

theorem DestroyPost.trans {cfg : Cfg} {s s' s'' : Storage α} (h1 : DestroyPost cfg s s')
    (h2 : DestroyPost cfg s' s'') : DestroyPost cfg s s'' :=
  ⟨h2.1, h1.2.1.trans h2.2.1, h2.2.2.1.trans h1.2.2.1, h2.2.2.2.1.trans h1.2.2.2.1,
   Nat.le_trans h2.2.2.2.2 h1.2.2.2.2⟩

theorem DestroyPost.of_writes {cfg : Cfg} {s : Storage α} (hs : Inv cfg s) (idx : Nat)
    (ps : List Param) (ws : List (Option α)) : DestroyPost cfg s (applyWrites s idx ps ws) := by
  obtain ⟨h1, h2, h3⟩ := applyWrites_spec (cfg := cfg) idx ps ws s hs
  exact ⟨h1, h2, h3.capacity, h3.ncols, Nat.le_of_eq h3.len⟩

/-- One `destroyEnt` from an `Inv` state, whatever its outcome, in `DestroyPost` form. -/
theorem destroyEnt_post {cfg : Cfg} {s : Storage α} (hs : Inv cfg s) (e : Ent) :
    (∃ r s', destroyEnt cfg s e = .ok r s' ∧ DestroyPost cfg s s')
    ∨ (∃ m, destroyEnt cfg s e = .panic m s) := by
  rcases destroyEnt_cases cfg s e hs with g | ⟨row, s2, g, gi, gc, gn, gl⟩ | ⟨m, g⟩
  · exact .inl ⟨none, s, g, .refl hs⟩
  · exact .inl ⟨some row, s2, g, gi, SReach.of_step hs (.destroyEnt s s2 e row g), gc, gn,
      by omega⟩
  · exact .inr ⟨m, g⟩

theorem destroyLoop_sat {cfg : Cfg} (idA : Nat) (ps : List Param) (f : Closure σ α Step4) :
    ∀ (idxs : List Nat) (st : σ) (s : Storage α), Inv cfg s →
      (destroyLoop cfg idA ps f idxs st s).sat (DestroyPost cfg s) := by
  intro idxs
  induction idxs with
  | nil => intro st s hs; simp only [destroyLoop, LoopOut.sat]; exact .refl hs
  | cons idx rest ih =>
    intro st s hs
    rw [destroyLoop]
    simp only [slicesValid_of_inv hs, if_true]
    cases hb : bindArgs idA s s.version idx ps with
    | none => exact .refl hs
    | some args =>
      simp only []
      cases hf : f st args with
      | panic st' ws => exact .of_writes hs idx ps ws
      | ret st' ws r =>
        simp only []
        have hw := DestroyPost.of_writes (cfg := cfg) hs idx ps ws
        have h1 := hw.1
        cases r with
        | cont => exact LoopOut.sat_mono (ih st' _ h1) (fun s' g => hw.trans g)
        | brk => exact hw
        | contDestroy =>
          simp only []
          cases he : (applyWrites s idx ps ws).ents[idx]? with
          | none => exact hw
          | some e =>
            simp only []
            rcases destroyEnt_post h1 e with ⟨r, s2, g, gp⟩ | ⟨m, g⟩
            · rw [g]; simp only [reduceCtorEq, if_false]
              exact LoopOut.sat_mono (ih st' _ gp.1) (fun s' g' => hw.trans (gp.trans g'))
            · rw [g]; exact hw
        | brkDestroy =>
          simp only []
          cases he : (applyWrites s idx ps ws).ents[idx]? with
          | none => exact hw
          | some e =>
            simp only []
            rcases destroyEnt_post h1 e with ⟨r, s2, g, gp⟩ | ⟨m, g⟩
            · rw [g]; simp only [if_true]
              exact hw.trans gp
            · rw [g]; exact hw

/-! ### The world relation established by every operation -/

/-- `w'` is a legitimate successor of `w`: still `WInv`, same ids, same number of archetypes,
every storage reached by atomic steps, same number of columns. -/
structure WRel (cfg : Cfg) (w w' : World α) : Prop where
  winv : WInv cfg w'
  ids : w'.ids = w.ids
  len : w'.archs.length = w.archs.length
  reach : ∀ (a : Nat) (s s' : Storage α),
    w.archs[a]? = some s → w'.archs[a]? = some s' → SReach cfg s s'
  ncols : ∀ (a : Nat) (s s' : Storage α),
    w.archs[a]? = some s → w'.archs[a]? = some s' → s'.cols.length = s.cols.length

theorem WRel.refl {cfg : Cfg} {w : World α} (hw : WInv cfg w) : WRel cfg w w where
  winv := hw
  ids := rfl
  len := rfl
  reach := by intro a s s' h1 h2; rw [h1] at h2; cases h2; exact .refl s
  ncols := by intro a s s' h1 h2; rw [h1] at h2; cases h2; rfl

theorem WRel.trans {cfg : Cfg} {w w' w'' : World α} (h1 : WRel cfg w w') (h2 : WRel cfg w' w'') :
    WRel cfg w w'' where
  winv := h2.winv
  ids := h2.ids.trans h1.ids
  len := h2.len.trans h1.len
  reach := by
    intro a s s'' g1 g2
    have hlt : a < w'.archs.length := by rw [h1.len]; exact (List.getElem?_eq_some_iff.mp g1).1
    have g : w'.archs[a]? = some w'.archs[a] := List.getElem?_eq_getElem hlt
    exact (h1.reach a s _ g1 g).trans (h2.reach a _ s'' g g2)
  ncols := by
    intro a s s'' g1 g2
    have hlt : a < w'.archs.length := by rw [h1.len]; exact (List.getElem?_eq_some_iff.mp g1).1
    have g : w'.archs[a]? = some w'.archs[a] := List.getElem?_eq_getElem hlt
    exact (h2.ncols a _ s'' g g2).trans (h1.ncols a s _ g1 g)

/-- Replacing one storage by a state reached from it. -/
theorem WRel.setArch {cfg : Cfg} {w : World α} (hw : WInv cfg w) {a : Nat} {s s' : Storage α}
    (hs : w.archs[a]? = some s) (hi : Inv cfg s') (hr : SReach cfg s s')
    (hn : s'.cols.length = s.cols.length) : WRel cfg w (w.setArch a s') where
  winv := hw.setArch a hi
  ids := rfl
  len := World.setArch_length w a s'
  reach := by
    intro b t t' g1 g2
    by_cases hab : a = b
    · subst hab
      rw [World.setArch_get_self s' (hw.lt_of_get hs)] at g2
      rw [hs] at g1; cases g1; cases g2; exact hr
    · rw [World.setArch_get_ne s' hab, g1] at g2; cases g2; exact .refl t
  ncols := by
    intro b t t' g1 g2
    by_cases hab : a = b
    · subst hab
      rw [World.setArch_get_self s' (hw.lt_of_get hs)] at g2
      rw [hs] at g1; cases g1; cases g2; exact hn
    · rw [World.setArch_get_ne s' hab, g1] at g2; cases g2; rfl

/-- Applying the same atomic transformation to every storage. -/
theorem WRel.map {cfg : Cfg} {w : World α} (hw : WInv cfg w) (F : Storage α → Storage α)
    (hF : ∀ s, Inv cfg s → Inv cfg (F s) ∧ SReach cfg s (F s) ∧ (F s).cols.length = s.cols.length) :
    WRel cfg w ⟨w.ids, w.archs.map F⟩ where
  winv := by
    refine ⟨by simp [hw.idsLen], hw.idsNodup, hw.idsLt, ?_⟩
    intro s hs
    obtain ⟨s0, h0, rfl⟩ := List.mem_map.mp hs
    exact (hF s0 (hw.inv s0 h0)).1
  ids := rfl
  len := by simp
  reach := by
    intro a s s' g1 g2
    simp only [List.getElem?_map, g1, Option.map_some, Option.some.injEq] at g2
    subst g2; exact (hF s (hw.get g1)).2.1
  ncols := by
    intro a s s' g1 g2
    simp only [List.getElem?_map, g1, Option.map_some, Option.some.injEq] at g2
    subst g2; exact (hF s (hw.get g1)).2.2

/-- The column-count schema is preserved. -/
theorem WRel.ncols_map {cfg : Cfg} {w w' : World α} (h : WRel cfg w w') :
    w'.archs.map (fun s => s.cols.length) = w.archs.map (fun s => s.cols.length) := by
  apply List.ext_getElem?
  intro a
  simp only [List.getElem?_map]
  cases g1 : w.archs[a]? with
  | none =>
    have : w'.archs[a]? = none := by
      rw [List.getElem?_eq_none_iff] at g1 ⊢; rw [h.len]; exact g1
    rw [this]
  | some s =>
    have hlt : a < w'.archs.length := by rw [h.len]; exact (List.getElem?_eq_some_iff.mp g1).1
    have g : w'.archs[a]? = some w'.archs[a] := List.getElem?_eq_getElem hlt
    rw [g]; simp only [Option.map_some]; rw [h.ncols a s _ g1 g]

/-- Capacities never shrink along `WRel`. -/
theorem WRel.capacity_mono {cfg : Cfg} {w w' : World α} (hw : WInv cfg w) (h : WRel cfg w w')
    (a : Nat) (s s' : Storage α) (g1 : w.archs[a]? = some s) (g2 : w'.archs[a]? = some s') :
    s.capacity ≤ s'.capacity :=
  (h.reach a s s' g1 g2).capacity_mono (hw.get g1)

def QOut.sat (P : World α → Prop) : QOut σ α → Prop
  | .ok _ w' => P w'
  | .panic _ _ w' => P w'
  | .ub _ => False

theorem QOut.sat_mono {P Q : World α → Prop} {o : QOut σ α} (h : o.sat P)
    (hpq : ∀ w, P w → Q w) : o.sat Q := by
  cases o <;> simp only [QOut.sat] at h ⊢ <;> first | exact hpq _ h | exact h

def FOut.sat {ρ : Type} (P : World α → Prop) : FOut σ α ρ → Prop
  | .ok _ _ w' => P w'
  | .panic _ _ w' => P w'
  | .ub _ => False

def Res.sat (P : World α → Prop) : Res α → Prop
  | .ok w' => P w'
  | .panic _ w' => P w'
  | .ub _ => False

/-- The column-count schema of a world: number of columns of each archetype (fixed by the
`ecs_world!` declaration). -/
def World.sch (w : World α) : List Nat := w.archs.map (fun s => s.cols.length)

@[simp] theorem World.sch_length (w : World α) : w.sch.length = w.archs.length := by
  simp [World.sch]

theorem World.sch_get {w : World α} {a n : Nat} (h : w.sch[a]? = some n) :
    ∃ s, w.archs[a]? = some s ∧ s.cols.length = n := by
  simp only [World.sch, List.getElem?_map] at h
  cases hs : w.archs[a]? with
  | none => rw [hs] at h; cases h
  | some s => rw [hs] at h; exact ⟨s, rfl, by simpa using h⟩

/-- Every archetype the query matches exists (`ecs_iter!` / `ecs_iter_destroy!`). -/
def QArchsIn (n : Nat) (q : Query) : Prop := ∀ qa ∈ q, qa.a < n

/-- Every archetype the query matches exists and has the columns the bound parameters name
(`sch` = number of columns per archetype).  Guaranteed by the macro's binding step. -/
def QColsIn (sch : List Nat) (q : Query) : Prop :=
  ∀ qa ∈ q, ∃ nc, sch[qa.a]? = some nc ∧ ∀ c m, Param.comp c m ∈ qa.params → c < nc

theorem QColsIn.archsIn {sch : List Nat} {q : Query} (h : QColsIn sch q) : QArchsIn sch.length q := by
  intro qa hqa
  obtain ⟨nc, h1, _⟩ := h qa hqa
  exact (List.getElem?_eq_some_iff.mp h1).1

theorem iterQuery_sat {cfg : Cfg} (f : Closure σ α Step) :
    ∀ (q : Query) (st : σ) (w : World α), WInv cfg w → QArchsIn w.archs.length q →
      (iterQuery cfg f q st w).sat (WRel cfg w) := by
  intro q
  induction q with
  | nil => intro st w hw _; simp only [iterQuery, QOut.sat]; exact .refl hw
  | cons qa rest ih =>
    intro st w hw hq
    have hlt := hq qa List.mem_cons_self
    obtain ⟨s, hs⟩ : ∃ s, w.archs[qa.a]? = some s := ⟨_, List.getElem?_eq_getElem hlt⟩
    have hi := hw.get hs
    rw [iterQuery]
    simp only [hs, slicesValid_of_inv hi, if_true]
    have hl := iterLoop_sat (cfg := cfg) (w.ids.getD qa.a ID_RANGE) qa.params f s.version
      (List.range s.len) st s hi
    cases hloop : iterLoop (w.ids.getD qa.a ID_RANGE) qa.params f s.version
        (List.range s.len) st s with
    | done st' s' =>
      rw [hloop] at hl
      have hrel := WRel.setArch hw hs hl.1 hl.2.1 hl.2.2.ncols
      simp only []
      refine QOut.sat_mono (ih st' _ hrel.winv ?_) (fun w'' h => hrel.trans h)
      intro qa' hqa'
      rw [World.setArch_length]; exact hq qa' (List.mem_cons_of_mem _ hqa')
    | stop st' s' =>
      rw [hloop] at hl; exact WRel.setArch hw hs hl.1 hl.2.1 hl.2.2.ncols
    | panic m st' s' =>
      rw [hloop] at hl; exact WRel.setArch hw hs hl.1 hl.2.1 hl.2.2.ncols
    | ub m => rw [hloop] at hl; exact hl.elim

theorem iterDestroyQuery_sat {cfg : Cfg} (f : Closure σ α Step4) :
    ∀ (q : Query) (st : σ) (w : World α), WInv cfg w → QArchsIn w.archs.length q →
      (iterDestroyQuery cfg f q st w).sat (WRel cfg w) := by
  intro q
  induction q with
  | nil => intro st w hw _; simp only [iterDestroyQuery, QOut.sat]; exact .refl hw
  | cons qa rest ih =>
    intro st w hw hq
    have hlt := hq qa List.mem_cons_self
    obtain ⟨s, hs⟩ : ∃ s, w.archs[qa.a]? = some s := ⟨_, List.getElem?_eq_getElem hlt⟩
    have hi := hw.get hs
    rw [iterDestroyQuery]
    simp only [hs]
    have hl := destroyLoop_sat (cfg := cfg) (w.ids.getD qa.a ID_RANGE) qa.params f
      (List.range s.len).reverse st s hi
    cases hloop : destroyLoop cfg (w.ids.getD qa.a ID_RANGE) qa.params f
        (List.range s.len).reverse st s with
    | done st' s' =>
      rw [hloop] at hl
      have hrel := WRel.setArch hw hs hl.1 hl.2.1 hl.2.2.2.1
      simp only []
      refine QOut.sat_mono (ih st' _ hrel.winv ?_) (fun w'' h => hrel.trans h)
      intro qa' hqa'
      rw [World.setArch_length]; exact hq qa' (List.mem_cons_of_mem _ hqa')
    | stop st' s' =>
      rw [hloop] at hl; exact WRel.setArch hw hs hl.1 hl.2.1 hl.2.2.2.1
    | panic m st' s' =>
      rw [hloop] at hl; exact WRel.setArch hw hs hl.1 hl.2.1 hl.2.2.2.1
    | ub m => rw [hloop] at hl; exact hl.elim

/-- Inside the valid region, with existing columns, every parameter can be bound. -/
theorem bindArgs_isSome {cfg : Cfg} {s : Storage α} (hs : Inv cfg s) (idA version : Nat) {d : Nat}
    (hd : d < s.len) :
    ∀ (ps : List Param), (∀ c m, Param.comp c m ∈ ps → c < s.cols.length) →
      ∃ args, bindArgs idA s version d ps = some args := by
  intro ps
  induction ps with
  | nil => intro _; exact ⟨[], rfl⟩
  | cons p ps ih =>
    intro hp
    obtain ⟨as, has⟩ := ih (fun c m h => hp c m (List.mem_cons_of_mem _ h))
    obtain ⟨e, he⟩ : ∃ e, s.ents[d]? = some e :=
      ⟨_, List.getElem?_eq_getElem (by rw [hs.entsLen]; exact hd)⟩
    cases p with
    | comp c m =>
      have hc := hp c m List.mem_cons_self
      have hcol : s.cols.getD c [] = s.cols[c] := by
        simp [List.getD_eq_getElem?_getD, List.getElem?_eq_getElem hc]
      have hlen : (s.cols[c]).length = s.len := hs.colsLen _ (List.getElem_mem hc)
      obtain ⟨x, hx⟩ : ∃ x, (s.cols[c])[d]? = some x :=
        ⟨_, List.getElem?_eq_getElem (by rw [hlen]; exact hd)⟩
      simp only [bindArgs, hcol, hx, has, Option.map_some]; exact ⟨_, rfl⟩
    | ent => simp only [bindArgs, he, has, Option.map_some]; exact ⟨_, rfl⟩
    | entAny => simp only [bindArgs, he, has, Option.map_some]; exact ⟨_, rfl⟩
    | dir => simp only [bindArgs, has]; exact ⟨_, rfl⟩
    | dirAny => simp only [bindArgs, has]; exact ⟨_, rfl⟩

theorem findQuery_sat {ρ : Type} {cfg : Cfg} {w : World α} (hw : WInv cfg w) (q : Query)
    (f : Closure σ α ρ) (h : Handle) (st : σ)
    (hq : QColsIn w.sch q) :
    (findQuery cfg q f h st w).sat (WRel cfg w) := by
  unfold World.sch at hq
  unfold findQuery
  cases hr : routeWorld cfg w.ids h with
  | absent => exact .refl hw
  | panic m => exact .refl hw
  | arch a k =>
    simp only []
    cases hfind : q.find? (fun qa => qa.a == a) with
    | none => exact .refl hw
    | some qa =>
      simp only []
      have hqa : qa ∈ q := List.mem_of_find?_eq_some hfind
      have hqa2 : qa.a = a := by simpa using List.find?_some hfind
      obtain ⟨nc, hnc, hcols⟩ := hq qa hqa
      rw [hqa2, List.getElem?_map] at hnc
      cases hs : w.archs[a]? with
      | none => rw [hs] at hnc; cases hnc
      | some s =>
        rw [hs] at hnc
        simp only [Option.map_some, Option.some.injEq] at hnc
        have hi := hw.get hs
        simp only []
        rcases storageResolve_pure (cfg := cfg) hi h.kind.isDirect k with ⟨b, hb⟩ | ⟨m, hm⟩
        · rw [hb]
          cases b with
          | none => exact .refl hw
          | some d =>
            simp only [slicesValid_of_inv hi, if_true]
            obtain ⟨_, hd, _⟩ := storageResolve_ok_some hi hb
            obtain ⟨args, hargs⟩ := bindArgs_isSome hi (w.ids.getD a ID_RANGE) s.version hd
              qa.params (fun c m hc => by rw [hnc]; exact hcols c m hc)
            rw [hargs]
            simp only []
            cases hf : f st args with
            | panic st' ws =>
              obtain ⟨h1, h2, h3⟩ := applyWrites_spec (cfg := cfg) d qa.params ws s hi
              exact WRel.setArch hw hs h1 h2 h3.ncols
            | ret st' ws r =>
              obtain ⟨h1, h2, h3⟩ := applyWrites_spec (cfg := cfg) d qa.params ws s hi
              exact WRel.setArch hw hs h1 h2 h3.ncols
        · rw [hm]; exact .refl hw

/-! ## D. The step theorem and the run theorem -/

/-- Static well-scopedness of one operation with respect to the column-count schema `sch`
(`sch[a]` = number of columns of archetype `a`).  Everything asked here is guaranteed
statically by the Rust type system and the macro expansion — archetypes named by a call
exist, `create` takes one value per column, the queries' bound parameters name existing
columns of existing archetypes, a typed key names an existing archetype — but the model
refers to archetypes and columns by number and answers `ub` ("no such archetype",
"view: get_unchecked…") when a number is out of range.  Handles (their words), closures and
growth functions stay completely arbitrary. -/
def Op.Scoped (sch : List Nat) : Op α → Prop
  | .create a row _ => sch[a]? = some row.length
  | .createWithin a row => sch[a]? = some row.length
  | .destroy u => u.Scoped sch.length
  | .write u _ _ => u.Scoped sch.length
  | .iter q _ _ _ => QArchsIn sch.length q
  | .iterDestroy q _ _ _ => QArchsIn sch.length q
  | .find q _ _ _ _ => QColsIn sch q
  | .clearEvents _ => True
  | .cloneSwitch _ => True

/-- Every operation of the history is well-scoped. -/
def OpsScoped (sch : List Nat) (ops : List (Op α)) : Prop := ∀ op ∈ ops, op.Scoped sch

theorem OpsScoped_append {sch : List Nat} {ops₁ ops₂ : List (Op α)} :
    OpsScoped sch (ops₁ ++ ops₂) ↔ OpsScoped sch ops₁ ∧ OpsScoped sch ops₂ := by
  simp only [OpsScoped, List.mem_append]
  constructor
  · intro h; exact ⟨fun op ho => h op (.inl ho), fun op ho => h op (.inr ho)⟩
  · rintro ⟨h1, h2⟩ op (ho | ho)
    · exact h1 op ho
    · exact h2 op ho

theorem OpsOk_cons {cfg : Cfg} (op : Op α) (ops : List (Op α)) :
    OpsOk cfg (op :: ops) ↔ OpsOk cfg [op] ∧ OpsOk cfg ops := by
  cases op <;> simp [OpsOk]

theorem OpsOk_append {cfg : Cfg} {ops₁ ops₂ : List (Op α)} :
    OpsOk cfg (ops₁ ++ ops₂) ↔ OpsOk cfg ops₁ ∧ OpsOk cfg ops₂ := by
  induction ops₁ with
  | nil => simp [OpsOk]
  | cons op ops ih =>
    rw [List.cons_append, OpsOk_cons, ih, OpsOk_cons op ops, and_assoc]

theorem destroyDirect_post {cfg : Cfg} {s : Storage α} (hs : Inv cfg s) (d v : Nat) :
    (∃ r s', destroyDirect cfg s d v = .ok r s' ∧ DestroyPost cfg s s')
    ∨ (∃ m, destroyDirect cfg s d v = .panic m s) := by
  rcases destroyDirect_cases cfg s d v hs with g | ⟨row, s2, g, gi, gc, gn, gl⟩ | ⟨m, g⟩
  · exact .inl ⟨none, s, g, .refl hs⟩
  · exact .inl ⟨some row, s2, g, gi, SReach.of_step hs (.destroyDirect s s2 d v row g), gc, gn,
      by omega⟩
  · exact .inr ⟨m, g⟩

/-- `destroy` by any typed key words on one storage: a miss (`ok none`, state unchanged), a
removal (one `SStep`), or a panic that leaves the state unchanged (C10 at storage level). -/
theorem storageDestroy_post {cfg : Cfg} {s : Storage α} (hs : Inv cfg s) (direct : Bool) (k : Key) :
    (∃ r s', storageDestroy cfg s direct k = .ok r s' ∧ DestroyPost cfg s s')
    ∨ (∃ m, storageDestroy cfg s direct k = .panic m s) := by
  cases direct
  · exact destroyEnt_post hs _
  · exact destroyDirect_post hs _ _

theorem clone_go {cfg : Cfg} (cl : α → α) (w : World α) :
    ∀ (l acc : List (Storage α)), (∀ s ∈ l, Inv cfg s) →
      World.clone.go cl w l acc
        = .ok ⟨w.ids, acc ++ l.map (fun s => { s with cols := s.cols.map (·.map cl) })⟩ () := by
  intro l
  induction l with
  | nil => intro acc _; simp [World.clone.go]
  | cons s l ih =>
    intro acc hl
    simp only [World.clone.go, cloneStorage_spec (hl s List.mem_cons_self)]
    rw [ih _ (fun s' hs' => hl s' (List.mem_cons_of_mem _ hs'))]
    simp

/-- `Clone for World` under `WInv`: never `ub`, never panics; every storage is replaced by its
clone. -/
theorem World.clone_spec {cfg : Cfg} {w : World α} (hw : WInv cfg w) (cl : α → α) :
    w.clone cl
      = .ok ⟨w.ids, w.archs.map (fun s => { s with cols := s.cols.map (·.map cl) })⟩ () := by
  simp [World.clone, clone_go (cfg := cfg) cl w w.archs [] hw.inv]

/-- The step theorem, `sat` form: every operation, from every world satisfying `WInv`, ends in
`ok` or `panic` (never `ub`) in a world related to the old one by `WRel`. -/
theorem stepOp_sat {cfg : Cfg} {w : World α} (hw : WInv cfg w) (hc : CfgOk cfg) (op : Op α)
    (hop : OpsOk cfg [op]) (hs : op.Scoped w.sch) : (stepOp cfg w op).sat (WRel cfg w) := by
  cases op with
  | create a row g =>
    have hg : GrowOk cfg g := hop.1
    obtain ⟨s, hs1, hs2⟩ := World.sch_get hs
    have hi := hw.get hs1
    simp only [stepOp, World.create]
    by_cases hlt : s.len < cfg.maxCap
    · obtain ⟨e, s', h1, h2, _, _, _, _, _, _, _, h10, _⟩ :=
        push_ok cfg g s row hi hc (fun h => hg _ h) hlt
      rw [liftArch_ok hs1 h1]
      exact WRel.setArch hw hs1 h2
        (SReach.of_step hi (.push s s' g row e (fun h => hg _ h) h1))
        (by rw [h10, length_zipWith_push, hs2]; simp)
    · have hfull : s.len = cfg.maxCap := by have := hi.len_le_maxCap; omega
      rw [liftArch_panic_same hs1 (push_overflow cfg g s row hi hfull).2]
      exact .refl hw
  | createWithin a row =>
    obtain ⟨s, hs1, hs2⟩ := World.sch_get hs
    have hi := hw.get hs1
    simp only [stepOp, World.createWithin]
    by_cases hlt : s.len < s.capacity
    · obtain ⟨e, s', h1, h2, _, _, _, _, _, h8, _⟩ := pushWithin_ok cfg s row hi hlt
      rw [liftArch_ok hs1 h1]
      exact WRel.setArch hw hs1 h2 (SReach.of_step hi (.pushWithin s s' row e h1))
        (by rw [h8, length_zipWith_push, hs2]; simp)
    · rw [liftArch_ok_same hs1 ((pushWithin_spec cfg s row hi).2 (by omega))]
      exact .refl hw
  | destroy u =>
    have hu : u.Scoped w.archs.length := by simpa [Op.Scoped] using hs
    simp only [stepOp, World.destroy]
    cases hr : u.route cfg w.ids with
    | absent => exact .refl hw
    | panic m => exact .refl hw
    | arch a k =>
      have hlt := (hw.route_lt hu hr).1
      obtain ⟨s, hs1⟩ : ∃ s, w.archs[a]? = some s := ⟨_, List.getElem?_eq_getElem hlt⟩
      have hi := hw.get hs1
      simp only [lookup_arch]
      rcases storageDestroy_post hi u.h.kind.isDirect k with ⟨r, s', g, gi, gr, _, gn, _⟩ | ⟨m, g⟩
      · rw [liftArch_ok hs1 g]; exact WRel.setArch hw hs1 gi gr gn
      · rw [liftArch_panic_same hs1 g]; exact .refl hw
  | write u c x =>
    have hu : u.Scoped w.archs.length := by simpa [Op.Scoped] using hs
    rcases fetch_safe hw u hu u.h.kind.isDirect with ⟨r, hr⟩ | ⟨m, hm⟩
    · cases r with
      | none => simp only [stepOp, hr]; exact .refl hw
      | some t =>
        obtain ⟨d, e, row⟩ := t
        obtain ⟨_, a, k, s, h2, h3, _⟩ := fetch_ok hw hr
        rw [h2] at hr
        simp only [stepOp, h2, hr, h3]
        exact WRel.setArch hw h3 (writeCell_inv (hw.get h3))
          (SReach.of_step (hw.get h3) (.write s d c x)) (ColsOnly.writeCell s d c x).ncols
    · simp only [stepOp, hm]; exact .refl hw
  | iter q σ f st =>
    have h := iterQuery_sat (cfg := cfg) f q st w hw (by simpa [Op.Scoped] using hs)
    simp only [stepOp]
    cases hq : iterQuery cfg f q st w with
    | ok st' w' => rw [hq] at h; exact h
    | panic m st' w' => rw [hq] at h; exact h
    | ub m => rw [hq] at h; exact h.elim
  | iterDestroy q σ f st =>
    have h := iterDestroyQuery_sat (cfg := cfg) f q st w hw (by simpa [Op.Scoped] using hs)
    simp only [stepOp]
    cases hq : iterDestroyQuery cfg f q st w with
    | ok st' w' => rw [hq] at h; exact h
    | panic m st' w' => rw [hq] at h; exact h
    | ub m => rw [hq] at h; exact h.elim
  | find q σ f h st =>
    have h := findQuery_sat (cfg := cfg) hw q f h st hs
    simp only [stepOp]
    cases hq : findQuery cfg q f _ st w with
    | ok r st' w' => rw [hq] at h; exact h
    | panic m st' w' => rw [hq] at h; exact h
    | ub m => rw [hq] at h; exact h.elim
  | clearEvents oa =>
    cases oa with
    | none =>
      simp only [stepOp, World.clearEvents]
      exact WRel.map hw clearEvents
        (fun s hi => ⟨clearEvents_inv hi, SReach.of_step hi (.clear s), rfl⟩)
    | some a =>
      simp only [stepOp]
      cases hs1 : w.archs[a]? with
      | none => exact .refl hw
      | some s =>
        exact WRel.setArch hw hs1 (clearEvents_inv (hw.get hs1))
          (SReach.of_step (hw.get hs1) (.clear s)) rfl
  | cloneSwitch cl =>
    simp only [stepOp, World.clone_spec hw cl]
    exact WRel.map hw _
      (fun s hi => ⟨cloneStorage_inv hi, SReach.of_step hi (.clone s cl), by simp⟩)

/-- The requested conclusion, spelled out (plus the preserved column-count schema). -/
def WPost (cfg : Cfg) (w w' : World α) : Prop :=
  WInv cfg w' ∧ w'.ids = w.ids ∧ w'.archs.length = w.archs.length
    ∧ (∀ (a : Nat) (s s' : Storage α),
        w.archs[a]? = some s → w'.archs[a]? = some s' → SReach cfg s s')
    ∧ w'.sch = w.sch

theorem WRel.post {cfg : Cfg} {w w' : World α} (h : WRel cfg w w') : WPost cfg w w' :=
  ⟨h.winv, h.ids, h.len, h.reach, h.ncols_map⟩

theorem Res.sat_mono {P Q : World α → Prop} {o : Res α} (h : o.sat P)
    (hpq : ∀ w, P w → Q w) : o.sat Q := by
  cases o <;> simp only [Res.sat] at h ⊢ <;> first | exact hpq _ h | exact h

theorem FOut.sat_mono {ρ : Type} {P Q : World α → Prop} {o : FOut σ α ρ} (h : o.sat P)
    (hpq : ∀ w, P w → Q w) : o.sat Q := by
  cases o <;> simp only [FOut.sat] at h ⊢ <;> first | exact hpq _ h | exact h

/-! ### Headline statements of part C -/

/-- `ecs_iter!` over one archetype with an ARBITRARY closure: never `ub` (`LoopOut.sat` is
`False` on `ub`); every outcome (`done`/`stop`/`panic`) carries a state satisfying `Inv`,
reached by atomic steps, in which only component values differ. -/
theorem iterLoop_spec {cfg : Cfg} {s : Storage α} (hs : Inv cfg s) (idA : Nat) (ps : List Param)
    (f : Closure σ α Step) (version : Nat) (idxs : List Nat) (st : σ) :
    (iterLoop idA ps f version idxs st s).sat (fun s' =>
      Inv cfg s' ∧ SReach cfg s s'
      ∧ (s'.ents = s.ents ∧ s'.len = s.len ∧ s'.capacity = s.capacity ∧ s'.version = s.version
          ∧ s'.slots = s.slots)
      ∧ s'.cols.length = s.cols.length ∧ s'.freeHead = s.freeHead
      ∧ s'.created = s.created ∧ s'.destroyed = s.destroyed) :=
  LoopOut.sat_mono (iterLoop_sat idA ps f version idxs st s hs)
    (fun _ ⟨h1, h2, h3⟩ => ⟨h1, h2, ⟨h3.ents, h3.len, h3.capacity, h3.version, h3.slots⟩,
      h3.ncols, h3.freeHead, h3.created, h3.destroyed⟩)

theorem iterLoop_not_ub {cfg : Cfg} {s : Storage α} (hs : Inv cfg s) (idA : Nat) (ps : List Param)
    (f : Closure σ α Step) (version : Nat) (idxs : List Nat) (st : σ) :
    ∀ m, iterLoop idA ps f version idxs st s ≠ .ub m :=
  LoopOut.sat_not_ub (iterLoop_sat (cfg := cfg) idA ps f version idxs st s hs)

/-- `ecs_iter_destroy!` over one archetype with an ARBITRARY closure: never `ub`; every
outcome carries a state satisfying `Inv` and reached by atomic steps (writes and
`SStep.destroyEnt`); capacity and column count are kept, `len` does not grow. -/
theorem destroyLoop_spec {cfg : Cfg} {s : Storage α} (hs : Inv cfg s) (idA : Nat)
    (ps : List Param) (f : Closure σ α Step4) (idxs : List Nat) (st : σ) :
    (destroyLoop cfg idA ps f idxs st s).sat (fun s' =>
      Inv cfg s' ∧ SReach cfg s s' ∧ s'.capacity = s.capacity
      ∧ s'.cols.length = s.cols.length ∧ s'.len ≤ s.len) :=
  destroyLoop_sat idA ps f idxs st s hs

theorem destroyLoop_not_ub {cfg : Cfg} {s : Storage α} (hs : Inv cfg s) (idA : Nat)
    (ps : List Param) (f : Closure σ α Step4) (idxs : List Nat) (st : σ) :
    ∀ m, destroyLoop cfg idA ps f idxs st s ≠ .ub m :=
  LoopOut.sat_not_ub (destroyLoop_sat (cfg := cfg) idA ps f idxs st s hs)

theorem iterQuery_spec {cfg : Cfg} {w : World α} (hw : WInv cfg w) (f : Closure σ α Step)
    (q : Query) (st : σ) (hq : QArchsIn w.archs.length q) :
    (iterQuery cfg f q st w).sat (WPost cfg w) :=
  QOut.sat_mono (iterQuery_sat f q st w hw hq) (fun _ h => h.post)

theorem iterDestroyQuery_spec {cfg : Cfg} {w : World α} (hw : WInv cfg w)
    (f : Closure σ α Step4) (q : Query) (st : σ) (hq : QArchsIn w.archs.length q) :
    (iterDestroyQuery cfg f q st w).sat (WPost cfg w) :=
  QOut.sat_mono (iterDestroyQuery_sat f q st w hw hq) (fun _ h => h.post)

theorem findQuery_spec {ρ : Type} {cfg : Cfg} {w : World α} (hw : WInv cfg w) (q : Query)
    (f : Closure σ α ρ) (h : Handle) (st : σ) (hq : QColsIn w.sch q) :
    (findQuery cfg q f h st w).sat (WPost cfg w) :=
  FOut.sat_mono (findQuery_sat hw q f h st hq) (fun _ h => h.post)

theorem QOut.sat_not_ub {P : World α → Prop} {o : QOut σ α} (h : o.sat P) : ∀ m, o ≠ .ub m := by
  intro m hm; rw [hm] at h; exact h

theorem FOut.sat_not_ub {ρ : Type} {P : World α → Prop} {o : FOut σ α ρ} (h : o.sat P) :
    ∀ m, o ≠ .ub m := by
  intro m hm; rw [hm] at h; exact h

theorem Res.sat_not_ub {P : World α → Prop} {o : Res α} (h : o.sat P) : ∀ m, o ≠ .ub m := by
  intro m hm; rw [hm] at h; exact h

/-! ### The step theorem -/

/-- The step theorem.  Requested form, with the additional hypothesis `op.Scoped w.sch`
(see the counterexamples below) and the additional conclusion `w'.sch = w.sch`.
Original request:
`stepOp_spec (hw : WInv cfg w) (hc : CfgOk cfg) (hop : OpsOk cfg [op])` : `.ok w'` or
`.panic m w'`, never `.ub`, with `WInv cfg w'`, ids and number of archetypes unchanged and
every storage `SReach`-related. -/
theorem stepOp_spec {cfg : Cfg} {w : World α} {op : Op α} (hw : WInv cfg w) (hc : CfgOk cfg)
    (hop : OpsOk cfg [op]) (hs : op.Scoped w.sch) :
    ∃ w', (stepOp cfg w op = .ok w' ∨ ∃ m, stepOp cfg w op = .panic m w')
      ∧ WInv cfg w' ∧ w'.ids = w.ids ∧ w'.archs.length = w.archs.length
      ∧ (∀ (a : Nat) (s s' : Storage α),
          w.archs[a]? = some s → w'.archs[a]? = some s' → SReach cfg s s')
      ∧ w'.sch = w.sch := by
  have h := stepOp_sat hw hc op hop hs
  cases hstep : stepOp cfg w op with
  | ok w' => rw [hstep] at h; exact ⟨w', .inl rfl, WRel.post h⟩
  | panic m w' => rw [hstep] at h; exact ⟨w', .inr ⟨m, rfl⟩, WRel.post h⟩
  | ub m => rw [hstep] at h; exact h.elim

theorem stepOp_not_ub {cfg : Cfg} {w : World α} {op : Op α} (hw : WInv cfg w) (hc : CfgOk cfg)
    (hop : OpsOk cfg [op]) (hs : op.Scoped w.sch) : ∀ m, stepOp cfg w op ≠ .ub m :=
  Res.sat_not_ub (stepOp_sat hw hc op hop hs)

/-! ### The run theorem -/

theorem run_append (cfg : Cfg) (w : World α) (ops₁ ops₂ : List (Op α)) :
    run cfg w (ops₁ ++ ops₂) = (run cfg w ops₁).bind (fun w' => run cfg w' ops₂) := by
  induction ops₁ generalizing w with
  | nil => simp [run]
  | cons op ops ih =>
    simp only [List.cons_append, run]
    cases stepOp cfg w op with
    | ok w' => exact ih w'
    | panic m w' => exact ih w'
    | ub m => rfl

theorem run_rel {cfg : Cfg} (hc : CfgOk cfg) :
    ∀ (ops : List (Op α)) (w : World α), WInv cfg w → OpsOk cfg ops → OpsScoped w.sch ops →
      ∃ w', run cfg w ops = some w' ∧ WRel cfg w w' := by
  intro ops
  induction ops with
  | nil => intro w hw _ _; exact ⟨w, rfl, .refl hw⟩
  | cons op ops ih =>
    intro w hw ho hs
    have ho' := (OpsOk_cons op ops).mp ho
    have h := stepOp_sat hw hc op ho'.1 (hs op List.mem_cons_self)
    have hs' : ∀ w1, WRel cfg w w1 → OpsScoped w1.sch ops := by
      intro w1 hr op' hop'
      have : w1.sch = w.sch := hr.ncols_map
      rw [this]; exact hs op' (List.mem_cons_of_mem _ hop')
    cases hstep : stepOp cfg w op with
    | ok w1 =>
      rw [hstep] at h
      obtain ⟨w', h1, h2⟩ := ih w1 h.winv ho'.2 (hs' w1 h)
      exact ⟨w', by simp only [run, hstep]; exact h1, h.trans h2⟩
    | panic m w1 =>
      rw [hstep] at h
      obtain ⟨w', h1, h2⟩ := ih w1 h.winv ho'.2 (hs' w1 h)
      exact ⟨w', by simp only [run, hstep]; exact h1, h.trans h2⟩
    | ub m => rw [hstep] at h; exact h.elim

/-- The run theorem: ALL finite histories of any length — arbitrary (forged, stale, foreign)
handle words, arbitrary closures, arbitrary admissible growth — continuing after every panic,
never reach `ub`, keep `WInv`, and change every storage only by atomic steps.
Requested form plus the hypothesis `OpsScoped w.sch ops` and the conclusion `w'.sch = w.sch`.
Original request: `run_inv (hw : WInv cfg w) (hc : CfgOk cfg) (ho : OpsOk cfg ops)`. -/
theorem run_inv {cfg : Cfg} {w : World α} {ops : List (Op α)} (hw : WInv cfg w) (hc : CfgOk cfg)
    (ho : OpsOk cfg ops) (hs : OpsScoped w.sch ops) :
    ∃ w', run cfg w ops = some w' ∧ WInv cfg w' ∧ w'.ids = w.ids
      ∧ w'.archs.length = w.archs.length
      ∧ (∀ (a : Nat) (s s' : Storage α),
          w.archs[a]? = some s → w'.archs[a]? = some s' → SReach cfg s s')
      ∧ w'.sch = w.sch := by
  obtain ⟨w', h1, h2⟩ := run_rel hc ops w hw ho hs
  exact ⟨w', h1, h2.post⟩

/-- "Every prefix": a well-formed history splits at any point into two runs, the
intermediate world satisfies `WInv` and both halves are `WRel` transitions. -/
theorem run_prefix {cfg : Cfg} {w : World α} {ops₁ ops₂ : List (Op α)} (hw : WInv cfg w)
    (hc : CfgOk cfg) (ho : OpsOk cfg (ops₁ ++ ops₂)) (hs : OpsScoped w.sch (ops₁ ++ ops₂)) :
    ∃ w₁ w₂, run cfg w ops₁ = some w₁ ∧ run cfg w₁ ops₂ = some w₂
      ∧ run cfg w (ops₁ ++ ops₂) = some w₂ ∧ WRel cfg w w₁ ∧ WRel cfg w₁ w₂ := by
  obtain ⟨ho1, ho2⟩ := OpsOk_append.mp ho
  obtain ⟨hs1, hs2⟩ := OpsScoped_append.mp hs
  obtain ⟨w₁, h1, r1⟩ := run_rel hc ops₁ w hw ho1 hs1
  have hs2' : OpsScoped w₁.sch ops₂ := by
    have : w₁.sch = w.sch := r1.ncols_map
    rw [this]; exact hs2
  obtain ⟨w₂, h2, r2⟩ := run_rel hc ops₂ w₁ r1.winv ho2 hs2'
  exact ⟨w₁, w₂, h1, h2, by rw [run_append, h1]; exact h2, r1, r2⟩

/-- Capacities never shrink along a history (C-capacity), as a corollary. -/
theorem run_capacity_mono {cfg : Cfg} {w w' : World α} {ops : List (Op α)} (hw : WInv cfg w)
    (hc : CfgOk cfg) (ho : OpsOk cfg ops) (hs : OpsScoped w.sch ops)
    (hr : run cfg w ops = some w') (a : Nat) (s s' : Storage α)
    (g1 : w.archs[a]? = some s) (g2 : w'.archs[a]? = some s') : s.capacity ≤ s'.capacity := by
  obtain ⟨w'', h1, h2⟩ := run_rel hc ops w hw ho hs
  rw [hr] at h1; cases h1
  exact h2.capacity_mono hw a s s' g1 g2

/-! ## E. Non-vacuity -/
namespace WorldEx
open StorageEx

example : wEx.sch = [2, 1] := rfl

/-- A history on `wEx`: three creates (the third grows the storage 2 → 6), a refused
`create_within_capacity`, an `ecs_iter!` writing through `&mut`, an `ecs_find!` writing another
column, a removal by a dynamic key, the same (now stale) key again, a forged key with an
unknown archetype id (panics; the history goes on), a write through a typed direct key, an
`ecs_iter_destroy!` whose closure removes one entity and then panics, a clone and
`clear_events`. -/
def histEx : List (Op Nat) :=
  [ .create 0 [10, 20] (codeGrowth cfgEx),
    .create 0 [11, 21] (codeGrowth cfgEx),
    .create 0 [12, 22] (codeGrowth cfgEx),
    .createWithin 1 [5],
    .iter [⟨0, [.comp 0 true, .ent]⟩] Nat
      (fun st _ => .ret (st + 1) [some (90 + st), none] .cont) 0,
    .find [⟨0, [.comp 1 true, .dirAny]⟩] Nat (fun st _ => .ret st [some 77, none] ())
      ⟨.any, 0, mkKey 1 3 1⟩ 0,
    .destroy ⟨true, false, ⟨.any, 0, mkKey 0 3 1⟩, none⟩,
    .destroy ⟨true, false, ⟨.any, 0, mkKey 0 3 1⟩, none⟩,
    .destroy ⟨true, false, ⟨.any, 0, mkKey 5 9 1⟩, none⟩,
    .write ⟨false, true, ⟨.dir, 0, mkKey 0 3 2⟩, none⟩ 1 55,
    .iterDestroy [⟨0, [.comp 0 false]⟩, ⟨1, []⟩] Nat
      (fun st args => match args with
        | [.comp _ 91] => .ret st [] .contDestroy
        | _ => .panic st []) 0,
    .cloneSwitch (· + 1),
    .clearEvents none ]

theorem histEx_ok : OpsOk cfgEx histEx := by
  have hg : GrowOk cfgEx (codeGrowth cfgEx) := fun c hc => codeGrowth_ok cfgEx c hc
  exact ⟨hg, hg, hg, trivial⟩

theorem histEx_scoped : OpsScoped wEx.sch histEx := by
  intro op hop
  simp only [histEx, List.mem_cons, List.not_mem_nil, or_false] at hop
  rcases hop with rfl | rfl | rfl | rfl | rfl | rfl | rfl | rfl | rfl | rfl | rfl | rfl | rfl
  · exact (rfl : wEx.sch[0]? = some 2)
  · exact (rfl : wEx.sch[0]? = some 2)
  · exact (rfl : wEx.sch[0]? = some 2)
  · exact (rfl : wEx.sch[1]? = some 1)
  · intro qa hqa
    simp only [List.mem_cons, List.not_mem_nil, or_false] at hqa
    subst hqa; exact (by decide : 0 < 2)
  · intro qa hqa
    simp only [List.mem_cons, List.not_mem_nil, or_false] at hqa
    subst hqa
    refine ⟨2, rfl, ?_⟩
    intro c m hc
    simp only [List.mem_cons, Param.comp.injEq, reduceCtorEq, List.not_mem_nil, or_false] at hc
    omega
  · exact KeyUse.scoped_of_untyped rfl
  · exact KeyUse.scoped_of_untyped rfl
  · exact KeyUse.scoped_of_untyped rfl
  · exact fun _ => (by decide : 0 < 2)
  · intro qa hqa
    simp only [List.mem_cons, List.not_mem_nil, or_false] at hqa
    rcases hqa with rfl | rfl
    · exact (by decide : 0 < 2)
    · exact (by decide : 1 < 2)
  · trivial
  · trivial

-- the history evaluates: (len, capacity, version, handles, columns) per archetype
example : (run cfgEx wEx histEx).map
      (fun w => w.archs.map (fun s => (s.len, s.capacity, s.version, s.ents, s.cols)))
    = some [(1, 6, 3, [⟨2, 1⟩], [[93], [56]]), (0, 0, 1, [], [[]])] := rfl

-- … and `run_inv` applies to it
example : ∃ w', run cfgEx wEx histEx = some w' ∧ WInv cfgEx w' ∧ w'.sch = [2, 1] := by
  obtain ⟨w', h1, h2, _, _, _, h6⟩ :=
    run_inv (wEx_winv cfgEx (by decide) cfgEx_ok) cfgEx_ok histEx_ok histEx_scoped
  exact ⟨w', h1, h2, h6⟩

/-! ### Counterexamples to the statements without `Scoped`

All from `wEx`, which satisfies `WInv`; `OpsOk` holds in each case.  They are artifacts of
referring to archetypes / columns by number, not defects of the implementation. -/

-- 1. (typed key use naming a non-existent archetype): see `WorldEx.uBad` in `WorldOps.lean`.
example : run cfgRel wEx [.destroy uBad] = none := rfl
example : run cfgRel wEx [.write uBad 0 5] = none := rfl

/-- 2. `create` / `ecs_iter!` on an archetype that does not exist. -/
example : run cfgEx wEx [.create 5 [] (codeGrowth cfgEx)] = none := rfl
example : run cfgEx wEx [.createWithin 5 []] = none := rfl
example : run cfgEx wEx [.iter [⟨7, []⟩] Unit (fun st _ => .ret st [] .cont) ()] = none := rfl
example : run cfgEx wEx [.iterDestroy [⟨7, []⟩] Unit (fun st _ => .ret st [] .cont) ()] = none :=
  rfl

/-- 3. `ecs_find!` binding a column that does not exist (`ecs_iter!` only panics there). -/
example : run cfgEx wEx
    [.create 0 [10, 20] (codeGrowth cfgEx),
     .find [⟨0, [.comp 5 false]⟩] Unit (fun st _ => .ret st [] ()) ⟨.any, 0, mkKey 0 3 1⟩ ()]
    = none := rfl

/-- 4. `Inv` does not fix the number of columns: a `create` with a row that is too short
truncates `cols` (`zipWith`), `Inv` still holds, and a later `ecs_find!` on a declared column
is `ub`.  Hence rows must have one value per column and the schema is part of the invariant. -/
example : run cfgEx wEx
    [.create 0 [] (codeGrowth cfgEx),
     .find [⟨0, [.comp 0 false]⟩] Unit (fun st _ => .ret st [] ()) ⟨.any, 0, mkKey 0 3 1⟩ ()]
    = none := rfl

end WorldEx
end Gecs

section
open Gecs
#print axioms applyWrites_reach
#print axioms iterLoop_spec
#print axioms destroyLoop_spec
#print axioms iterQuery_spec
#print axioms iterDestroyQuery_spec
#print axioms findQuery_spec
#print axioms stepOp_sat
#print axioms stepOp_spec
#print axioms run_append
#print axioms OpsOk_append
#print axioms run_rel
#print axioms run_inv
#print axioms run_prefix
#print axioms run_capacity_mono
#print axioms WorldEx.wEx_winv
end
