/-
`Slot::populate_free_list`, from its extracted skeleton and statements (with `Slot::new_free`'s
extracted literal), is the model's `populate` — for every `start < n ≤ MAX_DATA_CAPACITY` and
every previous contents, and for `n = 0`.
-/
import Gecs.Gen.Steps

set_option linter.unusedSimpArgs false

namespace Gecs

theorem newFree_gen (next : SIdx) : newFreeSlot Gen.slotNewFreeFields next = some ⟨next, VERSION_START⟩ := by
  simp [newFreeSlot, Gen.slotNewFreeFields]

theorem linkCells_spec : ∀ (k i : Nat) (arr : List Slot), i + k ≤ arr.length →
    ∃ arr', linkCells Gen.slotNewFreeFields i k arr = some arr' ∧ arr'.length = arr.length
      ∧ ∀ j, arr'[j]? = if i ≤ j ∧ j < i + k then some ⟨.free (j + 1), VERSION_START⟩ else arr[j]? := by
  intro k
  induction k with
  | zero =>
    intro i arr _
    refine ⟨arr, rfl, rfl, ?_⟩
    intro j
    have : ¬ (i ≤ j ∧ j < i + 0) := by omega
    rw [if_neg this]
  | succ k ih =>
    intro i arr h
    have hi : i < arr.length := by omega
    obtain ⟨arr', h1, h2, h3⟩ := ih (i + 1) (arr.set i ⟨.free (i + 1), VERSION_START⟩) (by simp; omega)
    refine ⟨arr', ?_, ?_, ?_⟩
    · simp [linkCells, newFree_gen, hi, h1]
    · simpa using h2
    · intro j
      rw [h3 j]
      by_cases hj : j = i
      · subst hj
        have c1 : ¬ (j + 1 ≤ j ∧ j < j + 1 + k) := by omega
        have c2 : (j ≤ j ∧ j < j + (k + 1)) := by omega
        simp [c1, c2, hi]
      · by_cases c : (i + 1 ≤ j ∧ j < i + 1 + k)
        · have c2 : (i ≤ j ∧ j < i + (k + 1)) := by omega
          simp [c, c2]
        · have c2 : ¬ (i ≤ j ∧ j < i + (k + 1)) := by omega
          have hne : i ≠ j := fun h => hj h.symm
          simp [c, c2, List.getElem?_set_ne hne]

theorem gen_populate (maxCap start n : Nat) (old : List Slot) (hs : start < n) (hn : n ≤ maxCap) :
    execPopulate Gen.populateT Gen.slotNewFreeFields maxCap start n old = some (populate start n old) := by
  have hpos : n > 0 := by omega
  have hlen : ((List.range n).map (fun i => old.getD i (⟨.freeEnd, 0⟩ : Slot))).length = n := by simp
  obtain ⟨arr', h1, h2, h3⟩ := linkCells_spec (n - 1 - start) start
    ((List.range n).map (fun i => old.getD i (⟨.freeEnd, 0⟩ : Slot))) (by rw [hlen]; omega)
  have hn0 : ¬ n = 0 := by omega
  have hguard : ¬ (start < n - 1 ∧ ¬ n - 1 < maxCap) := by omega
  have hlt : n - 1 < arr'.length := by rw [h2, hlen]; omega
  unfold execPopulate populate
  simp only [Gen.populateT, if_true, hpos, runFL, hlen, hn0, if_false, hguard, h1, newFree_gen, hlt]
  congr 1
  apply congrArg (fun l => (l, SIdx.free start))
  apply List.ext_getElem?
  intro j
  by_cases hj : j < n
  · by_cases hjl : j = n - 1
    · subst hjl
      have c1 : ¬ n - 1 < start := by omega
      have c2 : ¬ n - 1 + 1 < n := by omega
      simp [hlt, hj, c1, c2]
    · have hne : n - 1 ≠ j := fun h => hjl h.symm
      rw [List.getElem?_set_ne hne, h3 j]
      by_cases hjs : j < start
      · have c : ¬ (start ≤ j ∧ j < start + (n - 1 - start)) := by omega
        simp [c, hj, hjs]
      · have c : (start ≤ j ∧ j < start + (n - 1 - start)) := by omega
        have c2 : j + 1 < n := by omega
        simp [c, hj, hjs, c2]
  · have h4 : arr'.length ≤ j := by rw [h2, hlen]; omega
    simp [List.getElem?_eq_none, h4, hj]

theorem gen_populate_empty (maxCap start : Nat) (old : List Slot) :
    execPopulate Gen.populateT Gen.slotNewFreeFields maxCap start 0 old = some (populate start 0 old) := by
  simp [execPopulate, populate, Gen.populateT]

end Gecs
