/-
`StorageN::force_create` preserves the representation invariant.
-/
import Gecs.Lemmas.Inv
import Gecs.Lemmas.Grow

namespace Gecs
variable {α : Type}

/-- Every element of a `zipWith` is an image of a pair of members. -/
theorem mem_zipWith_exists {β γ δ : Type} (f : β → γ → δ) :
    ∀ (l₁ : List β) (l₂ : List γ) (z : δ), z ∈ List.zipWith f l₁ l₂ →
      ∃ a b, a ∈ l₁ ∧ b ∈ l₂ ∧ z = f a b
  | [], _, z, h => by simp at h
  | _ :: _, [], z, h => by simp at h
  | a :: l₁, b :: l₂, z, h => by
    simp only [List.zipWith_cons_cons, List.mem_cons] at h
    rcases h with h | h
    · exact ⟨a, b, List.mem_cons_self, List.mem_cons_self, h⟩
    · obtain ⟨a', b', ha, hb, hz⟩ := mem_zipWith_exists f l₁ l₂ z h
      exact ⟨a', b', List.mem_cons_of_mem _ ha, List.mem_cons_of_mem _ hb, hz⟩

/-- Pushing one value onto each column: all surviving columns get exactly one more element
(`zipWith` truncates to the shorter list, so no hypothesis on `row.length` is needed). -/
theorem zipWith_push_length (cols : List (List α)) (row : List α) (n : Nat)
    (h : ∀ c ∈ cols, c.length = n) :
    ∀ c ∈ List.zipWith (fun c x => c ++ [x]) cols row, c.length = n + 1 := by
  intro c hc
  obtain ⟨a, b, ha, _, rfl⟩ := mem_zipWith_exists _ _ _ _ hc
  simp [h a ha]

theorem forceCreate_inv (cfg : Cfg) (s : Storage α) (row : List α) (h : Inv cfg s)
    (hlt : s.len < s.capacity) :
    ∃ e s', forceCreate cfg s row = .ok e s' ∧ Inv cfg s' ∧ s'.len = s.len + 1
      ∧ s'.capacity = s.capacity ∧ s'.version = s.version
      ∧ s'.ents = s.ents ++ [e]
      ∧ s'.cols = List.zipWith (fun c x => c ++ [x]) s.cols row
      ∧ (∃ sl, s.slots[e.slot]? = some sl ∧ sl.idx.isFree = true ∧ sl.ver = e.ver)
      ∧ s'.slots = s.slots.set e.slot ⟨.data s.len, e.ver⟩
      ∧ s'.created = (if cfg.events then s.created ++ [e] else s.created)
      ∧ s'.destroyed = s.destroyed := by
  obtain ⟨L, hc, hnd, hlen⟩ := h.chain
  generalize hfh : s.freeHead = fh at hc
  cases hc with
  | nil => simp at hlen; omega
  | @cons si sl L' hs hf hc' =>
    have hsi : si < s.slots.length := (List.getElem?_eq_some_iff.mp hs).1
    have hmax : s.len < cfg.maxCap := Nat.lt_of_lt_of_le hlt h.capMax
    refine ⟨⟨si, sl.ver⟩, { s with
        freeHead := sl.idx
        slots := s.slots.set si ⟨.data s.len, sl.ver⟩
        len := s.len + 1
        ents := s.ents ++ [⟨si, sl.ver⟩]
        cols := List.zipWith (fun c x => c ++ [x]) s.cols row
        created := if cfg.events then s.created ++ [⟨si, sl.ver⟩] else s.created },
      ?_, ?_, rfl, rfl, rfl, rfl, rfl, ⟨sl, hs, hf, rfl⟩, rfl, rfl, rfl⟩
    · simp [forceCreate, hfh, hs, hmax]
    · have hnd' := List.nodup_cons.mp hnd
      constructor
      · simp [h.slotsLen]
      · simp [h.entsLen]
      · exact zipWith_push_length s.cols row s.len h.colsLen
      · simp at hlen ⊢; omega
      · exact h.capMax
      · -- dense
        intro d e he
        simp only at he ⊢
        by_cases hd : d < s.ents.length
        · rw [List.getElem?_append_left hd] at he
          have hold := h.dense d e he
          have hne : si ≠ e.slot := by
            intro heq; subst heq; rw [hs] at hold; cases hold; simp [SIdx.isFree] at hf
          rw [List.getElem?_set_ne hne]; exact hold
        · have hd' : d = s.ents.length := by
            have := (List.getElem?_eq_some_iff.mp he).1
            simp at this; omega
          subst hd'
          simp at he; subst he
          simp [hsi, h.entsLen]
      · -- sparse
        intro i d v hi
        simp only at hi ⊢
        by_cases hisi : si = i
        · subst hisi
          simp [hsi] at hi
          obtain ⟨hd, hv⟩ := hi
          subst hd; subst hv
          simp [← h.entsLen]
        · rw [List.getElem?_set_ne hisi] at hi
          have hold := h.sparse i d v hi
          have hd : d < s.ents.length := (List.getElem?_eq_some_iff.mp hold).1
          rw [List.getElem?_append_left hd]; exact hold
      · -- chain
        refine ⟨L', hc'.set_not_mem si _ hnd'.1, hnd'.2, ?_⟩
        simp at hlen ⊢; omega
      · -- verPos
        intro i sl' hi
        simp only at hi
        by_cases hisi : si = i
        · subst hisi
          simp [hsi] at hi; subst hi
          exact h.verPos si sl hs
        · rw [List.getElem?_set_ne hisi] at hi
          exact h.verPos i sl' hi
      · exact h.archVer

/-- With a row of the right width no column is dropped. -/
theorem forceCreate_cols_length (cfg : Cfg) (s : Storage α) (row : List α) (e : Ent)
    (s' : Storage α) (hok : forceCreate cfg s row = .ok e s')
    (hr : row.length = s.cols.length) : s'.cols.length = s.cols.length := by
  unfold forceCreate at hok
  split at hok
  · split at hok
    · cases hok
    · split at hok
      · cases hok; simp [hr]
      · cases hok
  · cases hok

/-- `force_create` never panics. -/
theorem forceCreate_not_panic (cfg : Cfg) (s : Storage α) (row : List α) (m : String)
    (s' : Storage α) : forceCreate cfg s row ≠ .panic m s' := by
  unfold forceCreate
  split
  · split
    · simp
    · split <;> simp
  · simp

/-! Non-vacuity: a 3-slot storage with one hole (slot 1 free, slots 0 and 2 live). -/
namespace StorageEx

def holeEx : Storage Nat :=
  ⟨2, 2, 3, .free 1, [⟨.data 0, 1⟩, ⟨.freeEnd, 2⟩, ⟨.data 1, 1⟩], [⟨0, 1⟩, ⟨2, 1⟩],
    [[10, 12], [20, 22]], [], []⟩

theorem holeEx_inv : Inv cfgEx holeEx where
  slotsLen := rfl
  entsLen := rfl
  colsLen := by decide
  lenCap := by decide
  capMax := by decide
  dense := by
    intro d e he
    match d, he with
    | 0, he => cases he; rfl
    | 1, he => cases he; rfl
    | d + 2, he => simp [holeEx] at he
  sparse := by
    intro i d v hi
    match i, hi with
    | 0, hi => cases hi; rfl
    | 1, hi => cases hi
    | 2, hi => cases hi; rfl
    | i + 3, hi => simp [holeEx] at hi
  chain := ⟨[1], .cons (sl := ⟨.freeEnd, 2⟩) rfl rfl .nil, by decide, rfl⟩
  verPos := by
    intro i sl hi
    match i, hi with
    | 0, hi => cases hi; decide
    | 1, hi => cases hi; decide
    | 2, hi => cases hi; decide
    | i + 3, hi => simp [holeEx] at hi
  archVer := by decide

example : ∃ e s', forceCreate cfgEx holeEx [13, 23] = .ok e s' ∧ Inv cfgEx s' ∧ e = ⟨1, 2⟩ := by
  obtain ⟨e, s', h1, h2, _⟩ := forceCreate_inv cfgEx holeEx [13, 23] holeEx_inv (by decide)
  refine ⟨e, s', h1, h2, ?_⟩
  have : forceCreate cfgEx holeEx [13, 23] = .ok ⟨1, 2⟩ _ := rfl
  rw [this] at h1; cases h1; rfl

-- a row that is too short: the invariant still holds (the surplus column is dropped)
example : ∃ e s', forceCreate cfgEx holeEx [13] = .ok e s' ∧ Inv cfgEx s' :=
  let ⟨e, s', h1, h2, _⟩ := forceCreate_inv cfgEx holeEx [13] holeEx_inv (by decide)
  ⟨e, s', h1, h2⟩

end StorageEx
end Gecs

section
open Gecs
#print axioms forceCreate_inv
#print axioms forceCreate_cols_length
#print axioms forceCreate_not_panic
end
