/-
C15: the ids assigned by `DWorld.new` follow the enum-discriminant rule and are unique.

Structure of the file
* reference rule `discriminants`, `noOverflow`, the `#[cfg]` filters `enabledComps`/`enabledArchs`;
* `advanceId_eq`: one id step in terms of `nextId`/`stepOk`;
* `assignIds`: the id logic shared by `buildComps` and `buildArchs`, run on the list of
  `(explicit id, name)` pairs of the *enabled* items; everything about ids is proved once for it;
* bridges `buildComps`/`buildArchs` ↔ `assignIds`;
* headline theorems `buildComps_rule`, `buildArchs_rule`, `ids_rule`, `ids_nodup`, `ids_le_255`,
  `ids_ok_iff`, `ids_error_duplicate`, `ids_error_exceeds`, `ids_error_missingCfg`.
-/
import Gecs.Model.Macro

namespace Gecs.Mac

/-! ### Reference rule -/

/-- enum-discriminant rule: explicit value, otherwise previous + 1, otherwise 0 -/
def discriminants : List (Option Nat) → Option Nat → List Nat
  | [], _ => []
  | some i :: rest, _ => i :: discriminants rest (some i)
  | none :: rest, none => 0 :: discriminants rest (some 0)
  | none :: rest, some l => (l + 1) :: discriminants rest (some (l + 1))

/-- no implicit discriminant is the successor of a value `≥ 255` (i.e. would not fit `u8`) -/
def noOverflow : List (Option Nat) → Option Nat → Bool
  | [], _ => true
  | some i :: rest, _ => noOverflow rest (some i)
  | none :: rest, none => noOverflow rest (some 0)
  | none :: rest, some l => decide (l + 1 ≤ 255) && noOverflow rest (some (l + 1))

def enabledComps (l : CfgLookup) (cs : List PComp) : List PComp :=
  cs.filter (fun c => evaluateCfgs l c.cfgs == some true)

def enabledArchs (l : CfgLookup) (as : List PArch) : List PArch :=
  as.filter (fun a => evaluateCfgs l a.cfgs == some true)

/-- the id the next item receives -/
def nextId : Option Nat → Option Nat → Nat
  | some i, _ => i
  | none, none => 0
  | none, some l => l + 1

/-- the next item's id fits (only an implicit successor can fail) -/
def stepOk : Option Nat → Option Nat → Bool
  | none, some l => decide (l + 1 ≤ 255)
  | _, _ => true

theorem discriminants_cons (e : Option Nat) (rest : List (Option Nat)) (last : Option Nat) :
    discriminants (e :: rest) last = nextId e last :: discriminants rest (some (nextId e last)) := by
  cases e <;> cases last <;> simp [discriminants, nextId]

theorem noOverflow_cons (e : Option Nat) (rest : List (Option Nat)) (last : Option Nat) :
    noOverflow (e :: rest) last = (stepOk e last && noOverflow rest (some (nextId e last))) := by
  cases e <;> cases last <;> simp [noOverflow, nextId, stepOk]

@[simp] theorem discriminants_nil (last : Option Nat) : discriminants [] last = [] := by
  simp [discriminants]

@[simp] theorem noOverflow_nil (last : Option Nat) : noOverflow [] last = true := by
  simp [noOverflow]

@[simp] theorem discriminants_length (xs : List (Option Nat)) (last : Option Nat) :
    (discriminants xs last).length = xs.length := by
  induction xs generalizing last with
  | nil => simp
  | cons e rest ih => simp [discriminants_cons, ih]

/-- the rule is prefix-compatible -/
theorem discriminants_take (xs : List (Option Nat)) (last : Option Nat) (k : Nat) :
    discriminants (xs.take k) last = (discriminants xs last).take k := by
  induction xs generalizing last k with
  | nil => simp
  | cons e rest ih =>
    cases k with
    | zero => simp
    | succ k => simp [discriminants_cons, ih]

theorem noOverflow_take (xs : List (Option Nat)) (last : Option Nat) (k : Nat)
    (h : noOverflow xs last = true) : noOverflow (xs.take k) last = true := by
  induction xs generalizing last k with
  | nil => simp
  | cons e rest ih =>
    cases k with
    | zero => simp
    | succ k =>
      rw [noOverflow_cons, Bool.and_eq_true] at h
      simp [noOverflow_cons, h.1, ih _ _ h.2]

/-- without overflow and with `u8` explicit ids every discriminant fits `u8` -/
theorem discriminants_le_255 (xs : List (Option Nat)) (last : Option Nat)
    (hx : ∀ n, some n ∈ xs → n ≤ 255) (hl : ∀ n, last = some n → n ≤ 255)
    (h : noOverflow xs last = true) : ∀ n ∈ discriminants xs last, n ≤ 255 := by
  induction xs generalizing last with
  | nil => simp
  | cons e rest ih =>
    rw [noOverflow_cons, Bool.and_eq_true] at h
    have hn : nextId e last ≤ 255 := by
      cases e with
      | some i => exact hx i (by simp)
      | none =>
        cases last with
        | none => simp [nextId]
        | some l => simpa [stepOk, nextId] using h.1
    intro n hn'
    rw [discriminants_cons] at hn'
    cases hn' with
    | head => exact hn
    | tail _ hm =>
      exact ih (some (nextId e last)) (fun n hn => hx n (List.mem_cons_of_mem _ hn))
        (by intro n hn; cases hn; exact hn) h.2 n hm

/-! ### One id step -/

theorem find?_key_none {ids : List (Nat × String)} {n : Nat} :
    ids.find? (fun kv => kv.1 == n) = none ↔ n ∉ ids.map (·.1) := by
  rw [List.find?_eq_none]
  constructor
  · intro h hn
    obtain ⟨kv, hkv, rfl⟩ := List.mem_map.mp hn
    exact h kv hkv (by simp)
  · intro h kv hkv hk
    exact h (List.mem_map.mpr ⟨kv, hkv, by simpa using hk⟩)

theorem find?_key_some {ids : List (Nat × String)} {n k : Nat} {prev : String}
    (h : ids.find? (fun kv => kv.1 == n) = some (k, prev)) : k = n ∧ (n, prev) ∈ ids := by
  have h1 := List.find?_some h
  have h2 := List.mem_of_find?_eq_some h
  have : k = n := by simpa using h1
  subst this
  exact ⟨rfl, h2⟩

theorem advanceId_exceeds {e : Option Nat} {nm : String} {ids : List (Nat × String)}
    {last : Option Nat} (h : stepOk e last = false) :
    advanceId e nm ids last = .error (.exceeds nm) := by
  cases e with
  | some i => simp [stepOk] at h
  | none =>
    cases last with
    | none => simp [stepOk] at h
    | some l =>
      have hl : ¬ l + 1 ≤ 255 := by simpa [stepOk] using h
      simp [advanceId, hl]

theorem advanceId_dup {e : Option Nat} {nm : String} {ids : List (Nat × String)}
    {last : Option Nat} {k : Nat} {prev : String} (h : stepOk e last = true)
    (hf : ids.find? (fun kv => kv.1 == nextId e last) = some (k, prev)) :
    advanceId e nm ids last = .error (.duplicate (nextId e last) nm prev) := by
  cases e with
  | some i => simp only [nextId] at hf; simp [advanceId, nextId, hf]
  | none =>
    cases last with
    | none => simp only [nextId] at hf; simp [advanceId, nextId, hf]
    | some l =>
      have hl : l + 1 ≤ 255 := by simpa [stepOk] using h
      simp only [nextId] at hf
      simp [advanceId, nextId, hl, hf]

theorem advanceId_ok {e : Option Nat} {nm : String} {ids : List (Nat × String)}
    {last : Option Nat} (h : stepOk e last = true)
    (hf : ids.find? (fun kv => kv.1 == nextId e last) = none) :
    advanceId e nm ids last = .ok (nextId e last, ids ++ [(nextId e last, nm)]) := by
  cases e with
  | some i => simp only [nextId] at hf; simp [advanceId, nextId, hf]
  | none =>
    cases last with
    | none => simp only [nextId] at hf; simp [advanceId, nextId, hf]
    | some l =>
      have hl : l + 1 ≤ 255 := by simpa [stepOk] using h
      simp only [nextId] at hf
      simp [advanceId, nextId, hl, hf]

theorem advanceId_cases (e : Option Nat) (nm : String) (ids : List (Nat × String))
    (last : Option Nat) :
    (stepOk e last = false ∧ advanceId e nm ids last = .error (.exceeds nm)) ∨
    (stepOk e last = true ∧ ∃ prev, (nextId e last, prev) ∈ ids ∧
      advanceId e nm ids last = .error (.duplicate (nextId e last) nm prev)) ∨
    (stepOk e last = true ∧ nextId e last ∉ ids.map (·.1) ∧
      advanceId e nm ids last = .ok (nextId e last, ids ++ [(nextId e last, nm)])) := by
  cases hs : stepOk e last with
  | false => exact .inl ⟨rfl, advanceId_exceeds hs⟩
  | true =>
    cases hf : ids.find? (fun kv => kv.1 == nextId e last) with
    | none => exact .inr (.inr ⟨rfl, find?_key_none.mp hf, advanceId_ok hs hf⟩)
    | some kv =>
      obtain ⟨k, prev⟩ := kv
      exact .inr (.inl ⟨rfl, prev, (find?_key_some hf).2, advanceId_dup hs hf⟩)

/-! ### The id logic shared by `buildComps` and `buildArchs` -/

/-- `advanceId` folded over a list of `(explicit id, name)` pairs. -/
def assignIds : List (Option Nat × String) → List (Nat × String) → Option Nat →
    Except IdErr (List Nat)
  | [], _, _ => .ok []
  | (e, nm) :: rest, ids, last =>
    match advanceId e nm ids last with
    | .error err => .error err
    | .ok (n, ids') =>
      match assignIds rest ids' (some n) with
      | .error err => .error err
      | .ok r => .ok (n :: r)

theorem assignIds_cons_error {e : Option Nat} {nm : String} {rest : List (Option Nat × String)}
    {ids : List (Nat × String)} {last : Option Nat} {err : IdErr}
    (h : advanceId e nm ids last = .error err) :
    assignIds ((e, nm) :: rest) ids last = .error err := by
  simp [assignIds, h]

theorem assignIds_cons_ok {e : Option Nat} {nm : String} {rest : List (Option Nat × String)}
    {ids ids' : List (Nat × String)} {last : Option Nat} {n : Nat}
    (h : advanceId e nm ids last = .ok (n, ids')) :
    assignIds ((e, nm) :: rest) ids last = (assignIds rest ids' (some n)).map (n :: ·) := by
  simp only [assignIds, h]
  cases assignIds rest ids' (some n) <;> rfl

theorem except_map_eq_ok {ε α β : Type} {f : α → β} {x : Except ε α} {y : β} :
    x.map f = .ok y ↔ ∃ a, x = .ok a ∧ y = f a := by
  cases x <;> simp [Except.map, eq_comm]

theorem except_map_eq_error {ε α β : Type} {f : α → β} {x : Except ε α} {err : ε} :
    x.map f = .error err ↔ x = .error err := by
  cases x <;> simp [Except.map]

/-- Success of `assignIds`, and its result, in terms of the reference rule. -/
theorem assignIds_ok_iff (xs : List (Option Nat × String)) (ids : List (Nat × String))
    (last : Option Nat) (ns : List Nat) :
    assignIds xs ids last = .ok ns ↔
      ns = discriminants (xs.map (·.1)) last ∧ noOverflow (xs.map (·.1)) last = true ∧
      (discriminants (xs.map (·.1)) last).Nodup ∧
      ∀ n ∈ discriminants (xs.map (·.1)) last, n ∉ ids.map (·.1) := by
  induction xs generalizing ids last ns with
  | nil => simp [assignIds, eq_comm]
  | cons x rest ih =>
    obtain ⟨e, nm⟩ := x
    simp only [List.map_cons, discriminants_cons, noOverflow_cons]
    rcases advanceId_cases e nm ids last with ⟨hs, ha⟩ | ⟨hs, prev, hp, ha⟩ | ⟨hs, hn, ha⟩
    · simp [assignIds_cons_error ha, hs]
    · rw [assignIds_cons_error ha]
      have : nextId e last ∈ ids.map (·.1) := List.mem_map.mpr ⟨_, hp, rfl⟩
      constructor
      · intro h; cases h
      · intro h; exact absurd this (h.2.2.2 _ (by simp))
    · rw [assignIds_cons_ok ha, except_map_eq_ok]
      simp only [ih, hs, Bool.true_and, List.nodup_cons, List.mem_cons, forall_eq_or_imp]
      constructor
      · rintro ⟨a, ⟨rfl, h1, h2, h3⟩, rfl⟩
        refine ⟨rfl, h1, ⟨?_, h2⟩, hn, ?_⟩
        · intro hm; exact h3 _ hm (by simp)
        · intro m hm hk; exact h3 m hm (by simp [hk])
      · rintro ⟨rfl, h1, ⟨h2, h3⟩, _, h4⟩
        refine ⟨_, ⟨rfl, h1, h3, ?_⟩, rfl⟩
        intro m hm hk
        simp only [List.map_append, List.map_cons, List.map_nil, List.mem_append,
          List.mem_singleton] at hk
        rcases hk with hk | rfl
        · exact h4 m hm hk
        · exact h2 hm

theorem stepOk_false {e last : Option Nat} (h : stepOk e last = false) :
    e = none ∧ ∃ l, last = some l ∧ 255 < l + 1 ∧ nextId e last = l + 1 := by
  cases e with
  | some i => simp [stepOk] at h
  | none =>
    cases last with
    | none => simp [stepOk] at h
    | some l =>
      have hl : ¬ l + 1 ≤ 255 := by simpa [stepOk] using h
      exact ⟨rfl, l, rfl, by omega, rfl⟩

theorem nextId_le_255 {e last : Option Nat} (hs : stepOk e last = true)
    (he : ∀ k, e = some k → k ≤ 255) : nextId e last ≤ 255 := by
  cases e with
  | some i => exact he i rfl
  | none =>
    cases last with
    | none => simp [nextId]
    | some l => simpa [stepOk, nextId] using hs

/-- A `duplicate` error of `assignIds`: it is raised at the first position `i` at which anything
goes wrong, carries the name of item `i` and the id `n` that the rule gives to item `i`, and
names an earlier holder of `n` (an entry of the initial table `ids` or an item `j < i`). -/
theorem assignIds_duplicate {xs : List (Option Nat × String)} {ids : List (Nat × String)}
    {last : Option Nat} {n : Nat} {later earlier : String}
    (h : assignIds xs ids last = .error (.duplicate n later earlier)) :
    ∃ i, (xs[i]?).map (·.2) = some later ∧
      (discriminants (xs.map (·.1)) last)[i]? = some n ∧
      assignIds (xs.take i) ids last = .ok ((discriminants (xs.map (·.1)) last).take i) ∧
      noOverflow ((xs.map (·.1)).take (i + 1)) last = true ∧
      ((n, earlier) ∈ ids ∨
        ∃ j, j < i ∧ (xs[j]?).map (·.2) = some earlier ∧
          (discriminants (xs.map (·.1)) last)[j]? = some n) := by
  induction xs generalizing ids last with
  | nil => simp [assignIds] at h
  | cons x rest ih =>
    obtain ⟨e, nm⟩ := x
    rcases advanceId_cases e nm ids last with ⟨hs, ha⟩ | ⟨hs, prev, hp, ha⟩ | ⟨hs, hn, ha⟩
    · rw [assignIds_cons_error ha] at h; cases h
    · rw [assignIds_cons_error ha] at h
      cases h
      refine ⟨0, by simp, by simp [discriminants_cons], by simp [assignIds], ?_, .inl hp⟩
      simp [noOverflow_cons, hs]
    · rw [assignIds_cons_ok ha, except_map_eq_error] at h
      obtain ⟨i, h1, h2, h3, h4, h5⟩ := ih h
      refine ⟨i + 1, by simpa using h1, by simpa [discriminants_cons] using h2, ?_, ?_, ?_⟩
      · simp only [List.take_succ_cons, List.map_cons, discriminants_cons]
        rw [assignIds_cons_ok ha, h3]; rfl
      · simpa [noOverflow_cons, hs] using h4
      · rcases h5 with h5 | ⟨j, hj, h6, h7⟩
        · simp only [List.mem_append, List.mem_singleton, Prod.mk.injEq] at h5
          rcases h5 with h5 | ⟨rfl, rfl⟩
          · exact .inl h5
          · exact .inr ⟨0, by omega, by simp, by simp [discriminants_cons]⟩
        · exact .inr ⟨j + 1, by omega, by simpa using h6, by simpa [discriminants_cons] using h7⟩

/-- An `exceeds` error of `assignIds`: raised at the first position `i` at which anything goes
wrong; item `i` has no explicit id, is the named one, and the rule would give it `m > 255`
(`m = 256` when all explicit ids are `u8`). -/
theorem assignIds_exceeds {xs : List (Option Nat × String)} {ids : List (Nat × String)}
    {last : Option Nat} {item : String}
    (h : assignIds xs ids last = .error (.exceeds item)) :
    ∃ i, xs[i]? = some (none, item) ∧
      (∃ m, (discriminants (xs.map (·.1)) last)[i]? = some m ∧ 255 < m ∧
        ((∀ l, last = some l → l ≤ 255) → (∀ k, some k ∈ xs.map (·.1) → k ≤ 255) → m = 256)) ∧
      assignIds (xs.take i) ids last = .ok ((discriminants (xs.map (·.1)) last).take i) := by
  induction xs generalizing ids last with
  | nil => simp [assignIds] at h
  | cons x rest ih =>
    obtain ⟨e, nm⟩ := x
    rcases advanceId_cases e nm ids last with ⟨hs, ha⟩ | ⟨hs, prev, hp, ha⟩ | ⟨hs, hn, ha⟩
    · rw [assignIds_cons_error ha] at h
      cases h
      obtain ⟨rfl, l, rfl, hl, hnx⟩ := stepOk_false hs
      refine ⟨0, by simp, ⟨l + 1, by simp [discriminants_cons, hnx], hl, ?_⟩, by simp [assignIds]⟩
      intro h1 _
      have := h1 l rfl
      omega
    · rw [assignIds_cons_error ha] at h; cases h
    · rw [assignIds_cons_ok ha, except_map_eq_error] at h
      obtain ⟨i, h1, ⟨m, h2, h3, h4⟩, h5⟩ := ih h
      refine ⟨i + 1, by simpa using h1, ⟨m, by simpa [discriminants_cons] using h2, h3, ?_⟩, ?_⟩
      · intro hl hk
        apply h4
        · intro l hl'
          cases hl'
          exact nextId_le_255 hs (fun k hk' => hk k (by simp [hk']))
        · intro k hk'
          exact hk k (by simp only [List.map_cons, List.mem_cons]; exact .inr hk')
      · simp only [List.take_succ_cons, List.map_cons, discriminants_cons]
        rw [assignIds_cons_ok ha, h5]; rfl

/-! ### Bridges: `buildComps`/`buildArchs` run `assignIds` on the enabled items -/

/-- `(explicit id, name)` of components -/
def compItems (cs : List PComp) : List (Option Nat × String) := cs.map (fun c => (c.id, c.name))

/-- `(explicit id, name)` of archetypes -/
def archItems (as : List PArch) : List (Option Nat × String) := as.map (fun a => (a.id, a.name))

@[simp] theorem compItems_map_fst (cs : List PComp) : (compItems cs).map (·.1) = cs.map (·.id) := by
  simp [compItems]

@[simp] theorem compItems_map_snd (cs : List PComp) : (compItems cs).map (·.2) = cs.map (·.name) := by
  simp [compItems]

@[simp] theorem archItems_map_fst (as : List PArch) : (archItems as).map (·.1) = as.map (·.id) := by
  simp [archItems]

@[simp] theorem archItems_map_snd (as : List PArch) : (archItems as).map (·.2) = as.map (·.name) := by
  simp [archItems]

theorem enabledComps_cons_true {l : CfgLookup} {c : PComp} {cs : List PComp}
    (h : evaluateCfgs l c.cfgs = some true) : enabledComps l (c :: cs) = c :: enabledComps l cs := by
  simp [enabledComps, h]

theorem enabledComps_cons_ne {l : CfgLookup} {c : PComp} {cs : List PComp}
    (h : evaluateCfgs l c.cfgs ≠ some true) : enabledComps l (c :: cs) = enabledComps l cs := by
  simp [enabledComps, h]

theorem enabledArchs_cons_true {l : CfgLookup} {a : PArch} {as : List PArch}
    (h : evaluateCfgs l a.cfgs = some true) : enabledArchs l (a :: as) = a :: enabledArchs l as := by
  simp [enabledArchs, h]

theorem enabledArchs_cons_ne {l : CfgLookup} {a : PArch} {as : List PArch}
    (h : evaluateCfgs l a.cfgs ≠ some true) : enabledArchs l (a :: as) = enabledArchs l as := by
  simp [enabledArchs, h]

/-- three-way case split on the result of `evaluateCfgs` -/
theorem evaluateCfgs_cases (l : CfgLookup) (cfgs : List String) :
    evaluateCfgs l cfgs = none ∨ evaluateCfgs l cfgs = some false ∨ evaluateCfgs l cfgs = some true := by
  cases evaluateCfgs l cfgs with
  | none => exact .inl rfl
  | some b => cases b <;> simp

/-- pairing of the assigned ids with the names of the enabled components -/
def mkComps (ns : List Nat) (cs : List PComp) : List DComp :=
  List.zipWith (fun n c => ⟨n, c.name⟩) ns cs

/-- result of `buildComps` from the result of `assignIds` on the enabled components -/
def liftComps (r : Except IdErr (List Nat)) (cs : List PComp) : Except NewErr (List DComp) :=
  match r with
  | .error e => .error (.id e)
  | .ok ns => .ok (mkComps ns cs)

@[simp] theorem liftComps_error (e : IdErr) (cs : List PComp) :
    liftComps (.error e) cs = .error (.id e) := rfl

@[simp] theorem liftComps_ok (ns : List Nat) (cs : List PComp) :
    liftComps (.ok ns) cs = .ok (mkComps ns cs) := rfl

theorem buildComps_cons_none {l : CfgLookup} {c : PComp} {cs : List PComp}
    {ids : List (Nat × String)} {last : Option Nat} (h : evaluateCfgs l c.cfgs = none) :
    buildComps l (c :: cs) ids last = .error .missingCfg := by
  simp only [buildComps, h]

theorem buildComps_cons_false {l : CfgLookup} {c : PComp} {cs : List PComp}
    {ids : List (Nat × String)} {last : Option Nat} (h : evaluateCfgs l c.cfgs = some false) :
    buildComps l (c :: cs) ids last = buildComps l cs ids last := by
  simp only [buildComps, h]

theorem buildComps_cons_true_error {l : CfgLookup} {c : PComp} {cs : List PComp}
    {ids : List (Nat × String)} {last : Option Nat} {e : IdErr}
    (h : evaluateCfgs l c.cfgs = some true) (ha : advanceId c.id c.name ids last = .error e) :
    buildComps l (c :: cs) ids last = .error (.id e) := by
  simp only [buildComps, h, ha]

theorem buildComps_cons_true_ok {l : CfgLookup} {c : PComp} {cs : List PComp}
    {ids ids' : List (Nat × String)} {last : Option Nat} {n : Nat}
    (h : evaluateCfgs l c.cfgs = some true) (ha : advanceId c.id c.name ids last = .ok (n, ids')) :
    buildComps l (c :: cs) ids last =
      (buildComps l cs ids' (some n)).map (⟨n, c.name⟩ :: ·) := by
  simp only [buildComps, h, ha]
  cases buildComps l cs ids' (some n) <;> rfl

/-- Exact description of `buildComps` when every cfg list it meets can be evaluated. -/
theorem buildComps_eq (l : CfgLookup) (cs : List PComp) (ids : List (Nat × String))
    (last : Option Nat) (hev : ∀ c ∈ cs, evaluateCfgs l c.cfgs ≠ none) :
    buildComps l cs ids last =
      liftComps (assignIds (compItems (enabledComps l cs)) ids last) (enabledComps l cs) := by
  induction cs generalizing ids last with
  | nil => simp [buildComps, enabledComps, compItems, assignIds, mkComps]
  | cons c cs ih =>
    have ih' := fun ids last => ih ids last (fun c hc => hev c (List.mem_cons_of_mem _ hc))
    rcases evaluateCfgs_cases l c.cfgs with h | h | h
    · exact absurd h (hev c (by simp))
    · rw [enabledComps_cons_ne (by simp [h]), buildComps_cons_false h]
      exact ih' ids last
    · rw [enabledComps_cons_true h]
      simp only [compItems, List.map_cons]
      cases ha : advanceId c.id c.name ids last with
      | error e => simp [assignIds_cons_error ha, buildComps_cons_true_error h ha]
      | ok r =>
        obtain ⟨n, ids'⟩ := r
        rw [assignIds_cons_ok ha, buildComps_cons_true_ok h ha, ih' ids' (some n)]
        simp only [compItems]
        cases assignIds (List.map (fun c => (c.id, c.name)) (enabledComps l cs)) ids' (some n) <;> rfl

theorem buildComps_ok_evaluable {l : CfgLookup} {cs : List PComp} {ids : List (Nat × String)}
    {last : Option Nat} {ds : List DComp} (h : buildComps l cs ids last = .ok ds) :
    ∀ c ∈ cs, evaluateCfgs l c.cfgs ≠ none := by
  induction cs generalizing ids last ds with
  | nil => simp
  | cons c cs ih =>
    rcases evaluateCfgs_cases l c.cfgs with hc | hc | hc
    · rw [buildComps_cons_none hc] at h; cases h
    · rw [buildComps_cons_false hc] at h
      intro c' hc'
      rcases List.mem_cons.mp hc' with rfl | hc'
      · simp [hc]
      · exact ih h c' hc'
    · cases ha : advanceId c.id c.name ids last with
      | error e => rw [buildComps_cons_true_error hc ha] at h; cases h
      | ok r =>
        obtain ⟨n, ids'⟩ := r
        rw [buildComps_cons_true_ok hc ha, except_map_eq_ok] at h
        obtain ⟨rest, hrest, _⟩ := h
        intro c' hc'
        rcases List.mem_cons.mp hc' with rfl | hc'
        · simp [hc]
        · exact ih hrest c' hc'

theorem buildComps_error_id {l : CfgLookup} {cs : List PComp} {ids : List (Nat × String)}
    {last : Option Nat} {e : IdErr} (h : buildComps l cs ids last = .error (.id e)) :
    assignIds (compItems (enabledComps l cs)) ids last = .error e := by
  induction cs generalizing ids last with
  | nil => simp [buildComps] at h
  | cons c cs ih =>
    rcases evaluateCfgs_cases l c.cfgs with hc | hc | hc
    · rw [buildComps_cons_none hc] at h; cases h
    · rw [buildComps_cons_false hc] at h
      rw [enabledComps_cons_ne (by simp [hc])]
      exact ih h
    · rw [enabledComps_cons_true hc]
      simp only [compItems, List.map_cons]
      cases ha : advanceId c.id c.name ids last with
      | error e' =>
        rw [buildComps_cons_true_error hc ha] at h
        cases h
        exact assignIds_cons_error ha
      | ok r =>
        obtain ⟨n, ids'⟩ := r
        rw [buildComps_cons_true_ok hc ha, except_map_eq_error] at h
        rw [assignIds_cons_ok ha, except_map_eq_error]
        exact ih h

/-- `missingCfg` is raised at a component whose cfg list cannot be evaluated. -/
theorem buildComps_error_missing {l : CfgLookup} {cs : List PComp} {ids : List (Nat × String)}
    {last : Option Nat} (h : buildComps l cs ids last = .error .missingCfg) :
    ∃ c ∈ cs, evaluateCfgs l c.cfgs = none := by
  induction cs generalizing ids last with
  | nil => simp [buildComps] at h
  | cons c cs ih =>
    rcases evaluateCfgs_cases l c.cfgs with hc | hc | hc
    · exact ⟨c, by simp, hc⟩
    · rw [buildComps_cons_false hc] at h
      obtain ⟨c', hc', h'⟩ := ih h
      exact ⟨c', List.mem_cons_of_mem _ hc', h'⟩
    · cases ha : advanceId c.id c.name ids last with
      | error e' => rw [buildComps_cons_true_error hc ha] at h; cases h
      | ok r =>
        obtain ⟨n, ids'⟩ := r
        rw [buildComps_cons_true_ok hc ha, except_map_eq_error] at h
        obtain ⟨c', hc', h'⟩ := ih h
        exact ⟨c', List.mem_cons_of_mem _ hc', h'⟩

/-! #### archetypes -/

theorem buildArchs_cons_none {l : CfgLookup} {a : PArch} {as : List PArch}
    {ids : List (Nat × String)} {last : Option Nat} (h : evaluateCfgs l a.cfgs = none) :
    buildArchs l (a :: as) ids last = .error .missingCfg := by
  simp only [buildArchs, h]

theorem buildArchs_cons_false {l : CfgLookup} {a : PArch} {as : List PArch}
    {ids : List (Nat × String)} {last : Option Nat} (h : evaluateCfgs l a.cfgs = some false) :
    buildArchs l (a :: as) ids last = buildArchs l as ids last := by
  simp only [buildArchs, h]

theorem buildArchs_cons_true_error {l : CfgLookup} {a : PArch} {as : List PArch}
    {ids : List (Nat × String)} {last : Option Nat} {e : IdErr}
    (h : evaluateCfgs l a.cfgs = some true) (ha : advanceId a.id a.name ids last = .error e) :
    buildArchs l (a :: as) ids last = .error (.id e) := by
  simp only [buildArchs, h, ha]

theorem buildArchs_cons_true_comps_error {l : CfgLookup} {a : PArch} {as : List PArch}
    {ids ids' : List (Nat × String)} {last : Option Nat} {n : Nat} {e : NewErr}
    (h : evaluateCfgs l a.cfgs = some true) (ha : advanceId a.id a.name ids last = .ok (n, ids'))
    (hc : buildComps l a.comps [] none = .error e) :
    buildArchs l (a :: as) ids last = .error e := by
  simp only [buildArchs, h, ha, hc]

theorem buildArchs_cons_true_ok {l : CfgLookup} {a : PArch} {as : List PArch}
    {ids ids' : List (Nat × String)} {last : Option Nat} {n : Nat} {comps : List DComp}
    (h : evaluateCfgs l a.cfgs = some true) (ha : advanceId a.id a.name ids last = .ok (n, ids'))
    (hc : buildComps l a.comps [] none = .ok comps) :
    buildArchs l (a :: as) ids last =
      (buildArchs l as ids' (some n)).map (⟨n, a.name, comps⟩ :: ·) := by
  simp only [buildArchs, h, ha, hc]
  cases buildArchs l as ids' (some n) <;> rfl

/-- What a successful `buildArchs` returned. -/
theorem buildArchs_ok {l : CfgLookup} {as : List PArch} {ids : List (Nat × String)}
    {last : Option Nat} {ds : List DArch} (h : buildArchs l as ids last = .ok ds) :
    (∀ a ∈ as, evaluateCfgs l a.cfgs ≠ none) ∧
    assignIds (archItems (enabledArchs l as)) ids last = .ok (ds.map (·.id)) ∧
    ds.map (·.name) = (enabledArchs l as).map (·.name) ∧
    ds.map (fun d => (.ok d.comps : Except NewErr (List DComp))) =
      (enabledArchs l as).map (fun a => buildComps l a.comps [] none) := by
  induction as generalizing ids last ds with
  | nil =>
    simp only [buildArchs, Except.ok.injEq] at h
    subst h
    simp [enabledArchs, archItems, assignIds]
  | cons a as ih =>
    rcases evaluateCfgs_cases l a.cfgs with hc | hc | hc
    · rw [buildArchs_cons_none hc] at h; cases h
    · rw [buildArchs_cons_false hc] at h
      rw [enabledArchs_cons_ne (by simp [hc])]
      obtain ⟨h1, h2⟩ := ih h
      refine ⟨?_, h2⟩
      intro a' ha'
      rcases List.mem_cons.mp ha' with rfl | ha'
      · simp [hc]
      · exact h1 a' ha'
    · rw [enabledArchs_cons_true hc]
      cases ha : advanceId a.id a.name ids last with
      | error e => rw [buildArchs_cons_true_error hc ha] at h; cases h
      | ok r =>
        obtain ⟨n, ids'⟩ := r
        cases hb : buildComps l a.comps [] none with
        | error e => rw [buildArchs_cons_true_comps_error hc ha hb] at h; cases h
        | ok comps =>
          rw [buildArchs_cons_true_ok hc ha hb, except_map_eq_ok] at h
          obtain ⟨rest, hrest, rfl⟩ := h
          obtain ⟨h1, h2, h3, h4⟩ := ih hrest
          refine ⟨?_, ?_, ?_, ?_⟩
          · intro a' ha'
            rcases List.mem_cons.mp ha' with rfl | ha'
            · simp [hc]
            · exact h1 a' ha'
          · simp only [archItems, List.map_cons]
            rw [assignIds_cons_ok ha]
            simp only [archItems] at h2
            rw [h2]; rfl
          · simp [h3]
          · simp [h4, hb]

/-- `buildArchs` succeeds as soon as the conditions that `buildArchs_ok` lists hold. -/
theorem buildArchs_ok_of {l : CfgLookup} {as : List PArch} {ids : List (Nat × String)}
    {last : Option Nat} (hev : ∀ a ∈ as, evaluateCfgs l a.cfgs ≠ none)
    (hids : ∃ ns, assignIds (archItems (enabledArchs l as)) ids last = .ok ns)
    (hcomps : ∀ a ∈ enabledArchs l as, ∃ cs, buildComps l a.comps [] none = .ok cs) :
    ∃ ds, buildArchs l as ids last = .ok ds := by
  induction as generalizing ids last with
  | nil => exact ⟨[], by simp [buildArchs]⟩
  | cons a as ih =>
    have hev' : ∀ a ∈ as, evaluateCfgs l a.cfgs ≠ none :=
      fun a' ha' => hev a' (List.mem_cons_of_mem _ ha')
    rcases evaluateCfgs_cases l a.cfgs with hc | hc | hc
    · exact absurd hc (hev a (by simp))
    · rw [buildArchs_cons_false hc]
      rw [enabledArchs_cons_ne (by simp [hc])] at hids hcomps
      exact ih hev' hids hcomps
    · rw [enabledArchs_cons_true hc] at hids hcomps
      obtain ⟨ns, hns⟩ := hids
      simp only [archItems, List.map_cons] at hns
      cases ha : advanceId a.id a.name ids last with
      | error e => rw [assignIds_cons_error ha] at hns; cases hns
      | ok r =>
        obtain ⟨n, ids'⟩ := r
        rw [assignIds_cons_ok ha, except_map_eq_ok] at hns
        obtain ⟨ns', hns', _⟩ := hns
        obtain ⟨comps, hb⟩ := hcomps a (by simp)
        obtain ⟨rest, hrest⟩ := ih (ids := ids') (last := some n) hev' ⟨ns', hns'⟩
          (fun a' ha' => hcomps a' (List.mem_cons_of_mem _ ha'))
        exact ⟨_, by rw [buildArchs_cons_true_ok hc ha hb, hrest]; rfl⟩

/-- An id error of `buildArchs` comes from the archetype ids or from the component ids of one
enabled archetype. -/
theorem buildArchs_error_id {l : CfgLookup} {as : List PArch} {ids : List (Nat × String)}
    {last : Option Nat} {e : IdErr} (h : buildArchs l as ids last = .error (.id e)) :
    assignIds (archItems (enabledArchs l as)) ids last = .error e ∨
    ∃ a ∈ enabledArchs l as, buildComps l a.comps [] none = .error (.id e) := by
  induction as generalizing ids last with
  | nil => simp [buildArchs] at h
  | cons a as ih =>
    rcases evaluateCfgs_cases l a.cfgs with hc | hc | hc
    · rw [buildArchs_cons_none hc] at h; cases h
    · rw [buildArchs_cons_false hc] at h
      rw [enabledArchs_cons_ne (by simp [hc])]
      exact ih h
    · rw [enabledArchs_cons_true hc]
      simp only [archItems, List.map_cons]
      cases ha : advanceId a.id a.name ids last with
      | error e' =>
        rw [buildArchs_cons_true_error hc ha] at h
        cases h
        exact .inl (assignIds_cons_error ha)
      | ok r =>
        obtain ⟨n, ids'⟩ := r
        cases hb : buildComps l a.comps [] none with
        | error e' =>
          rw [buildArchs_cons_true_comps_error hc ha hb] at h
          cases h
          exact .inr ⟨a, by simp, hb⟩
        | ok comps =>
          rw [buildArchs_cons_true_ok hc ha hb, except_map_eq_error] at h
          rcases ih h with h' | ⟨a', ha', h'⟩
          · left
            rw [assignIds_cons_ok ha, except_map_eq_error]
            exact h'
          · exact .inr ⟨a', List.mem_cons_of_mem _ ha', h'⟩

/-- `missingCfg` of `buildArchs` is raised at an archetype, or at a component of an enabled
archetype, whose cfg list cannot be evaluated. -/
theorem buildArchs_error_missing {l : CfgLookup} {as : List PArch} {ids : List (Nat × String)}
    {last : Option Nat} (h : buildArchs l as ids last = .error .missingCfg) :
    (∃ a ∈ as, evaluateCfgs l a.cfgs = none) ∨
    ∃ a ∈ enabledArchs l as, ∃ c ∈ a.comps, evaluateCfgs l c.cfgs = none := by
  induction as generalizing ids last with
  | nil => simp [buildArchs] at h
  | cons a as ih =>
    have lift : ((∃ a ∈ as, evaluateCfgs l a.cfgs = none) ∨
        ∃ a ∈ enabledArchs l as, ∃ c ∈ a.comps, evaluateCfgs l c.cfgs = none) →
        (∃ a' ∈ a :: as, evaluateCfgs l a'.cfgs = none) ∨
        ∃ a' ∈ enabledArchs l (a :: as), ∃ c ∈ a'.comps, evaluateCfgs l c.cfgs = none := by
      rintro (⟨a', ha', h'⟩ | ⟨a', ha', h'⟩)
      · exact .inl ⟨a', List.mem_cons_of_mem _ ha', h'⟩
      · refine .inr ⟨a', ?_, h'⟩
        simp only [enabledArchs, List.mem_filter, List.mem_cons] at ha' ⊢
        exact ⟨.inr ha'.1, ha'.2⟩
    rcases evaluateCfgs_cases l a.cfgs with hc | hc | hc
    · exact .inl ⟨a, by simp, hc⟩
    · rw [buildArchs_cons_false hc] at h
      exact lift (ih h)
    · cases ha : advanceId a.id a.name ids last with
      | error e' => rw [buildArchs_cons_true_error hc ha] at h; cases h
      | ok r =>
        obtain ⟨n, ids'⟩ := r
        cases hb : buildComps l a.comps [] none with
        | error e' =>
          rw [buildArchs_cons_true_comps_error hc ha hb] at h
          cases h
          obtain ⟨c, hc', h'⟩ := buildComps_error_missing hb
          refine .inr ⟨a, ?_, c, hc', h'⟩
          rw [enabledArchs_cons_true hc]; simp
        | ok comps =>
          rw [buildArchs_cons_true_ok hc ha hb, except_map_eq_error] at h
          exact lift (ih h)

/-! ### `evaluateCfgs` in terms of the lookup -/

theorem evaluateCfgs_cons (l : CfgLookup) (p : String) (ps : List String) :
    evaluateCfgs l (p :: ps) =
      (lookupCfg l p).bind (fun b => if b then evaluateCfgs l ps else some false) := by
  simp only [evaluateCfgs]
  cases lookupCfg l p with
  | none => rfl
  | some b => cases b <;> rfl

/-- If every predicate is present, `evaluateCfgs` is the conjunction of the looked-up values. -/
theorem evaluateCfgs_of_present {l : CfgLookup} {cfgs : List String} {ρ : String → Bool}
    (h : ∀ p ∈ cfgs, lookupCfg l p = some (ρ p)) : evaluateCfgs l cfgs = some (cfgs.all ρ) := by
  induction cfgs with
  | nil => simp [evaluateCfgs]
  | cons p ps ih =>
    rw [evaluateCfgs_cons, h p (by simp), ih (fun q hq => h q (List.mem_cons_of_mem _ hq))]
    simp only [List.all_cons]
    cases ρ p <;> simp

/-- `evaluateCfgs` panics (`none`) exactly when the first predicate that is not `true` in the
lookup is absent from it: present predicates after a `false` one are never looked up. -/
theorem evaluateCfgs_eq_none_iff {l : CfgLookup} {cfgs : List String} :
    evaluateCfgs l cfgs = none ↔
      ∃ i p, cfgs[i]? = some p ∧ lookupCfg l p = none ∧
        ∀ q ∈ cfgs.take i, lookupCfg l q = some true := by
  induction cfgs with
  | nil => simp [evaluateCfgs]
  | cons p ps ih =>
    rw [evaluateCfgs_cons]
    cases hp : lookupCfg l p with
    | none =>
      simp only [Option.bind_none, true_iff]
      exact ⟨0, p, by simp, hp, by simp⟩
    | some b =>
      cases b with
      | false =>
        simp only [Option.bind_some, Bool.false_eq_true, if_false, reduceCtorEq, false_iff]
        rintro ⟨i, q, h1, h2, h3⟩
        cases i with
        | zero => simp at h1; subst h1; simp [hp] at h2
        | succ i => have := h3 p (by simp); simp [hp] at this
      | true =>
        simp only [Option.bind_some, if_true, ih]
        constructor
        · rintro ⟨i, q, h1, h2, h3⟩
          refine ⟨i + 1, q, by simpa using h1, h2, ?_⟩
          intro r hr
          simp only [List.take_succ_cons, List.mem_cons] at hr
          rcases hr with rfl | hr
          · exact hp
          · exact h3 r hr
        · rintro ⟨i, q, h1, h2, h3⟩
          cases i with
          | zero => simp at h1; subst h1; simp [hp] at h2
          | succ i =>
            refine ⟨i, q, by simpa using h1, h2, ?_⟩
            intro r hr
            exact h3 r (by simp [hr])

theorem evaluateCfgs_ne_none_of_present {l : CfgLookup} {cfgs : List String}
    (h : ∀ p ∈ cfgs, lookupCfg l p ≠ none) : evaluateCfgs l cfgs ≠ none := by
  intro hn
  obtain ⟨i, p, h1, h2, _⟩ := evaluateCfgs_eq_none_iff.mp hn
  exact h p (List.mem_of_getElem? h1) h2

/-! ### Headline theorems -/

theorem mkComps_map_id {ns : List Nat} {cs : List PComp} (h : ns.length = cs.length) :
    (mkComps ns cs).map (·.id) = ns := by
  induction ns generalizing cs with
  | nil => simp [mkComps]
  | cons n ns ih =>
    cases cs with
    | nil => simp at h
    | cons c cs =>
      simp only [mkComps, List.zipWith_cons_cons, List.map_cons, List.cons.injEq, true_and]
      exact ih (by simpa using h)

theorem mkComps_map_name {ns : List Nat} {cs : List PComp} (h : ns.length = cs.length) :
    (mkComps ns cs).map (·.name) = cs.map (·.name) := by
  induction ns generalizing cs with
  | nil => cases cs with
    | nil => simp [mkComps]
    | cons c cs => simp at h
  | cons n ns ih =>
    cases cs with
    | nil => simp at h
    | cons c cs =>
      simp only [mkComps, List.zipWith_cons_cons, List.map_cons, List.cons.injEq, true_and]
      exact ih (by simpa using h)

/-- Everything a successful `buildComps` tells. -/
theorem buildComps_ok {l : CfgLookup} {cs : List PComp} {ids : List (Nat × String)}
    {last : Option Nat} {ds : List DComp} (h : buildComps l cs ids last = .ok ds) :
    (∀ c ∈ cs, evaluateCfgs l c.cfgs ≠ none) ∧
    assignIds (compItems (enabledComps l cs)) ids last = .ok (ds.map (·.id)) ∧
    ds.map (·.name) = (enabledComps l cs).map (·.name) := by
  have hev := buildComps_ok_evaluable h
  rw [buildComps_eq l cs ids last hev] at h
  cases ha : assignIds (compItems (enabledComps l cs)) ids last with
  | error e => rw [ha] at h; cases h
  | ok ns =>
    rw [ha, liftComps_ok, Except.ok.injEq] at h
    subst h
    have hlen : ns.length = (enabledComps l cs).length := by
      rw [((assignIds_ok_iff _ _ _ _).mp ha).1]; simp
    exact ⟨hev, by rw [mkComps_map_id hlen], mkComps_map_name hlen⟩

/-- **C15, components.** Names are those of the enabled components, ids follow the
discriminant rule over the enabled components only (disabled ones consume no id). -/
theorem buildComps_rule {l : CfgLookup} {cs : List PComp} {ids : List (Nat × String)}
    {last : Option Nat} {ds : List DComp} (h : buildComps l cs ids last = .ok ds) :
    ds.map (·.name) = (enabledComps l cs).map (·.name) ∧
    ds.map (·.id) = discriminants ((enabledComps l cs).map (·.id)) last := by
  obtain ⟨_, h2, h3⟩ := buildComps_ok h
  exact ⟨h3, by simpa using ((assignIds_ok_iff _ _ _ _).mp h2).1⟩

/-- **C15, archetypes.** Same for archetypes; the components of the `i`-th result are
`buildComps l a.comps [] none` of the `i`-th enabled parsed archetype (stated as equality of
the two lists of results). -/
theorem buildArchs_rule {l : CfgLookup} {as : List PArch} {ids : List (Nat × String)}
    {last : Option Nat} {ds : List DArch} (h : buildArchs l as ids last = .ok ds) :
    ds.map (·.name) = (enabledArchs l as).map (·.name) ∧
    ds.map (·.id) = discriminants ((enabledArchs l as).map (·.id)) last ∧
    ds.map (fun d => (.ok d.comps : Except NewErr (List DComp))) =
      (enabledArchs l as).map (fun a => buildComps l a.comps [] none) := by
  obtain ⟨_, h2, h3, h4⟩ := buildArchs_ok h
  exact ⟨h3, by simpa using ((assignIds_ok_iff _ _ _ _).mp h2).1, h4⟩

theorem DWorld_new_ok_iff {w : PWorld} {l : CfgLookup} {d : DWorld} :
    DWorld.new w l = .ok d ↔
      ∃ archs, buildArchs l w.archs [] none = .ok archs ∧ d = ⟨w.name, archs⟩ := by
  unfold DWorld.new
  cases buildArchs l w.archs [] none <;> simp [eq_comm]

theorem DWorld_new_error_iff {w : PWorld} {l : CfgLookup} {e : NewErr} :
    DWorld.new w l = .error e ↔ buildArchs l w.archs [] none = .error e := by
  unfold DWorld.new
  cases buildArchs l w.archs [] none <;> simp

/-- **C15.** The archetype ids of `DWorld.new` follow the discriminant rule over the enabled
archetypes, names are kept, and the components of each archetype are `buildComps` of the
corresponding enabled parsed archetype. -/
theorem ids_rule {w : PWorld} {l : CfgLookup} {d : DWorld} (h : DWorld.new w l = .ok d) :
    d.archs.map (·.id) = discriminants ((enabledArchs l w.archs).map (·.id)) none ∧
    d.archs.map (·.name) = (enabledArchs l w.archs).map (·.name) ∧
    d.name = w.name ∧
    d.archs.map (fun a => (.ok a.comps : Except NewErr (List DComp))) =
      (enabledArchs l w.archs).map (fun a => buildComps l a.comps [] none) := by
  obtain ⟨archs, ha, rfl⟩ := DWorld_new_ok_iff.mp h
  obtain ⟨h1, h2, h3⟩ := buildArchs_rule ha
  exact ⟨h2, h1, rfl, h3⟩

/-- **C15, per archetype, unfolded.** The `i`-th enabled parsed archetype becomes the `i`-th
archetype of the result; its component names/ids are those of its enabled components under the
discriminant rule restarted at `none`. -/
theorem ids_rule_comps {w : PWorld} {l : CfgLookup} {d : DWorld} (h : DWorld.new w l = .ok d)
    (i : Nat) (a : PArch) (ha : (enabledArchs l w.archs)[i]? = some a) :
    ∃ da, d.archs[i]? = some da ∧ da.name = a.name ∧
      buildComps l a.comps [] none = .ok da.comps ∧
      da.comps.map (·.name) = (enabledComps l a.comps).map (·.name) ∧
      da.comps.map (·.id) = discriminants ((enabledComps l a.comps).map (·.id)) none := by
  obtain ⟨_, h2, _, h4⟩ := ids_rule h
  have h2i := congrArg (fun xs => xs[i]?) h2
  have h4i := congrArg (fun xs => xs[i]?) h4
  simp only [List.getElem?_map, ha, Option.map_some] at h2i h4i
  cases hd : d.archs[i]? with
  | none => simp [hd] at h2i
  | some da =>
    simp only [hd, Option.map_some, Option.some.injEq] at h2i h4i
    obtain ⟨h5, h6⟩ := buildComps_rule h4i.symm
    exact ⟨da, rfl, h2i, h4i.symm, h5, h6⟩

/-- every archetype of the result comes from an enabled parsed archetype -/
theorem archs_origin {w : PWorld} {l : CfgLookup} {d : DWorld} (h : DWorld.new w l = .ok d) :
    ∀ a ∈ d.archs, ∃ pa ∈ enabledArchs l w.archs, buildComps l pa.comps [] none = .ok a.comps := by
  intro a ha
  have h4 := (ids_rule h).2.2.2
  have : (.ok a.comps : Except NewErr (List DComp)) ∈
      (enabledArchs l w.archs).map (fun a => buildComps l a.comps [] none) := by
    rw [← h4]; exact List.mem_map.mpr ⟨a, ha, rfl⟩
  obtain ⟨pa, hpa, hb⟩ := List.mem_map.mp this
  exact ⟨pa, hpa, hb⟩

/-- **C15.** Archetype ids are pairwise distinct; component ids are pairwise distinct within
each archetype. -/
theorem ids_nodup {w : PWorld} {l : CfgLookup} {d : DWorld} (h : DWorld.new w l = .ok d) :
    (d.archs.map (·.id)).Nodup ∧ ∀ a ∈ d.archs, (a.comps.map (·.id)).Nodup := by
  obtain ⟨archs, ha, rfl⟩ := DWorld_new_ok_iff.mp h
  constructor
  · obtain ⟨_, h2, _⟩ := buildArchs_ok ha
    obtain ⟨h3, _, h4, _⟩ := (assignIds_ok_iff _ _ _ _).mp h2
    simp only at h3 ⊢
    rw [h3]; exact h4
  · intro a hmem
    obtain ⟨pa, _, hb⟩ := archs_origin h a hmem
    obtain ⟨_, h2, _⟩ := buildComps_ok hb
    obtain ⟨h3, _, h4, _⟩ := (assignIds_ok_iff _ _ _ _).mp h2
    rw [h3]; exact h4

/-- **C15.** All ids fit `u8`, provided the explicit ones do (they are parsed as `u8`). -/
theorem ids_le_255 {w : PWorld} {l : CfgLookup} {d : DWorld}
    (harch : ∀ a ∈ w.archs, ∀ n, a.id = some n → n ≤ 255)
    (hcomp : ∀ a ∈ w.archs, ∀ c ∈ a.comps, ∀ n, c.id = some n → n ≤ 255)
    (h : DWorld.new w l = .ok d) :
    ∀ a ∈ d.archs, a.id ≤ 255 ∧ ∀ c ∈ a.comps, c.id ≤ 255 := by
  obtain ⟨archs, ha, rfl⟩ := DWorld_new_ok_iff.mp h
  intro a hmem
  constructor
  · obtain ⟨_, h2, _⟩ := buildArchs_ok ha
    obtain ⟨h3, h4, _, _⟩ := (assignIds_ok_iff _ _ _ _).mp h2
    have hle := discriminants_le_255 _ none (by
      intro n hn
      simp only [archItems_map_fst] at hn
      obtain ⟨pa, hpa, hid⟩ := List.mem_map.mp hn
      exact harch pa (List.mem_filter.mp hpa).1 n hid) (by simp) h4
    apply hle
    rw [← h3]
    exact List.mem_map.mpr ⟨a, hmem, rfl⟩
  · obtain ⟨pa, hpa, hb⟩ := archs_origin h a hmem
    obtain ⟨_, h2, _⟩ := buildComps_ok hb
    obtain ⟨h3, h4, _, _⟩ := (assignIds_ok_iff _ _ _ _).mp h2
    have hle := discriminants_le_255 _ none (by
      intro n hn
      simp only [compItems_map_fst] at hn
      obtain ⟨pc, hpc, hid⟩ := List.mem_map.mp hn
      exact hcomp pa (List.mem_filter.mp hpa).1 pc (List.mem_filter.mp hpc).1 n hid) (by simp) h4
    intro c hc
    apply hle
    rw [← h3]
    exact List.mem_map.mpr ⟨c, hc, rfl⟩

/-! ### Characterisation of success -/

theorem buildComps_ok_iff (l : CfgLookup) (cs : List PComp) (ids : List (Nat × String))
    (last : Option Nat) :
    (∃ ds, buildComps l cs ids last = .ok ds) ↔
      (∀ c ∈ cs, evaluateCfgs l c.cfgs ≠ none) ∧
      noOverflow ((enabledComps l cs).map (·.id)) last = true ∧
      (discriminants ((enabledComps l cs).map (·.id)) last).Nodup ∧
      ∀ n ∈ discriminants ((enabledComps l cs).map (·.id)) last, n ∉ ids.map (·.1) := by
  constructor
  · rintro ⟨ds, h⟩
    obtain ⟨h1, h2, _⟩ := buildComps_ok h
    obtain ⟨_, h4, h5, h6⟩ := (assignIds_ok_iff _ _ _ _).mp h2
    simp only [compItems_map_fst] at h4 h5 h6
    exact ⟨h1, h4, h5, h6⟩
  · rintro ⟨h1, h4, h5, h6⟩
    rw [buildComps_eq l cs ids last h1]
    have := (assignIds_ok_iff (compItems (enabledComps l cs)) ids last _).mpr
      ⟨rfl, by simpa using h4, by simpa using h5, by simpa using h6⟩
    rw [this]
    exact ⟨_, rfl⟩

/-- **C15, success.** `DWorld.new` succeeds iff
* every cfg list that is reached can be evaluated (`evaluateCfgs … ≠ none`, which
  `evaluateCfgs_eq_none_iff` spells out in terms of the lookup): those of all archetypes and
  those of the components of the *enabled* archetypes (components of disabled archetypes are
  never looked at);
* the archetype discriminants have no implicit successor of a value `≥ 255` and are distinct;
* the same two conditions hold for the component discriminants of every enabled archetype. -/
theorem ids_ok_iff (w : PWorld) (l : CfgLookup) :
    (∃ d, DWorld.new w l = .ok d) ↔
      (∀ a ∈ w.archs, evaluateCfgs l a.cfgs ≠ none) ∧
      (∀ a ∈ enabledArchs l w.archs, ∀ c ∈ a.comps, evaluateCfgs l c.cfgs ≠ none) ∧
      noOverflow ((enabledArchs l w.archs).map (·.id)) none = true ∧
      (discriminants ((enabledArchs l w.archs).map (·.id)) none).Nodup ∧
      ∀ a ∈ enabledArchs l w.archs,
        noOverflow ((enabledComps l a.comps).map (·.id)) none = true ∧
        (discriminants ((enabledComps l a.comps).map (·.id)) none).Nodup := by
  constructor
  · rintro ⟨d, h⟩
    obtain ⟨archs, ha, rfl⟩ := DWorld_new_ok_iff.mp h
    obtain ⟨h1, h2, _, h4⟩ := buildArchs_ok ha
    obtain ⟨_, h5, h6, _⟩ := (assignIds_ok_iff _ _ _ _).mp h2
    simp only [archItems_map_fst] at h5 h6
    have hcomps : ∀ a ∈ enabledArchs l w.archs, ∃ cs, buildComps l a.comps [] none = .ok cs := by
      intro a hmem
      have : buildComps l a.comps [] none ∈
          archs.map (fun d => (.ok d.comps : Except NewErr (List DComp))) := by
        rw [h4]; exact List.mem_map.mpr ⟨a, hmem, rfl⟩
      obtain ⟨da, _, hda⟩ := List.mem_map.mp this
      exact ⟨da.comps, hda.symm⟩
    refine ⟨h1, ?_, h5, h6, ?_⟩
    · intro a hmem
      exact ((buildComps_ok_iff l a.comps [] none).mp (hcomps a hmem)).1
    · intro a hmem
      obtain ⟨_, h7, h8, _⟩ := (buildComps_ok_iff l a.comps [] none).mp (hcomps a hmem)
      exact ⟨h7, h8⟩
  · rintro ⟨h1, h2, h3, h4, h5⟩
    obtain ⟨ds, hds⟩ := buildArchs_ok_of (l := l) (as := w.archs) (ids := []) (last := none) h1
      ⟨_, (assignIds_ok_iff (archItems (enabledArchs l w.archs)) [] none _).mpr
        ⟨rfl, by simpa using h3, by simpa using h4, by simp⟩⟩
      (fun a hmem => (buildComps_ok_iff l a.comps [] none).mpr
        ⟨h2 a hmem, (h5 a hmem).1, (h5 a hmem).2, by simp⟩)
    exact ⟨⟨w.name, ds⟩, DWorld_new_ok_iff.mpr ⟨ds, hds, rfl⟩⟩

/-- `ids_ok_iff` for lookups that contain every predicate occurring in the declaration. -/
theorem ids_ok_iff_of_present (w : PWorld) (l : CfgLookup)
    (hl : ∀ a ∈ w.archs, (∀ p ∈ a.cfgs, lookupCfg l p ≠ none) ∧
      ∀ c ∈ a.comps, ∀ p ∈ c.cfgs, lookupCfg l p ≠ none) :
    (∃ d, DWorld.new w l = .ok d) ↔
      noOverflow ((enabledArchs l w.archs).map (·.id)) none = true ∧
      (discriminants ((enabledArchs l w.archs).map (·.id)) none).Nodup ∧
      ∀ a ∈ enabledArchs l w.archs,
        noOverflow ((enabledComps l a.comps).map (·.id)) none = true ∧
        (discriminants ((enabledComps l a.comps).map (·.id)) none).Nodup := by
  rw [ids_ok_iff]
  constructor
  · rintro ⟨_, _, h⟩; exact h
  · intro h
    refine ⟨fun a ha => evaluateCfgs_ne_none_of_present (hl a ha).1, ?_, h⟩
    intro a ha c hc
    exact evaluateCfgs_ne_none_of_present ((hl a (List.mem_filter.mp ha).1).2 c hc)

/-! ### Which error -/

/-- In the item sequence `xs` (explicit id, name), position `i`, named `later`, is the first at
which id assignment fails, and it fails because the id `n` that the rule gives to item `i` is
already held by the earlier item `j < i` named `earlier`. -/
def DuplicateAt (xs : List (Option Nat × String)) (n : Nat) (later earlier : String) : Prop :=
  ∃ i j, j < i ∧ (xs[i]?).map (·.2) = some later ∧ (xs[j]?).map (·.2) = some earlier ∧
    (discriminants (xs.map (·.1)) none)[i]? = some n ∧
    (discriminants (xs.map (·.1)) none)[j]? = some n ∧
    ((discriminants (xs.map (·.1)) none).take i).Nodup ∧
    noOverflow ((xs.map (·.1)).take (i + 1)) none = true

/-- In the item sequence `xs`, position `i` is the first at which id assignment fails; item `i`
is named `item`, has no explicit id, and the rule would give it `m > 255`; `m = 256` when the
explicit ids are `u8`. -/
def ExceedsAt (xs : List (Option Nat × String)) (item : String) : Prop :=
  ∃ i m, xs[i]? = some (none, item) ∧
    (discriminants (xs.map (·.1)) none)[i]? = some m ∧ 255 < m ∧
    ((∀ k, some k ∈ xs.map (·.1) → k ≤ 255) → m = 256) ∧
    ((discriminants (xs.map (·.1)) none).take i).Nodup ∧
    noOverflow ((xs.map (·.1)).take i) none = true

theorem duplicateAt_of_assignIds {xs : List (Option Nat × String)} {n : Nat}
    {later earlier : String} (h : assignIds xs [] none = .error (.duplicate n later earlier)) :
    DuplicateAt xs n later earlier := by
  obtain ⟨i, h1, h2, h3, h4, h5⟩ := assignIds_duplicate h
  rcases h5 with h5 | ⟨j, hj, h6, h7⟩
  · cases h5
  · obtain ⟨_, _, h8, _⟩ := (assignIds_ok_iff _ _ _ _).mp h3
    rw [List.map_take, discriminants_take] at h8
    exact ⟨i, j, hj, h1, h6, h2, h7, h8, h4⟩

theorem exceedsAt_of_assignIds {xs : List (Option Nat × String)} {item : String}
    (h : assignIds xs [] none = .error (.exceeds item)) : ExceedsAt xs item := by
  obtain ⟨i, h1, ⟨m, h2, h3, h4⟩, h5⟩ := assignIds_exceeds h
  obtain ⟨_, h6, h7, _⟩ := (assignIds_ok_iff _ _ _ _).mp h5
  rw [List.map_take, discriminants_take] at h7
  rw [List.map_take] at h6
  exact ⟨i, m, h1, h2, h3, h4 (by simp), h7, h6⟩

/-- converse of `assignIds_duplicate` -/
theorem assignIds_duplicate_conv {xs : List (Option Nat × String)} {ids : List (Nat × String)}
    {last : Option Nat} {n : Nat} {later earlier : String} (i : Nat)
    (h1 : (xs[i]?).map (·.2) = some later)
    (h2 : (discriminants (xs.map (·.1)) last)[i]? = some n)
    (h3 : assignIds (xs.take i) ids last = .ok ((discriminants (xs.map (·.1)) last).take i))
    (h4 : noOverflow ((xs.map (·.1)).take (i + 1)) last = true)
    (h5 : ids.find? (fun kv => kv.1 == n) = some (n, earlier) ∨
      (n ∉ ids.map (·.1) ∧ ∃ j, j < i ∧ (xs[j]?).map (·.2) = some earlier ∧
        (discriminants (xs.map (·.1)) last)[j]? = some n)) :
    assignIds xs ids last = .error (.duplicate n later earlier) := by
  induction xs generalizing ids last i with
  | nil => simp at h1
  | cons x rest ih =>
    obtain ⟨e, nm⟩ := x
    simp only [List.map_cons, discriminants_cons] at h2 h3 h5
    cases i with
    | zero =>
      simp only [List.getElem?_cons_zero, Option.map_some, Option.some.injEq] at h1 h2
      subst h1 h2
      have hs : stepOk e last = true := by
        simp only [List.map_cons, List.take_succ_cons, List.take_zero, noOverflow_cons,
          Bool.and_eq_true] at h4
        exact h4.1
      rcases h5 with h5 | ⟨_, j, hj, _⟩
      · exact assignIds_cons_error (advanceId_dup hs h5)
      · omega
    | succ i =>
      simp only [List.getElem?_cons_succ] at h1 h2
      simp only [List.take_succ_cons] at h3
      simp only [List.map_cons, List.take_succ_cons, noOverflow_cons, Bool.and_eq_true] at h4
      rcases advanceId_cases e nm ids last with ⟨hs, ha⟩ | ⟨hs, prev, hp, ha⟩ | ⟨hs, hn, ha⟩
      · rw [assignIds_cons_error ha] at h3; cases h3
      · rw [assignIds_cons_error ha] at h3; cases h3
      · rw [assignIds_cons_ok ha, except_map_eq_ok] at h3
        obtain ⟨r, h3, hr⟩ := h3
        simp only [List.cons.injEq, true_and] at hr
        subst hr
        rw [assignIds_cons_ok ha, except_map_eq_error]
        refine ih i h1 h2 h3 h4.2 ?_
        rcases h5 with h5 | ⟨hnk, j, hj, h6, h7⟩
        · left; rw [List.find?_append, h5]; rfl
        · cases j with
          | zero =>
            simp only [List.getElem?_cons_zero, Option.map_some, Option.some.injEq] at h6 h7
            subst h6 h7
            left
            rw [List.find?_append, find?_key_none.mpr hnk]
            simp
          | succ j =>
            simp only [List.getElem?_cons_succ] at h6 h7
            right
            refine ⟨?_, j, by omega, h6, h7⟩
            have hmem : n ∈ (discriminants (rest.map (·.1)) (some (nextId e last))).take i := by
              apply List.mem_of_getElem? (i := j)
              rw [List.getElem?_take]
              simp [show j < i by omega, h7]
            exact ((assignIds_ok_iff _ _ _ _).mp h3).2.2.2 n (by
              rw [List.map_take, discriminants_take]; exact hmem)

/-- converse of `assignIds_exceeds` -/
theorem assignIds_exceeds_conv {xs : List (Option Nat × String)} {ids : List (Nat × String)}
    {last : Option Nat} {item : String} {m : Nat} (i : Nat)
    (h1 : xs[i]? = some (none, item))
    (h2 : (discriminants (xs.map (·.1)) last)[i]? = some m) (hm : 255 < m)
    (h3 : assignIds (xs.take i) ids last = .ok ((discriminants (xs.map (·.1)) last).take i)) :
    assignIds xs ids last = .error (.exceeds item) := by
  induction xs generalizing ids last i with
  | nil => simp at h1
  | cons x rest ih =>
    obtain ⟨e, nm⟩ := x
    simp only [List.map_cons, discriminants_cons] at h2 h3
    cases i with
    | zero =>
      simp only [List.getElem?_cons_zero, Option.some.injEq, Prod.mk.injEq] at h1 h2
      obtain ⟨rfl, rfl⟩ := h1
      subst h2
      apply assignIds_cons_error
      apply advanceId_exceeds
      cases last with
      | none => simp [nextId] at hm
      | some l =>
        simp only [nextId] at hm
        simp only [stepOk, decide_eq_false_iff_not]
        omega
    | succ i =>
      simp only [List.getElem?_cons_succ] at h1 h2
      simp only [List.take_succ_cons] at h3
      rcases advanceId_cases e nm ids last with ⟨hs, ha⟩ | ⟨hs, prev, hp, ha⟩ | ⟨hs, hn, ha⟩
      · rw [assignIds_cons_error ha] at h3; cases h3
      · rw [assignIds_cons_error ha] at h3; cases h3
      · rw [assignIds_cons_ok ha, except_map_eq_ok] at h3
        obtain ⟨r, h3, hr⟩ := h3
        simp only [List.cons.injEq, true_and] at hr
        subst hr
        rw [assignIds_cons_ok ha, except_map_eq_error]
        exact ih i h1 h2 h3

theorem assignIds_prefix_ok {xs : List (Option Nat × String)} {i : Nat}
    (hnd : ((discriminants (xs.map (·.1)) none).take i).Nodup)
    (hno : noOverflow ((xs.map (·.1)).take i) none = true) :
    assignIds (xs.take i) [] none = .ok ((discriminants (xs.map (·.1)) none).take i) := by
  rw [assignIds_ok_iff]
  simp only [List.map_take, discriminants_take]
  exact ⟨trivial, hno, hnd, by simp⟩

/-- `DuplicateAt` is exactly the condition under which the id logic reports this error. -/
theorem duplicateAt_iff {xs : List (Option Nat × String)} {n : Nat} {later earlier : String} :
    assignIds xs [] none = .error (.duplicate n later earlier) ↔ DuplicateAt xs n later earlier := by
  refine ⟨duplicateAt_of_assignIds, ?_⟩
  rintro ⟨i, j, hj, h1, h2, h3, h4, h5, h6⟩
  refine assignIds_duplicate_conv i h1 h3 (assignIds_prefix_ok h5 ?_) h6
    (.inr ⟨by simp, j, hj, h2, h4⟩)
  have := noOverflow_take _ none i h6
  rwa [List.take_take, Nat.min_eq_left (Nat.le_succ i)] at this

/-- `ExceedsAt` is exactly the condition under which the id logic reports this error. -/
theorem exceedsAt_iff {xs : List (Option Nat × String)} {item : String} :
    assignIds xs [] none = .error (.exceeds item) ↔ ExceedsAt xs item := by
  refine ⟨exceedsAt_of_assignIds, ?_⟩
  rintro ⟨i, m, h1, h2, h3, _, h5, h6⟩
  exact assignIds_exceeds_conv i h1 h2 h3 (assignIds_prefix_ok h5 h6)

/-- **C15, duplicate.** `.id (.duplicate n later earlier)` is attributed to the LATER of two
items with the same id `n` and names the earlier holder; the two items are either two enabled
archetypes or two enabled components of one enabled archetype, and `later` is the first item
of its sequence at which anything goes wrong. -/
theorem ids_error_duplicate {w : PWorld} {l : CfgLookup} {n : Nat} {later earlier : String}
    (h : DWorld.new w l = .error (.id (.duplicate n later earlier))) :
    DuplicateAt (archItems (enabledArchs l w.archs)) n later earlier ∨
    ∃ a ∈ enabledArchs l w.archs,
      DuplicateAt (compItems (enabledComps l a.comps)) n later earlier := by
  rcases buildArchs_error_id (DWorld_new_error_iff.mp h) with h' | ⟨a, ha, h'⟩
  · exact .inl (duplicateAt_of_assignIds h')
  · exact .inr ⟨a, ha, duplicateAt_of_assignIds (buildComps_error_id h')⟩

/-- **C15, exceeds.** `.id (.exceeds item)` names the item (enabled archetype, or enabled
component of an enabled archetype) without explicit id whose implicit id would be `256`
(in general `> 255`; exactly `256` when explicit ids are `u8`). -/
theorem ids_error_exceeds {w : PWorld} {l : CfgLookup} {item : String}
    (h : DWorld.new w l = .error (.id (.exceeds item))) :
    ExceedsAt (archItems (enabledArchs l w.archs)) item ∨
    ∃ a ∈ enabledArchs l w.archs, ExceedsAt (compItems (enabledComps l a.comps)) item := by
  rcases buildArchs_error_id (DWorld_new_error_iff.mp h) with h' | ⟨a, ha, h'⟩
  · exact .inl (exceedsAt_of_assignIds h')
  · exact .inr ⟨a, ha, exceedsAt_of_assignIds (buildComps_error_id h')⟩

/-- **C15, missing cfg.** `.missingCfg` means that some reached cfg list cannot be evaluated. -/
theorem ids_error_missingCfg {w : PWorld} {l : CfgLookup}
    (h : DWorld.new w l = .error .missingCfg) :
    (∃ a ∈ w.archs, evaluateCfgs l a.cfgs = none) ∨
    ∃ a ∈ enabledArchs l w.archs, ∃ c ∈ a.comps, evaluateCfgs l c.cfgs = none :=
  buildArchs_error_missing (DWorld_new_error_iff.mp h)

/-! ### Non-vacuity: concrete declarations, by `decide` -/

/-- `Except` has no `DecidableEq` instance in core; needed to `decide` the examples. -/
instance instDecidableEqExceptMacIds {ε α : Type} [DecidableEq ε] [DecidableEq α] :
    DecidableEq (Except ε α)
  | .ok a, .ok b =>
    if h : a = b then isTrue (by rw [h]) else isFalse (by intro h'; cases h'; exact h rfl)
  | .error a, .error b =>
    if h : a = b then isTrue (by rw [h]) else isFalse (by intro h'; cases h'; exact h rfl)
  | .ok _, .error _ => isFalse (by intro h; cases h)
  | .error _, .ok _ => isFalse (by intro h; cases h)

namespace Ex

/-- archetype without components/cfgs -/
def arch (id : Option Nat) (name : String) (cfgs : List String := []) (comps : List PComp := []) :
    PArch := ⟨cfgs, id, name, comps⟩

def comp (id : Option Nat) (name : String) (cfgs : List String := []) : PComp := ⟨cfgs, id, name⟩

-- the reference rule itself
example : discriminants [some 5, none, some 2, none] none = [5, 6, 2, 3] := by decide
example : discriminants [none, some 0] none = [0, 0] := by decide
example : noOverflow [some 255, none] none = false := by decide
example : discriminants [none, none, none] none = [0, 1, 2] := by decide

/-- explicit ids descending: `[some 5, none, some 2, none] ↦ [5, 6, 2, 3]` -/
def wDesc : PWorld := ⟨"W", [arch (some 5) "A", arch none "B", arch (some 2) "C", arch none "D"]⟩

example : DWorld.new wDesc [] =
    .ok ⟨"W", [⟨5, "A", []⟩, ⟨6, "B", []⟩, ⟨2, "C", []⟩, ⟨3, "D", []⟩]⟩ := by decide

/-- an explicit id colliding with an implicit successor: `[none, some 0]`; the error is
attributed to the later item `B` and names the earlier holder `A` -/
def wDup : PWorld := ⟨"W", [arch none "A", arch (some 0) "B"]⟩

example : DWorld.new wDup [] = .error (.id (.duplicate 0 "B" "A")) := by decide

example : DuplicateAt (archItems (enabledArchs [] wDup.archs)) 0 "B" "A" :=
  duplicateAt_iff.mp (by decide)

/-- an implicit id colliding with an earlier explicit one: `[some 1, some 0, none]` -/
example : DWorld.new ⟨"W", [arch (some 1) "A", arch (some 0) "B", arch none "C"]⟩ [] =
    .error (.id (.duplicate 1 "C" "A")) := by decide

/-- `some 255` followed by `none`: the implicit id would be 256 -/
def wExc : PWorld := ⟨"W", [arch (some 255) "A", arch none "B"]⟩

example : DWorld.new wExc [] = .error (.id (.exceeds "B")) := by decide

example : ExceedsAt (archItems (enabledArchs [] wExc.archs)) "B" := exceedsAt_iff.mp (by decide)

/-- a cfg-disabled archetype in the middle consumes no id -/
def wCfg : PWorld := ⟨"W", [arch none "A", arch none "B" ["f"], arch none "C"]⟩

example : DWorld.new wCfg [("f", false)] = .ok ⟨"W", [⟨0, "A", []⟩, ⟨1, "C", []⟩]⟩ := by decide
example : DWorld.new wCfg [("f", true)] =
    .ok ⟨"W", [⟨0, "A", []⟩, ⟨1, "B", []⟩, ⟨2, "C", []⟩]⟩ := by decide
example : DWorld.new wCfg [] = .error .missingCfg := by decide
example : enabledArchs [("f", false)] wCfg.archs = [arch none "A", arch none "C"] := by decide

/-- a disabled archetype that would have collided / overflowed does no harm -/
example : DWorld.new ⟨"W", [arch (some 255) "A", arch none "B" ["f"], arch (some 255) "C" ["f"]]⟩
    [("f", false)] = .ok ⟨"W", [⟨255, "A", []⟩]⟩ := by decide

/-- components: ids restart per archetype, the same id may be used in two archetypes, a
disabled component consumes no id, and component errors are reported the same way -/
def wComps : PWorld :=
  ⟨"W", [arch none "A" [] [comp (some 3) "X", comp none "Y" ["f"], comp none "Z"],
         arch none "B" [] [comp none "X", comp (some 3) "Z"]]⟩

example : DWorld.new wComps [("f", false)] =
    .ok ⟨"W", [⟨0, "A", [⟨3, "X"⟩, ⟨4, "Z"⟩]⟩, ⟨1, "B", [⟨0, "X"⟩, ⟨3, "Z"⟩]⟩]⟩ := by decide
example : DWorld.new wComps [("f", true)] =
    .ok ⟨"W", [⟨0, "A", [⟨3, "X"⟩, ⟨4, "Y"⟩, ⟨5, "Z"⟩]⟩, ⟨1, "B", [⟨0, "X"⟩, ⟨3, "Z"⟩]⟩]⟩ := by
  decide
example : DWorld.new ⟨"W", [arch none "A" [] [comp (some 1) "X", comp (some 0) "Y", comp none "Z"]]⟩ [] =
    .error (.id (.duplicate 1 "Z" "X")) := by decide
example : DWorld.new ⟨"W", [arch none "A" [] [comp (some 255) "X", comp none "Y"]]⟩ [] =
    .error (.id (.exceeds "Y")) := by decide
/-- components of a disabled archetype are never looked at (their predicate may be missing) -/
example : DWorld.new ⟨"W", [arch none "A" ["f"] [comp none "X" ["g"]], arch none "B"]⟩ [("f", false)] =
    .ok ⟨"W", [⟨0, "B", []⟩]⟩ := by decide
/-- predicates after a `false` one are never looked up -/
example : evaluateCfgs [("f", false)] ["f", "g"] = some false := by decide
example : evaluateCfgs [("f", false)] ["g", "f"] = none := by decide

/-- why `ids_le_255` and the `m = 256` clause of `ExceedsAt` need the `u8` hypothesis: the model
itself does not bound explicit ids (the Rust parser does, by parsing them as `u8`) -/
example : DWorld.new ⟨"W", [arch (some 300) "A"]⟩ [] = .ok ⟨"W", [⟨300, "A", []⟩]⟩ := by decide
example : DWorld.new ⟨"W", [arch (some 300) "A", arch none "B"]⟩ [] =
    .error (.id (.exceeds "B")) := by decide

/-- the hypotheses of `ids_le_255` hold for these declarations -/
example : (∀ a ∈ wComps.archs, ∀ n, a.id = some n → n ≤ 255) ∧
    (∀ a ∈ wComps.archs, ∀ c ∈ a.comps, ∀ n, c.id = some n → n ≤ 255) := by
  simp [wComps, arch, comp]

/-- the right-hand side of `ids_ok_iff` is decidable and holds for `wComps` -/
example : (∀ a ∈ wComps.archs, evaluateCfgs [("f", false)] a.cfgs ≠ none) ∧
    (∀ a ∈ enabledArchs [("f", false)] wComps.archs, ∀ c ∈ a.comps,
      evaluateCfgs [("f", false)] c.cfgs ≠ none) ∧
    noOverflow ((enabledArchs [("f", false)] wComps.archs).map (·.id)) none = true ∧
    (discriminants ((enabledArchs [("f", false)] wComps.archs).map (·.id)) none).Nodup ∧
    ∀ a ∈ enabledArchs [("f", false)] wComps.archs,
      noOverflow ((enabledComps [("f", false)] a.comps).map (·.id)) none = true ∧
      (discriminants ((enabledComps [("f", false)] a.comps).map (·.id)) none).Nodup := by
  decide

end Ex

#print axioms buildComps_rule
#print axioms buildArchs_rule
#print axioms ids_rule
#print axioms ids_rule_comps
#print axioms ids_nodup
#print axioms ids_le_255
#print axioms ids_ok_iff
#print axioms ids_ok_iff_of_present
#print axioms ids_error_duplicate
#print axioms ids_error_exceeds
#print axioms ids_error_missingCfg
#print axioms duplicateAt_iff
#print axioms exceedsAt_iff
#print axioms evaluateCfgs_eq_none_iff

end Gecs.Mac
