/-
`populate` (slot.rs `populate_free_list`), `withCapacity` and `grow` establish / preserve the
representation invariant.
-/
import Gecs.Lemmas.Inv

namespace Gecs
variable {α : Type}

/-- The slot written by `populate` at a fresh position `i` of a table of `n` cells. -/
def fresh (n i : Nat) : Slot :=
  if i + 1 < n then ⟨.free (i + 1), VERSION_START⟩ else ⟨.freeEnd, VERSION_START⟩

theorem fresh_isFree (n i : Nat) : (fresh n i).idx.isFree = true := by
  unfold fresh; split <;> rfl

theorem fresh_ver (n i : Nat) : (fresh n i).ver = 1 := by
  unfold fresh; split <;> rfl

/-- A block of fresh slots `[n-k, n)` forms a chain. -/
theorem chain_fresh (sl : List Slot) (n start : Nat)
    (hf : ∀ i, start ≤ i → i < n → sl[i]? = some (fresh n i)) :
    ∀ k, k ≤ n - start → k ≥ 1 → Chain sl (.free (n - k)) (List.range' (n - k) k) := by
  intro k
  induction k with
  | zero => intro _ h; omega
  | succ k ih =>
    intro hk _
    have hi : sl[n - (k+1)]? = some (fresh n (n - (k+1))) := hf _ (by omega) (by omega)
    rw [List.range'_succ]
    refine .cons hi (fresh_isFree _ _) ?_
    by_cases hk0 : k = 0
    · subst hk0
      have : fresh n (n - 1) = ⟨.freeEnd, VERSION_START⟩ := by
        unfold fresh; split <;> first | omega | rfl
      simp [this]; exact .nil
    · have h1 : n - (k+1) + 1 = n - k := by omega
      have : fresh n (n - (k+1)) = ⟨.free (n - k), VERSION_START⟩ := by
        unfold fresh; split
        · rw [h1]
        · omega
      rw [this, h1]
      exact ih (by omega) (by omega)

theorem populate_spec (start n : Nat) (old : List Slot) (hn : n > 0) (hs : start < n)
    (hold : start ≤ old.length) :
    (populate start n old).2 = .free start ∧ (populate start n old).1.length = n
    ∧ (∀ i, i < start → (populate start n old).1[i]? = old[i]?)
    ∧ (∀ i, start ≤ i → i < n → (populate start n old).1[i]? = some (fresh n i)) := by
  have hp : populate start n old = ((List.range n).map (fun i =>
        if i < start then old.getD i ⟨.freeEnd, 0⟩
        else if i + 1 < n then ⟨.free (i + 1), VERSION_START⟩ else ⟨.freeEnd, VERSION_START⟩),
        .free start) := by
    simp [populate, hn]
  rw [hp]
  refine ⟨rfl, by simp, ?_, ?_⟩
  · intro i hi
    have h1 : i < n := by omega
    have h2 : i < old.length := by omega
    simp [h1, hi, h2]
  · intro i h1 h2
    have : ¬ i < start := by omega
    simp only [List.getElem?_map, List.getElem?_range h2, Option.map_some, this, if_false, fresh]

/-- `populate` of zero cells. -/
theorem populate_zero (start : Nat) (old : List Slot) : populate start 0 old = ([], .freeEnd) := by
  simp [populate]

/-- `StorageN::with_capacity` establishes the invariant. -/
theorem withCapacity_inv (cfg : Cfg) (ncols cap : Nat) (hc : cap ≤ cfg.maxCap) (hv : CfgOk cfg) :
    ∃ s : Storage α, withCapacity cfg ncols cap = .ok () s ∧ Inv cfg s ∧ s.len = 0
      ∧ s.capacity = cap ∧ s.cols.length = ncols ∧ s.version = 1
      ∧ s.created = [] ∧ s.destroyed = [] := by
  have hvm := hv.vmaxPos
  have hnp : ¬ cap > cfg.maxCap := by omega
  refine ⟨⟨VERSION_START, 0, cap, (populate 0 cap []).2, (populate 0 cap []).1, [],
      List.replicate ncols [], [], []⟩, ?_, ?_, rfl, rfl, by simp, rfl, rfl, rfl⟩
  · simp [withCapacity, hnp]
  · by_cases h0 : cap = 0
    · subst h0
      rw [populate_zero]
      exact {
        slotsLen := rfl, entsLen := rfl
        colsLen := by intro c hc; simp only [List.mem_replicate] at hc; rw [hc.2]; rfl
        lenCap := Nat.le_refl _, capMax := hc
        dense := by intro d e he; simp at he
        sparse := by intro i d v hi; simp at hi
        chain := ⟨[], Chain.nil, List.nodup_nil, rfl⟩
        verPos := by intro i sl hi; simp at hi
        archVer := by simp only [VERSION_START]; omega }
    · have hpos : cap > 0 := by omega
      obtain ⟨h1, h2, _, h4⟩ := populate_spec 0 cap [] hpos hpos (by simp)
      constructor
      · exact h2
      · rfl
      · intro c hc; simp only [List.mem_replicate] at hc; rw [hc.2]; rfl
      · simp
      · exact hc
      · intro d e he; simp at he
      · intro i d v hi
        simp only at hi
        have hlt : i < cap := by
          have := (List.getElem?_eq_some_iff.mp hi).1; omega
        rw [h4 i (by omega) hlt] at hi
        have hfr := fresh_isFree cap i
        rw [Option.some.inj hi] at hfr; simp [SIdx.isFree] at hfr
      · refine ⟨List.range' 0 cap, ?_, List.nodup_range', by simp⟩
        simp only [h1]
        have := chain_fresh (populate 0 cap []).1 cap 0 (fun i a b => h4 i a b) cap (by omega) hpos
        simpa using this
      · intro i sl hi
        simp only at hi
        have hlt : i < cap := by
          have := (List.getElem?_eq_some_iff.mp hi).1; omega
        rw [h4 i (by omega) hlt] at hi
        rw [← Option.some.inj hi, fresh_ver]; omega
      · simp only [VERSION_START]; omega

theorem withCapacity_panics (cfg : Cfg) (ncols cap : Nat) (h : cap > cfg.maxCap) :
    ∃ s : Storage α, withCapacity cfg ncols cap = .panic "capacity may not exceed" s := by
  exact ⟨emptyStorage ncols, by simp [withCapacity, h]⟩

/-- `StorageN::grow` (with the new capacity supplied) preserves the invariant, keeps all
occupied slots, the dense data, the versions and the event logs. -/
theorem grow_inv (cfg : Cfg) (s : Storage α) (nc : Nat) (h : Inv cfg s)
    (hfull : s.len = s.capacity) (hroom : s.capacity < cfg.maxCap)
    (hnc : s.capacity < nc ∧ nc ≤ cfg.maxCap) (hv : CfgOk cfg) :
    ∃ s', grow cfg s nc = some s' ∧ Inv cfg s' ∧ s'.len = s.len ∧ s'.capacity = nc
      ∧ s'.ents = s.ents ∧ s'.cols = s.cols ∧ s'.version = s.version
      ∧ s'.created = s.created ∧ s'.destroyed = s.destroyed
      ∧ (∀ i, i < s.capacity → s'.slots[i]? = s.slots[i]?) := by
  have hvm := hv.vmaxPos
  obtain ⟨hnc1, hncm⟩ := hnc
  obtain ⟨h1, h2, h3, h4⟩ := populate_spec s.len nc s.slots (by omega) (by omega)
    (by rw [h.slotsLen]; omega)
  refine ⟨{ s with
      slots := (populate s.len nc s.slots).1
      freeHead := (populate s.len nc s.slots).2
      capacity := nc }, ?_, ?_, rfl, rfl, rfl, rfl, rfl, rfl, rfl, ?_⟩
  · have : ¬ s.capacity ≥ cfg.maxCap := by omega
    simp [grow, this]
  · constructor
    · exact h2
    · exact h.entsLen
    · exact h.colsLen
    · simp only; omega
    · exact hncm
    · intro d e he
      simp only at he ⊢
      have hold := h.dense d e he
      have : e.slot < s.len := by
        have := (List.getElem?_eq_some_iff.mp hold).1; rw [h.slotsLen] at this; omega
      rw [h3 _ this]; exact hold
    · intro i d v hi
      simp only at hi ⊢
      by_cases hlt : i < s.len
      · rw [h3 _ hlt] at hi; exact h.sparse i d v hi
      · have hin : i < nc := by
          have := (List.getElem?_eq_some_iff.mp hi).1; omega
        rw [h4 i (by omega) hin] at hi
        have hfr := fresh_isFree nc i
        rw [Option.some.inj hi] at hfr; simp [SIdx.isFree] at hfr
    · refine ⟨List.range' s.len (nc - s.len), ?_, List.nodup_range', by simp; omega⟩
      simp only [h1]
      have := chain_fresh (populate s.len nc s.slots).1 nc s.len (fun i a b => h4 i a b)
        (nc - s.len) (by omega) (by omega)
      have e : nc - (nc - s.len) = s.len := by omega
      rw [e] at this; exact this
    · intro i sl hi
      simp only at hi
      by_cases hlt : i < s.len
      · rw [h3 _ hlt] at hi; exact h.verPos i sl hi
      · have hin : i < nc := by
          have := (List.getElem?_eq_some_iff.mp hi).1; omega
        rw [h4 i (by omega) hin] at hi
        rw [← Option.some.inj hi, fresh_ver]; omega
    · exact h.archVer
  · intro i hi
    simp only
    exact h3 i (by omega)

theorem grow_none_iff (cfg : Cfg) (s : Storage α) (nc : Nat) :
    grow cfg s nc = none ↔ s.capacity ≥ cfg.maxCap := by
  unfold grow
  split <;> simp_all

theorem codeGrowth_ok (cfg : Cfg) (cap : Nat) (h : cap < cfg.maxCap) :
    cap < codeGrowth cfg cap ∧ codeGrowth cfg cap ≤ cfg.maxCap := by
  unfold codeGrowth
  omega

/-! Non-vacuity: a concrete configuration and a full 2-slot storage that satisfies `Inv`
and the hypotheses of `grow_inv`.  (Example objects live in `Gecs.StorageEx`.) -/
namespace StorageEx

def cfgEx : Cfg := ⟨8, 5, false, true, true⟩

theorem cfgEx_ok : CfgOk cfgEx := ⟨by decide⟩

/-- A full storage: two live entities, capacity two. -/
def fullEx : Storage Nat :=
  ⟨1, 2, 2, .freeEnd, [⟨.data 0, 1⟩, ⟨.data 1, 3⟩], [⟨0, 1⟩, ⟨1, 3⟩], [[10, 11]], [], []⟩

theorem fullEx_inv : Inv cfgEx fullEx where
  slotsLen := rfl
  entsLen := rfl
  colsLen := by decide
  lenCap := by decide
  capMax := by decide
  dense := by
    intro d e he
    match d, he with
    | 0, he => cases he; rfl
    | 1, he => cases he; rfl
    | d + 2, he => simp [fullEx] at he
  sparse := by
    intro i d v hi
    match i, hi with
    | 0, hi => cases hi; rfl
    | 1, hi => cases hi; rfl
    | i + 2, hi => simp [fullEx] at hi
  chain := ⟨[], .nil, List.nodup_nil, rfl⟩
  verPos := by
    intro i sl hi
    match i, hi with
    | 0, hi => cases hi; decide
    | 1, hi => cases hi; decide
    | i + 2, hi => simp [fullEx] at hi
  archVer := by decide

example : ∃ s', grow cfgEx fullEx 6 = some s' ∧ Inv cfgEx s' ∧ s'.capacity = 6 := by
  obtain ⟨s', h1, h2, _, h4, _⟩ :=
    grow_inv cfgEx fullEx 6 fullEx_inv rfl (by decide) (by decide) cfgEx_ok
  exact ⟨s', h1, h2, h4⟩

example : ∃ s : Storage Nat, withCapacity cfgEx 2 3 = .ok () s ∧ Inv cfgEx s :=
  let ⟨s, h1, h2, _⟩ := withCapacity_inv (α := Nat) cfgEx 2 3 (by decide) cfgEx_ok
  ⟨s, h1, h2⟩

example : (2 : Nat) < codeGrowth cfgEx 2 ∧ codeGrowth cfgEx 2 ≤ cfgEx.maxCap := by decide

example : ∃ s : Storage Nat, withCapacity cfgEx 2 9 = .panic "capacity may not exceed" s :=
  withCapacity_panics cfgEx 2 9 (by decide)

end StorageEx
end Gecs

section
open Gecs
#print axioms populate_spec
#print axioms chain_fresh
#print axioms withCapacity_inv
#print axioms withCapacity_panics
#print axioms grow_inv
#print axioms grow_none_iff
#print axioms codeGrowth_ok
end
