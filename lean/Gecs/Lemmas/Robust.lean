/-
Helper lemmas for the robustness properties C10 (panic safety), C12 (len / capacity) and C19
(crate features and build profiles).

A. Configuration transfer: `Inv` only reads `cfg.maxCap` and `cfg.vmax`.
B. Concrete regression witnesses for the repaired `force_destroy` statement order (C10).
C. `events`: erasing the event logs commutes with every storage operation, with every
   world operation, with `stepOp` and with `run` (C19).
D. `wrapping_version`: `nextVer` and the destroy operations agree below `vmax` (C19).
E. Debug assertions: the lookups agree on every key that is in range (C19).
F. A generic lift of "two configurations agree at storage level unless the first one's outcome
   is one of the documented differences" (`OpsSim`) to `stepOp` and `run`, instantiated for
   `wrapping_version` (documented difference: the two overflow panics) and for debug
   assertions (documented difference: the `debug_assert` panics); keys issued by the API
   stay in range (C19).
No `Inv` is needed in C, F (equalities of model terms by unfolding); D, E use the outcome
specifications of Lemmas/StorageOps.lean.
-/
import Gecs.Lemmas.QueryOps
import Gecs.Lemmas.HistoryLemmas

set_option linter.unusedSimpArgs false

namespace Gecs
variable {α σ : Type}

/-! ## A. `Inv` depends on the configuration only through `maxCap` and `vmax` -/

theorem Inv.congr_cfg {cfg cfg' : Cfg} {s : Storage α} (h : Inv cfg s)
    (h1 : cfg'.maxCap = cfg.maxCap) (h2 : cfg'.vmax = cfg.vmax) : Inv cfg' s where
  slotsLen := h.slotsLen
  entsLen := h.entsLen
  colsLen := h.colsLen
  lenCap := h.lenCap
  capMax := by rw [h1]; exact h.capMax
  dense := h.dense
  sparse := h.sparse
  chain := h.chain
  verPos := by intro i sl hi; rw [h2]; exact h.verPos i sl hi
  archVer := by rw [h2]; exact h.archVer

theorem Inv.cfg_iff {cfg cfg' : Cfg} {s : Storage α}
    (h1 : cfg'.maxCap = cfg.maxCap) (h2 : cfg'.vmax = cfg.vmax) : Inv cfg' s ↔ Inv cfg s :=
  ⟨fun h => h.congr_cfg h1.symm h2.symm, fun h => h.congr_cfg h1 h2⟩

/-- `Inv` does not mention the build profile. -/
theorem Inv.debug_iff {cfg : Cfg} {s : Storage α} (b : Bool) :
    Inv { cfg with debug := b } s ↔ Inv cfg s := Inv.cfg_iff rfl rfl

/-- `Inv` does not mention the `wrapping_version` feature. -/
theorem Inv.wrapping_iff {cfg : Cfg} {s : Storage α} (b : Bool) :
    Inv { cfg with wrapping := b } s ↔ Inv cfg s := Inv.cfg_iff rfl rfl

/-- `Inv` does not mention the `events` feature. -/
theorem Inv.events_iff {cfg : Cfg} {s : Storage α} (b : Bool) :
    Inv { cfg with events := b } s ↔ Inv cfg s := Inv.cfg_iff rfl rfl

theorem WInv.congr_cfg {cfg cfg' : Cfg} {w : World α} (h : WInv cfg w)
    (h1 : cfg'.maxCap = cfg.maxCap) (h2 : cfg'.vmax = cfg.vmax) : WInv cfg' w :=
  ⟨h.idsLen, h.idsNodup, h.idsLt, fun s hs => (h.inv s hs).congr_cfg h1 h2⟩

theorem GrowOk.congr_cfg {cfg cfg' : Cfg} {g : Nat → Nat} (h : GrowOk cfg g)
    (h1 : cfg'.maxCap = cfg.maxCap) : GrowOk cfg' g := by
  intro c hc
  rw [h1] at hc ⊢
  exact h c hc

/-- `OpsOk` (admissible growth) only reads `maxCap`. -/
theorem OpsOk.congr_cfg {cfg cfg' : Cfg} (h1 : cfg'.maxCap = cfg.maxCap) :
    ∀ ops : List (Op α), OpsOk cfg ops → OpsOk cfg' ops := by
  intro ops
  induction ops with
  | nil => intro _; trivial
  | cons op ops ih =>
    intro h
    cases op <;> simp only [OpsOk] at h ⊢ <;>
      first | exact ⟨h.1.congr_cfg h1, ih h.2⟩ | exact ih h

/-! ## B. Regression witnesses for defect F1 (`force_destroy` statement order)

`vmax = 2`, non-wrapping, release build.  Two live entities; the first one (slot 0, dense 0)
is removed. -/
namespace RobustEx

def cfgF1 : Cfg := ⟨8, 2, false, true, false⟩

theorem cfgF1_ok : CfgOk cfgF1 := ⟨by decide⟩

/-- Slot 0 is at generation `vmax`: releasing it overflows the slot version. -/
def slotOvf : Storage Nat :=
  ⟨1, 2, 2, .freeEnd, [⟨.data 0, 2⟩, ⟨.data 1, 1⟩], [⟨0, 2⟩, ⟨1, 1⟩], [[10, 11]], [], []⟩

/-- What the pre-fix statement order leaves behind: handle, column cell and event already
removed / pushed, the moved entity's slot already redirected, slot 0 already on the free list
— but `len` is still 2 and `free_head` does not reach slot 0. -/
def slotOvfBad : Storage Nat :=
  ⟨1, 2, 2, .freeEnd, [⟨.freeEnd, 2⟩, ⟨.data 0, 1⟩], [⟨1, 1⟩], [[11]], [], [⟨0, 2⟩]⟩

/-- The archetype version is at `vmax`: any removal overflows it. -/
def archOvf : Storage Nat :=
  ⟨2, 2, 2, .freeEnd, [⟨.data 0, 1⟩, ⟨.data 1, 1⟩], [⟨0, 1⟩, ⟨1, 1⟩], [[10, 11]], [], []⟩

def archOvfBad : Storage Nat :=
  ⟨2, 2, 2, .freeEnd, [⟨.freeEnd, 2⟩, ⟨.data 0, 1⟩], [⟨1, 1⟩], [[11]], [], [⟨0, 1⟩]⟩

theorem slotOvf_inv : Inv cfgF1 slotOvf where
  slotsLen := rfl
  entsLen := rfl
  colsLen := by decide
  lenCap := by decide
  capMax := by decide
  dense := by
    intro d e he
    match d, he with
    | 0, he => cases he; rfl
    | 1, he => cases he; rfl
    | d + 2, he => simp [slotOvf] at he
  sparse := by
    intro i d v hi
    match i, hi with
    | 0, hi => cases hi; rfl
    | 1, hi => cases hi; rfl
    | i + 2, hi => simp [slotOvf] at hi
  chain := ⟨[], .nil, List.nodup_nil, rfl⟩
  verPos := by
    intro i sl hi
    match i, hi with
    | 0, hi => cases hi; decide
    | 1, hi => cases hi; decide
    | i + 2, hi => simp [slotOvf] at hi
  archVer := by decide

theorem archOvf_inv : Inv cfgF1 archOvf where
  slotsLen := rfl
  entsLen := rfl
  colsLen := by decide
  lenCap := by decide
  capMax := by decide
  dense := by
    intro d e he
    match d, he with
    | 0, he => cases he; rfl
    | 1, he => cases he; rfl
    | d + 2, he => simp [archOvf] at he
  sparse := by
    intro i d v hi
    match i, hi with
    | 0, hi => cases hi; rfl
    | 1, hi => cases hi; rfl
    | i + 2, hi => simp [archOvf] at hi
  chain := ⟨[], .nil, List.nodup_nil, rfl⟩
  verPos := by
    intro i sl hi
    match i, hi with
    | 0, hi => cases hi; decide
    | 1, hi => cases hi; decide
    | i + 2, hi => simp [archOvf] at hi
  archVer := by decide

theorem slotOvf_prefix :
    forceDestroyPreFix cfgF1 slotOvf 0 0 = .panic "slot version overflow" slotOvfBad := rfl

theorem slotOvf_fixed :
    forceDestroy cfgF1 slotOvf 0 0 = .panic "slot version overflow" slotOvf :=
  forceDestroy_slot_overflow cfgF1 slotOvf 0 0 2 slotOvf_inv rfl (by decide)

theorem archOvf_prefix :
    forceDestroyPreFix cfgF1 archOvf 0 0 = .panic "arch version overflow" archOvfBad := rfl

theorem archOvf_fixed :
    forceDestroy cfgF1 archOvf 0 0 = .panic "arch version overflow" archOvf :=
  forceDestroy_arch_overflow cfgF1 archOvf 0 0 1 archOvf_inv rfl 2 (by decide) (by decide)

theorem slotOvfBad_not_inv : ¬ Inv cfgF1 slotOvfBad :=
  fun h => absurd h.entsLen (by decide)

theorem archOvfBad_not_inv : ¬ Inv cfgF1 archOvfBad :=
  fun h => absurd h.entsLen (by decide)

/-- Using the surviving entity's (perfectly valid) handle afterwards is undefined behaviour
in the state left by the pre-fix order. -/
theorem slotOvfBad_use_is_ub : (destroyEnt cfgF1 slotOvfBad ⟨1, 1⟩).isUb = true := rfl

theorem archOvfBad_use_is_ub : (destroyEnt cfgF1 archOvfBad ⟨1, 1⟩).isUb = true := rfl

/-- … and so is iterating (`get_all_slices_mut` needs the data valid up to `len`). -/
theorem slotOvfBad_slices_invalid : slicesValid cfgF1 slotOvfBad = false := rfl

end RobustEx

/-! ## C. The `events` feature only adds logs

`eraseLogs` forgets the two event vectors.  Every storage operation, run with the feature on
or off and with its result state's logs erased, equals the same operation run with the feature
off on the log-erased state: same returned value, same panic message, same `ub`.  These are
equalities of model terms and hold WITHOUT `Inv` — the event vectors are never read, only
appended to. -/

/-- Forget the two event logs. -/
@[reducible] def eraseLogs (s : Storage α) : Storage α := { s with created := [], destroyed := [] }

/-- The same configuration with the `events` feature off. -/
@[reducible] def cfgOff (cfg : Cfg) : Cfg := { cfg with events := false }

/-- Apply a function to the state carried by an outcome. -/
def Out.mapState {σ τ β : Type} (f : σ → τ) : Out σ β → Out τ β
  | .ok b s => .ok b (f s)
  | .panic m s => .panic m (f s)
  | .ub m => .ub m

/-- Apply a function to the value returned by an outcome. -/
def Out.mapVal {σ β γ : Type} (f : β → γ) : Out σ β → Out σ γ
  | .ok b s => .ok (f b) s
  | .panic m s => .panic m s
  | .ub m => .ub m

@[simp] theorem eraseLogs_version (s : Storage α) : (eraseLogs s).version = s.version := rfl
@[simp] theorem eraseLogs_len (s : Storage α) : (eraseLogs s).len = s.len := rfl
@[simp] theorem eraseLogs_capacity (s : Storage α) : (eraseLogs s).capacity = s.capacity := rfl
@[simp] theorem eraseLogs_freeHead (s : Storage α) : (eraseLogs s).freeHead = s.freeHead := rfl
@[simp] theorem eraseLogs_slots (s : Storage α) : (eraseLogs s).slots = s.slots := rfl
@[simp] theorem eraseLogs_ents (s : Storage α) : (eraseLogs s).ents = s.ents := rfl
@[simp] theorem eraseLogs_cols (s : Storage α) : (eraseLogs s).cols = s.cols := rfl
@[simp] theorem eraseLogs_created (s : Storage α) : (eraseLogs s).created = [] := rfl
@[simp] theorem eraseLogs_destroyed (s : Storage α) : (eraseLogs s).destroyed = [] := rfl
@[simp] theorem eraseLogs_idem (s : Storage α) : eraseLogs (eraseLogs s) = eraseLogs s := rfl

@[simp] theorem cfgOff_maxCap (cfg : Cfg) : (cfgOff cfg).maxCap = cfg.maxCap := rfl
@[simp] theorem cfgOff_vmax (cfg : Cfg) : (cfgOff cfg).vmax = cfg.vmax := rfl
@[simp] theorem cfgOff_wrapping (cfg : Cfg) : (cfgOff cfg).wrapping = cfg.wrapping := rfl
@[simp] theorem cfgOff_debug (cfg : Cfg) : (cfgOff cfg).debug = cfg.debug := rfl
@[simp] theorem cfgOff_events (cfg : Cfg) : (cfgOff cfg).events = false := rfl

@[simp] theorem Out.mapState_ok {σ τ β : Type} (f : σ → τ) (b : β) (s : σ) :
    (Out.ok b s : Out σ β).mapState f = .ok b (f s) := rfl
@[simp] theorem Out.mapState_panic {σ τ β : Type} (f : σ → τ) (m : String) (s : σ) :
    (Out.panic m s : Out σ β).mapState f = .panic m (f s) := rfl
@[simp] theorem Out.mapState_ub {σ τ β : Type} (f : σ → τ) (m : String) :
    (Out.ub m : Out σ β).mapState f = .ub m := rfl

theorem nextVer_cfgOff (cfg : Cfg) (v : Nat) : nextVer (cfgOff cfg) v = nextVer cfg v := rfl

theorem forceCreate_eraseLogs (cfg : Cfg) (s : Storage α) (row : List α) :
    (forceCreate cfg s row).mapState eraseLogs = forceCreate (cfgOff cfg) (eraseLogs s) row := by
  unfold forceCreate
  simp only [eraseLogs_freeHead, eraseLogs_slots, eraseLogs_len, cfgOff_maxCap]
  cases s.freeHead with
  | data _ => rfl
  | freeEnd => rfl
  | free si =>
    simp only []
    cases s.slots[si]? with
    | none => rfl
    | some sl =>
      simp only []
      by_cases h : s.len < cfg.maxCap
      · simp [h, eraseLogs]
      · simp [h]

theorem grow_eraseLogs (cfg : Cfg) (s : Storage α) (nc : Nat) :
    grow (cfgOff cfg) (eraseLogs s) nc = (grow cfg s nc).map eraseLogs := by
  unfold grow
  simp only [eraseLogs_capacity, cfgOff_maxCap, eraseLogs_len, eraseLogs_slots]
  by_cases h : s.capacity ≥ cfg.maxCap
  · simp only [h, if_true]; rfl
  · simp only [h, if_false]; rfl

theorem push_eraseLogs (cfg : Cfg) (g : Nat → Nat) (s : Storage α) (row : List α) :
    (push cfg g s row).mapState eraseLogs = push (cfgOff cfg) g (eraseLogs s) row := by
  unfold push
  simp only [eraseLogs_len, eraseLogs_capacity, grow_eraseLogs]
  by_cases h : s.len ≥ s.capacity
  · simp only [h, if_true]
    cases grow cfg s (g s.capacity) with
    | none => rfl
    | some s' => exact forceCreate_eraseLogs cfg s' row
  · simp only [h, if_false]
    exact forceCreate_eraseLogs cfg s row

theorem pushWithin_eraseLogs (cfg : Cfg) (s : Storage α) (row : List α) :
    (pushWithin cfg s row).mapState eraseLogs = pushWithin (cfgOff cfg) (eraseLogs s) row := by
  unfold pushWithin
  simp only [eraseLogs_len, eraseLogs_capacity]
  by_cases h : s.len ≥ s.capacity
  · simp only [h, if_true]; rfl
  · simp only [h, if_false]
    rw [← forceCreate_eraseLogs]
    cases forceCreate cfg s row <;> rfl

theorem forceDestroy_eraseLogs (cfg : Cfg) (s : Storage α) (si d : Nat) :
    (forceDestroy cfg s si d).mapState eraseLogs
      = forceDestroy (cfgOff cfg) (eraseLogs s) si d := by
  unfold forceDestroy
  simp only [eraseLogs_ents, eraseLogs_len, eraseLogs_cols, eraseLogs_slots, eraseLogs_version,
    eraseLogs_freeHead, nextVer_cfgOff]
  by_cases hg : s.ents.length ≠ s.len ∨ d ≥ s.len
      ∨ (s.cols.any (fun c => c.length != s.len)) = true
  · simp only [hg, if_true]; rfl
  · simp only [hg, if_false]
    cases s.slots[si]? with
    | none => rfl
    | some sl =>
      cases s.ents[d]? with
      | none => rfl
      | some tgt =>
        cases s.ents[s.len - 1]? with
        | none => rfl
        | some lastE =>
          simp only []
          cases nextVer cfg sl.ver with
          | none => rfl
          | some sv =>
            cases nextVer cfg s.version with
            | none => rfl
            | some av =>
              simp only []
              cases s.slots[lastE.slot]? with
              | none => rfl
              | some lsl => simp [eraseLogs]

theorem resolveEntity_eraseLogs (cfg : Cfg) (s : Storage α) (e : Ent) :
    (resolveEntity cfg s e).mapState eraseLogs = resolveEntity (cfgOff cfg) (eraseLogs s) e := by
  unfold resolveEntity
  simp only [eraseLogs_len, eraseLogs_capacity, eraseLogs_slots, eraseLogs_ents, cfgOff_debug]
  by_cases h0 : s.len = 0
  · simp only [h0, if_true]; rfl
  · simp only [h0, if_false]
    by_cases hc : e.slot ≥ s.capacity
    · simp only [hc, if_true]
      by_cases hdbg : cfg.debug = true
      · simp only [hdbg, if_true]; rfl
      · simp only [hdbg, if_false]; rfl
    · simp only [hc, if_false]
      cases s.slots[e.slot]? with
      | none => rfl
      | some sl =>
        simp only []
        by_cases hv : (sl.ver ≠ e.ver || sl.idx.isFree) = true
        · simp only [hv, if_true]; rfl
        · simp only [hv, if_false]
          cases sl.idx with
          | free _ => rfl
          | freeEnd => rfl
          | data d =>
            simp only []
            by_cases hdbg : cfg.debug = true
            · simp only [hdbg, if_true]
              by_cases hd : d < s.len
              · simp only [hd, if_true]
                cases s.ents[d]? with
                | none => rfl
                | some l =>
                  simp only []
                  by_cases hl : l = e
                  · simp only [hl, if_true]; rfl
                  · simp only [hl, if_false]; rfl
              · simp only [hd, if_false]; rfl
            · simp only [hdbg, if_false]; rfl

theorem resolveDirect_eraseLogs (cfg : Cfg) (s : Storage α) (d v : Nat) :
    (resolveDirect cfg s d v).mapState eraseLogs
      = resolveDirect (cfgOff cfg) (eraseLogs s) d v := by
  unfold resolveDirect
  simp only [eraseLogs_len, eraseLogs_capacity, eraseLogs_slots, eraseLogs_ents, cfgOff_debug,
    eraseLogs_version]
  by_cases h0 : s.len = 0
  · simp only [h0, if_true]; rfl
  · simp only [h0, if_false]
    by_cases hv : v = s.version
    · simp only [hv, ne_eq, not_true_eq_false, if_false]
      by_cases hd : d ≥ s.len
      · simp only [hd, if_true]
        by_cases hdbg : cfg.debug = true
        · simp only [hdbg, if_true]; rfl
        · simp only [hdbg, if_false]; rfl
      · simp only [hd, if_false]
        cases s.ents[d]? with
        | none => rfl
        | some e =>
          simp only []
          by_cases hdbg : cfg.debug = true
          · simp only [hdbg, if_true]
            by_cases hc : e.slot < s.capacity
            · simp only [hc, if_true]
              cases s.slots[e.slot]? with
              | none => rfl
              | some sl =>
                simp only []
                by_cases hm : sl.ver = e.ver ∧ sl.idx.isFree = false
                · simp only [hm, if_true]; rfl
                · simp only [hm, if_false]; rfl
            · simp only [hc, if_false]; rfl
          · simp only [hdbg, if_false]; rfl
    · simp only [ne_eq, hv, not_false_eq_true, if_true]; rfl

theorem destroyEnt_eraseLogs (cfg : Cfg) (s : Storage α) (e : Ent) :
    (destroyEnt cfg s e).mapState eraseLogs = destroyEnt (cfgOff cfg) (eraseLogs s) e := by
  unfold destroyEnt
  rw [← resolveEntity_eraseLogs]
  cases resolveEntity cfg s e with
  | ub m => rfl
  | panic m s1 => rfl
  | ok r s1 =>
    cases r with
    | none => rfl
    | some p =>
      obtain ⟨si, d⟩ := p
      simp only [Out.mapState_ok]
      rw [← forceDestroy_eraseLogs]
      cases forceDestroy cfg s si d <;> rfl

theorem destroyDirect_eraseLogs (cfg : Cfg) (s : Storage α) (d v : Nat) :
    (destroyDirect cfg s d v).mapState eraseLogs
      = destroyDirect (cfgOff cfg) (eraseLogs s) d v := by
  unfold destroyDirect
  rw [← resolveDirect_eraseLogs]
  cases resolveDirect cfg s d v with
  | ub m => rfl
  | panic m s1 => rfl
  | ok r s1 =>
    cases r with
    | none => rfl
    | some p =>
      obtain ⟨si, d'⟩ := p
      simp only [Out.mapState_ok]
      rw [← forceDestroy_eraseLogs]
      cases forceDestroy cfg s si d' <;> rfl

theorem writeCell_eraseLogs (s : Storage α) (d c : Nat) (x : α) :
    eraseLogs (writeCell s d c x) = writeCell (eraseLogs s) d c x := rfl

theorem clearEvents_eraseLogs (s : Storage α) : eraseLogs (clearEvents s) = eraseLogs s := rfl

theorem readRow_eraseLogs (s : Storage α) (d : Nat) : readRow (eraseLogs s) d = readRow s d := rfl

/-- `Clone` copies the logs too: erasing them in both the clone and the source is cloning the
log-erased source. -/
theorem cloneStorage_eraseLogs (cl : α → α) (s : Storage α) :
    ((cloneStorage cl s).mapState eraseLogs).mapVal eraseLogs = cloneStorage cl (eraseLogs s) := by
  unfold cloneStorage
  simp only [eraseLogs_slots, eraseLogs_capacity, eraseLogs_ents, eraseLogs_len, eraseLogs_cols]
  by_cases h : s.slots.length < s.capacity ∨ s.ents.length < s.len
      ∨ (s.cols.any (fun c => decide (c.length < s.len))) = true
  · simp only [h, if_true]; rfl
  · simp only [h, if_false]; rfl

theorem dropStorage_eraseLogs (s : Storage α) : dropStorage (eraseLogs s) = dropStorage s := rfl

theorem resolveForEnt_eraseLogs (cfg : Cfg) (s : Storage α) (e : Ent) :
    (resolveForEnt cfg s e).mapState eraseLogs = resolveForEnt (cfgOff cfg) (eraseLogs s) e := by
  unfold resolveForEnt
  rw [← resolveEntity_eraseLogs]
  cases resolveEntity cfg s e with
  | ub m => rfl
  | panic m s1 => rfl
  | ok r s1 =>
    cases r with
    | none => rfl
    | some p =>
      obtain ⟨si, d⟩ := p
      simp only [Out.mapState_ok, eraseLogs_len, cfgOff_maxCap, cfgOff_debug]
      by_cases hc : s.len ≤ cfg.maxCap ∧ d ≤ s.len
      · simp only [hc, and_self, if_true]; rfl
      · simp only [hc, if_false]
        by_cases hdbg : cfg.debug = true
        · simp only [hdbg, if_true]; rfl
        · simp only [hdbg, if_false]; rfl

theorem resolveForDirect_eraseLogs (cfg : Cfg) (s : Storage α) (d v : Nat) :
    (resolveForDirect cfg s d v).mapState eraseLogs
      = resolveForDirect (cfgOff cfg) (eraseLogs s) d v := by
  unfold resolveForDirect
  rw [← resolveDirect_eraseLogs]
  cases resolveDirect cfg s d v with
  | ub m => rfl
  | panic m s1 => rfl
  | ok r s1 =>
    cases r with
    | none => rfl
    | some p =>
      obtain ⟨si, d'⟩ := p
      simp only [Out.mapState_ok, eraseLogs_len, cfgOff_maxCap, cfgOff_debug]
      by_cases hc : s.len ≤ cfg.maxCap ∧ d' ≤ s.len
      · simp only [hc, and_self, if_true]; rfl
      · simp only [hc, if_false]
        by_cases hdbg : cfg.debug = true
        · simp only [hdbg, if_true]; rfl
        · simp only [hdbg, if_false]; rfl

theorem toDirectEnt_eraseLogs (cfg : Cfg) (s : Storage α) (e : Ent) :
    (toDirectEnt cfg s e).mapState eraseLogs = toDirectEnt (cfgOff cfg) (eraseLogs s) e := by
  unfold toDirectEnt
  rw [← resolveEntity_eraseLogs]
  cases resolveEntity cfg s e with
  | ub m => rfl
  | panic m s1 => rfl
  | ok r s1 =>
    cases r with
    | none => rfl
    | some p => rfl

theorem toDirectDirect_eraseLogs (cfg : Cfg) (s : Storage α) (d v : Nat) :
    (toDirectDirect cfg s d v).mapState eraseLogs
      = toDirectDirect (cfgOff cfg) (eraseLogs s) d v := by
  unfold toDirectDirect
  rw [← resolveDirect_eraseLogs]
  cases resolveDirect cfg s d v with
  | ub m => rfl
  | panic m s1 => rfl
  | ok r s1 =>
    cases r with
    | none => rfl
    | some p => rfl


/-! ### World level -/

/-- Forget the event logs of every archetype. -/
def World.eraseLogs (w : World α) : World α := { w with archs := w.archs.map Gecs.eraseLogs }

def WOut.mapWorld {β : Type} (f : World α → World α) : WOut α β → WOut α β
  | .ok b w => .ok b (f w)
  | .panic m w => .panic m (f w)
  | .ub m => .ub m

def Res.mapWorld (f : World α → World α) : Res α → Res α
  | .ok w => .ok (f w)
  | .panic m w => .panic m (f w)
  | .ub m => .ub m

@[simp] theorem World.eraseLogs_ids (w : World α) : w.eraseLogs.ids = w.ids := rfl

@[simp] theorem World.eraseLogs_get (w : World α) (a : Nat) :
    w.eraseLogs.archs[a]? = (w.archs[a]?).map Gecs.eraseLogs := by
  simp [World.eraseLogs]

theorem World.setArch_eraseLogs (w : World α) (a : Nat) (s : Storage α) :
    (w.setArch a s).eraseLogs = w.eraseLogs.setArch a (Gecs.eraseLogs s) := by
  simp [World.eraseLogs, World.setArch, List.map_set]

theorem liftArch_eraseLogs {β : Type} (w : World α) (a : Nat)
    (f f' : Storage α → Out (Storage α) β)
    (hf : ∀ s, (f s).mapState eraseLogs = f' (eraseLogs s)) :
    (liftArch w a f).mapWorld World.eraseLogs = liftArch w.eraseLogs a f' := by
  unfold liftArch
  rw [World.eraseLogs_get]
  cases w.archs[a]? with
  | none => rfl
  | some s =>
    simp only [Option.map_some]
    rw [← hf s]
    cases f s with
    | ok b s' => simp only [Out.mapState_ok, WOut.mapWorld, World.setArch_eraseLogs]
    | panic m s' => simp only [Out.mapState_panic, WOut.mapWorld, World.setArch_eraseLogs]
    | ub m => rfl

theorem lookup_eraseLogs {β : Type} (w : World α) (r : Route)
    (f f' : Storage α → Key → Out (Storage α) (Option β))
    (hf : ∀ s k, (f s k).mapState eraseLogs = f' (eraseLogs s) k) :
    (lookup w r f).mapWorld World.eraseLogs = lookup w.eraseLogs r f' := by
  cases r with
  | absent => rfl
  | panic m => rfl
  | arch a k => exact liftArch_eraseLogs w a _ _ (fun s => hf s k)

theorem storageResolve_eraseLogs (cfg : Cfg) (s : Storage α) (direct : Bool) (k : Key) :
    (storageResolve cfg s direct k).mapState eraseLogs
      = storageResolve (cfgOff cfg) (eraseLogs s) direct k := by
  cases direct
  · exact resolveForEnt_eraseLogs cfg s _
  · exact resolveForDirect_eraseLogs cfg s _ _

theorem storageDestroy_eraseLogs (cfg : Cfg) (s : Storage α) (direct : Bool) (k : Key) :
    (storageDestroy cfg s direct k).mapState eraseLogs
      = storageDestroy (cfgOff cfg) (eraseLogs s) direct k := by
  cases direct
  · exact destroyEnt_eraseLogs cfg s _
  · exact destroyDirect_eraseLogs cfg s _ _

theorem storageToDirect_eraseLogs (cfg : Cfg) (idA : Nat) (s : Storage α) (direct : Bool)
    (k : Key) :
    (storageToDirect cfg idA s direct k).mapState eraseLogs
      = storageToDirect (cfgOff cfg) idA (eraseLogs s) direct k := by
  unfold storageToDirect
  cases direct
  · simp only [Bool.false_eq_true, if_false]
    rw [← toDirectEnt_eraseLogs]
    cases toDirectEnt cfg s k.toEnt with
    | ub m => rfl
    | panic m s1 => rfl
    | ok r s1 =>
      cases r with
      | none => rfl
      | some p => rfl
  · simp only [if_true]
    rw [← toDirectDirect_eraseLogs]
    cases toDirectDirect cfg s k.index k.ver with
    | ub m => rfl
    | panic m s1 => rfl
    | ok r s1 =>
      cases r with
      | none => rfl
      | some p => rfl

theorem storageFetch_eraseLogs (cfg : Cfg) (s : Storage α) (direct : Bool) (k : Key) :
    (storageFetch cfg s direct k).mapState eraseLogs
      = storageFetch (cfgOff cfg) (eraseLogs s) direct k := by
  unfold storageFetch
  rw [← storageResolve_eraseLogs]
  cases storageResolve cfg s direct k with
  | ub m => rfl
  | panic m s1 => rfl
  | ok r s1 =>
    cases r with
    | none => rfl
    | some d =>
      simp only [Out.mapState_ok, eraseLogs_ents, readRow_eraseLogs]
      cases s.ents[d]? with
      | none => rfl
      | some e =>
        cases readRow s d with
        | none => rfl
        | some row => rfl

theorem World.contains_eraseLogs (cfg : Cfg) (w : World α) (r : Route) (direct : Bool) :
    (w.contains cfg r direct).mapWorld World.eraseLogs
      = w.eraseLogs.contains (cfgOff cfg) r direct :=
  lookup_eraseLogs w r _ _ (fun s k => storageResolve_eraseLogs cfg s direct k)

theorem World.destroy_eraseLogs (cfg : Cfg) (w : World α) (r : Route) (direct : Bool) :
    (w.destroy cfg r direct).mapWorld World.eraseLogs
      = w.eraseLogs.destroy (cfgOff cfg) r direct :=
  lookup_eraseLogs w r _ _ (fun s k => storageDestroy_eraseLogs cfg s direct k)

theorem World.fetch_eraseLogs (cfg : Cfg) (w : World α) (r : Route) (direct : Bool) :
    (w.fetch cfg r direct).mapWorld World.eraseLogs
      = w.eraseLogs.fetch (cfgOff cfg) r direct :=
  lookup_eraseLogs w r _ _ (fun s k => storageFetch_eraseLogs cfg s direct k)

theorem World.toDirect_eraseLogs (cfg : Cfg) (w : World α) (r : Route) (direct : Bool) :
    (w.toDirect cfg r direct).mapWorld World.eraseLogs
      = w.eraseLogs.toDirect (cfgOff cfg) r direct := by
  unfold World.toDirect
  cases r with
  | absent => rfl
  | panic m => rfl
  | arch a k =>
    exact lookup_eraseLogs w _ _ _ (fun s k => storageToDirect_eraseLogs cfg _ s direct k)

theorem World.create_eraseLogs (cfg : Cfg) (g : Nat → Nat) (w : World α) (a : Nat)
    (row : List α) :
    (w.create cfg g a row).mapWorld World.eraseLogs = w.eraseLogs.create (cfgOff cfg) g a row :=
  liftArch_eraseLogs w a _ _ (fun s => push_eraseLogs cfg g s row)

theorem World.createWithin_eraseLogs (cfg : Cfg) (w : World α) (a : Nat) (row : List α) :
    (w.createWithin cfg a row).mapWorld World.eraseLogs
      = w.eraseLogs.createWithin (cfgOff cfg) a row :=
  liftArch_eraseLogs w a _ _ (fun s => pushWithin_eraseLogs cfg s row)


/-! ### Query loops -/

theorem bindArgs_eraseLogs (idA : Nat) (s : Storage α) (version idx : Nat) (ps : List Param) :
    bindArgs idA (eraseLogs s) version idx ps = bindArgs idA s version idx ps := by
  induction ps with
  | nil => rfl
  | cons p ps ih => simp only [bindArgs, ih, eraseLogs_cols, eraseLogs_ents]

theorem applyWrites_eraseLogs (idx : Nat) :
    ∀ (ps : List Param) (ws : List (Option α)) (s : Storage α),
      applyWrites (eraseLogs s) idx ps ws = eraseLogs (applyWrites s idx ps ws) := by
  intro ps
  induction ps with
  | nil => intro ws s; simp only [applyWrites]
  | cons p ps ih =>
    intro ws s
    cases ws with
    | nil => simp only [applyWrites]
    | cons w ws =>
      by_cases hc : ∃ c x, p = .comp c true ∧ w = some x
      · obtain ⟨c, x, rfl, rfl⟩ := hc
        simp only [applyWrites]
        rw [← ih ws (writeCell s idx c x)]; rfl
      · have h1 : ∀ t : Storage α,
            applyWrites t idx (p :: ps) (w :: ws) = applyWrites t idx ps ws := by
          intro t
          rw [applyWrites]
          intro c x hp hw; exact hc ⟨c, x, hp, hw⟩
        rw [h1, h1]; exact ih ws s

def LoopOut.mapState (f : Storage α → Storage α) : LoopOut σ α → LoopOut σ α
  | .done st s => .done st (f s)
  | .stop st s => .stop st (f s)
  | .panic m st s => .panic m st (f s)
  | .ub m => .ub m

def QOut.mapWorld (f : World α → World α) : QOut σ α → QOut σ α
  | .ok st w => .ok st (f w)
  | .panic m st w => .panic m st (f w)
  | .ub m => .ub m

def FOut.mapWorld {ρ : Type} (f : World α → World α) : FOut σ α ρ → FOut σ α ρ
  | .ok r st w => .ok r st (f w)
  | .panic m st w => .panic m st (f w)
  | .ub m => .ub m

theorem iterLoop_eraseLogs (idA : Nat) (ps : List Param) (f : Closure σ α Step) (version : Nat) :
    ∀ (idxs : List Nat) (st : σ) (s : Storage α),
      (iterLoop idA ps f version idxs st s).mapState eraseLogs
        = iterLoop idA ps f version idxs st (eraseLogs s) := by
  intro idxs
  induction idxs with
  | nil => intro st s; rfl
  | cons idx rest ih =>
    intro st s
    rw [iterLoop, iterLoop, bindArgs_eraseLogs]
    cases bindArgs idA s version idx ps with
    | none => rfl
    | some args =>
      simp only []
      cases f st args with
      | panic st' ws => simp only [LoopOut.mapState, applyWrites_eraseLogs]
      | ret st' ws r =>
        cases r with
        | brk => simp only [LoopOut.mapState, applyWrites_eraseLogs]
        | cont => simp only [applyWrites_eraseLogs]; exact ih st' _

theorem slicesValid_eraseLogs (cfg : Cfg) (s : Storage α) :
    slicesValid (cfgOff cfg) (eraseLogs s) = slicesValid cfg s := rfl

theorem iterQuery_eraseLogs (cfg : Cfg) (f : Closure σ α Step) :
    ∀ (q : Query) (st : σ) (w : World α),
      (iterQuery cfg f q st w).mapWorld World.eraseLogs
        = iterQuery (cfgOff cfg) f q st w.eraseLogs := by
  intro q
  induction q with
  | nil => intro st w; rfl
  | cons qa rest ih =>
    intro st w
    rw [iterQuery, iterQuery, World.eraseLogs_get]
    cases w.archs[qa.a]? with
    | none => rfl
    | some s =>
      simp only [Option.map_some, slicesValid_eraseLogs, World.eraseLogs_ids, eraseLogs_version,
        eraseLogs_len]
      by_cases hv : slicesValid cfg s = true
      · simp only [hv, if_true]
        rw [← iterLoop_eraseLogs]
        cases iterLoop (w.ids.getD qa.a ID_RANGE) qa.params f s.version (List.range s.len) st s with
        | done st' s' =>
          simp only [LoopOut.mapState, ← World.setArch_eraseLogs]; exact ih st' _
        | stop st' s' => simp only [LoopOut.mapState, QOut.mapWorld, World.setArch_eraseLogs]
        | panic m st' s' => simp only [LoopOut.mapState, QOut.mapWorld, World.setArch_eraseLogs]
        | ub m => rfl
      · simp only [hv, if_false]; rfl

theorem destroyLoop_eraseLogs (cfg : Cfg) (idA : Nat) (ps : List Param) (f : Closure σ α Step4) :
    ∀ (idxs : List Nat) (st : σ) (s : Storage α),
      (destroyLoop cfg idA ps f idxs st s).mapState eraseLogs
        = destroyLoop (cfgOff cfg) idA ps f idxs st (eraseLogs s) := by
  intro idxs
  induction idxs with
  | nil => intro st s; rfl
  | cons idx rest ih =>
    intro st s
    rw [destroyLoop, destroyLoop, slicesValid_eraseLogs, eraseLogs_version, bindArgs_eraseLogs]
    by_cases hv : slicesValid cfg s = true
    · simp only [hv, if_true]
      cases bindArgs idA s s.version idx ps with
      | none => rfl
      | some args =>
        simp only []
        cases f st args with
        | panic st' ws => simp only [LoopOut.mapState, applyWrites_eraseLogs]
        | ret st' ws r =>
          simp only [applyWrites_eraseLogs, eraseLogs_ents]
          cases r with
          | cont => exact ih st' _
          | brk => rfl
          | contDestroy =>
            simp only []
            cases (applyWrites s idx ps ws).ents[idx]? with
            | none => rfl
            | some e =>
              simp only []
              rw [← destroyEnt_eraseLogs]
              cases destroyEnt cfg (applyWrites s idx ps ws) e with
              | ok r s2 => simp only [Out.mapState_ok, reduceCtorEq, if_false]; exact ih st' _
              | panic m s2 => rfl
              | ub m => rfl
          | brkDestroy =>
            simp only []
            cases (applyWrites s idx ps ws).ents[idx]? with
            | none => rfl
            | some e =>
              simp only []
              rw [← destroyEnt_eraseLogs]
              cases destroyEnt cfg (applyWrites s idx ps ws) e with
              | ok r s2 => rfl
              | panic m s2 => rfl
              | ub m => rfl
    · simp only [hv, if_false]; rfl


theorem iterDestroyQuery_eraseLogs (cfg : Cfg) (f : Closure σ α Step4) :
    ∀ (q : Query) (st : σ) (w : World α),
      (iterDestroyQuery cfg f q st w).mapWorld World.eraseLogs
        = iterDestroyQuery (cfgOff cfg) f q st w.eraseLogs := by
  intro q
  induction q with
  | nil => intro st w; rfl
  | cons qa rest ih =>
    intro st w
    rw [iterDestroyQuery, iterDestroyQuery, World.eraseLogs_get]
    cases w.archs[qa.a]? with
    | none => rfl
    | some s =>
      simp only [Option.map_some, World.eraseLogs_ids, eraseLogs_len]
      rw [← destroyLoop_eraseLogs]
      cases destroyLoop cfg (w.ids.getD qa.a ID_RANGE) qa.params f (List.range s.len).reverse st s with
      | done st' s' =>
        simp only [LoopOut.mapState, ← World.setArch_eraseLogs]; exact ih st' _
      | stop st' s' => simp only [LoopOut.mapState, QOut.mapWorld, World.setArch_eraseLogs]
      | panic m st' s' => simp only [LoopOut.mapState, QOut.mapWorld, World.setArch_eraseLogs]
      | ub m => rfl

theorem routeWorld_cfgOff (cfg : Cfg) (ids : List Nat) (h : Handle) :
    routeWorld (cfgOff cfg) ids h = routeWorld cfg ids h := rfl

theorem KeyUse.route_cfgOff (cfg : Cfg) (ids : List Nat) (u : KeyUse) :
    u.route (cfgOff cfg) ids = u.route cfg ids := rfl

theorem findQuery_eraseLogs {ρ : Type} (cfg : Cfg) (q : Query) (f : Closure σ α ρ) (h : Handle)
    (st : σ) (w : World α) :
    (findQuery cfg q f h st w).mapWorld World.eraseLogs
      = findQuery (cfgOff cfg) q f h st w.eraseLogs := by
  unfold findQuery
  rw [routeWorld_cfgOff, World.eraseLogs_ids]
  cases routeWorld cfg w.ids h with
  | absent => rfl
  | panic m => rfl
  | arch a k =>
    simp only []
    cases q.find? (fun qa => qa.a == a) with
    | none => rfl
    | some qa =>
      simp only [World.eraseLogs_get]
      cases w.archs[a]? with
      | none => rfl
      | some s =>
        simp only [Option.map_some]
        rw [← storageResolve_eraseLogs]
        cases storageResolve cfg s h.kind.isDirect k with
        | ub m => rfl
        | panic m s1 => rfl
        | ok r s1 =>
          cases r with
          | none => rfl
          | some d =>
            simp only [Out.mapState_ok, slicesValid_eraseLogs, bindArgs_eraseLogs,
              eraseLogs_version]
            by_cases hv : slicesValid cfg s = true
            · simp only [hv, if_true]
              cases bindArgs (w.ids.getD a ID_RANGE) s s.version d qa.params with
              | none => rfl
              | some args =>
                simp only []
                cases f st args with
                | panic st' ws =>
                  simp only [FOut.mapWorld, World.setArch_eraseLogs, applyWrites_eraseLogs]
                | ret st' ws r =>
                  simp only [FOut.mapWorld, World.setArch_eraseLogs, applyWrites_eraseLogs]
            · simp only [hv, if_false]; rfl

theorem clone_go_eraseLogs (cl : α → α) (w : World α) :
    ∀ (l acc : List (Storage α)),
      (World.clone.go cl w l acc).mapVal World.eraseLogs
        = World.clone.go cl w.eraseLogs (l.map eraseLogs) (acc.map eraseLogs) := by
  intro l
  induction l with
  | nil => intro acc; rfl
  | cons s l ih =>
    intro acc
    simp only [List.map_cons, World.clone.go]
    rw [← cloneStorage_eraseLogs]
    cases cloneStorage cl s with
    | ok s' s0 =>
      show (World.clone.go cl w l (acc ++ [s'])).mapVal World.eraseLogs
        = World.clone.go cl w.eraseLogs (l.map eraseLogs) (acc.map eraseLogs ++ [eraseLogs s'])
      rw [ih]; simp
    | panic m s0 => rfl
    | ub m => rfl

theorem World.clone_eraseLogs (cl : α → α) (w : World α) :
    (w.clone cl).mapVal World.eraseLogs = w.eraseLogs.clone cl := by
  unfold World.clone
  rw [clone_go_eraseLogs]; rfl

theorem World.clearEvents_eraseLogs (w : World α) :
    w.clearEvents.eraseLogs = w.eraseLogs.clearEvents := by
  simp only [World.clearEvents, World.eraseLogs, List.map_map]
  congr 1

/-- The `events` feature at the level of single operations: any operation — arbitrary handles,
arbitrary closures — run with the feature on or off, has, up to the event logs, the outcome
it has with the feature off. -/
theorem stepOp_eraseLogs (cfg : Cfg) (w : World α) (op : Op α) :
    (stepOp cfg w op).mapWorld World.eraseLogs = stepOp (cfgOff cfg) w.eraseLogs op := by
  cases op with
  | create a row g =>
    simp only [stepOp]
    rw [← World.create_eraseLogs]
    cases w.create cfg g a row <;> rfl
  | createWithin a row =>
    simp only [stepOp]
    rw [← World.createWithin_eraseLogs]
    cases w.createWithin cfg a row <;> rfl
  | destroy u =>
    simp only [stepOp, KeyUse.route_cfgOff, World.eraseLogs_ids]
    rw [← World.destroy_eraseLogs]
    cases w.destroy cfg (u.route cfg w.ids) u.h.kind.isDirect <;> rfl
  | write u c x =>
    simp only [stepOp, KeyUse.route_cfgOff, World.eraseLogs_ids]
    rw [← World.fetch_eraseLogs]
    cases w.fetch cfg (u.route cfg w.ids) u.h.kind.isDirect with
    | ub m => rfl
    | panic m w1 => rfl
    | ok r w1 =>
      cases r with
      | none => rfl
      | some t =>
        obtain ⟨d, e, row⟩ := t
        simp only [WOut.mapWorld]
        cases u.route cfg w.ids with
        | absent => rfl
        | panic m => rfl
        | arch a k =>
          simp only [World.eraseLogs_get]
          cases w.archs[a]? with
          | none => rfl
          | some s =>
            simp only [Option.map_some, Res.mapWorld, World.setArch_eraseLogs]
            rfl
  | iter q σ f st =>
    simp only [stepOp]
    rw [← iterQuery_eraseLogs]
    cases iterQuery cfg f q st w <;> rfl
  | iterDestroy q σ f st =>
    simp only [stepOp]
    rw [← iterDestroyQuery_eraseLogs]
    cases iterDestroyQuery cfg f q st w <;> rfl
  | find q σ f h st =>
    simp only [stepOp]
    rw [← findQuery_eraseLogs]
    cases findQuery cfg q f h st w <;> rfl
  | clearEvents oa =>
    cases oa with
    | none => simp only [stepOp, Res.mapWorld, World.clearEvents_eraseLogs]
    | some a =>
      simp only [stepOp, World.eraseLogs_get]
      cases w.archs[a]? with
      | none => rfl
      | some s => simp only [Option.map_some, Res.mapWorld, World.setArch_eraseLogs]; rfl
  | cloneSwitch cl =>
    simp only [stepOp]
    rw [← World.clone_eraseLogs]
    cases w.clone cl <;> rfl

/-- … and of whole histories: `run` with the feature on (or off), logs erased at the end, is
`run` with the feature off on the log-erased world.  In particular the feature never changes
whether a history reaches `ub` (`none`), which handles are issued, which operations panic,
or any value. -/
theorem run_eraseLogs (cfg : Cfg) :
    ∀ (ops : List (Op α)) (w : World α),
      (run cfg w ops).map World.eraseLogs = run (cfgOff cfg) w.eraseLogs ops := by
  intro ops
  induction ops with
  | nil => intro w; rfl
  | cons op ops ih =>
    intro w
    simp only [run]
    rw [← stepOp_eraseLogs]
    cases stepOp cfg w op with
    | ok w' => exact ih w'
    | panic m w' => exact ih w'
    | ub m => rfl


/-! ## D. `wrapping_version` only matters at `vmax` -/

/-- Below `vmax` the next version is the successor whatever the feature says. -/
theorem nextVer_of_lt (cfg : Cfg) {v : Nat} (h : v < cfg.vmax) : nextVer cfg v = some (v + 1) := by
  simp [nextVer, h]

theorem nextVer_wrapping_agree (cfg : Cfg) {v : Nat} (h : v < cfg.vmax) :
    nextVer { cfg with wrapping := true } v = nextVer { cfg with wrapping := false } v := by
  rw [nextVer_of_lt _ (by exact h), nextVer_of_lt _ (by exact h)]

/-- With the feature the next version always exists. -/
theorem nextVer_wrapping_some {cfg : Cfg} (hw : cfg.wrapping = true) (v : Nat) :
    ∃ w, nextVer cfg v = some w := by
  unfold nextVer
  by_cases h : v < cfg.vmax
  · exact ⟨v + 1, by simp only [h, if_true]⟩
  · exact ⟨VERSION_START, by simp only [h, if_false, hw, if_true]⟩

/-- `force_destroy` reads the configuration only through `events` and the two `nextVer`
calls. -/
theorem forceDestroy_congr_cfg {cfg cfg' : Cfg} (s : Storage α) (si d : Nat)
    (hev : cfg'.events = cfg.events)
    (h1 : ∀ sl, s.slots[si]? = some sl → nextVer cfg' sl.ver = nextVer cfg sl.ver)
    (h2 : nextVer cfg' s.version = nextVer cfg s.version) :
    forceDestroy cfg' s si d = forceDestroy cfg s si d := by
  unfold forceDestroy
  rw [h2, hev]
  cases hs : s.slots[si]? with
  | none => rfl
  | some sl =>
    cases s.ents[d]? with
    | none => rfl
    | some tgt =>
      cases s.ents[s.len - 1]? with
      | none => rfl
      | some lastE =>
        simp only []
        rw [h1 sl hs]

theorem forceDestroy_wrapping_agree (cfg : Cfg) (s : Storage α) (si d : Nat)
    (hsl : ∀ sl, s.slots[si]? = some sl → sl.ver < cfg.vmax) (hav : s.version < cfg.vmax) :
    forceDestroy { cfg with wrapping := true } s si d
      = forceDestroy { cfg with wrapping := false } s si d :=
  forceDestroy_congr_cfg s si d rfl
    (fun sl h => nextVer_wrapping_agree cfg (hsl sl h)) (nextVer_wrapping_agree cfg hav)

theorem destroyEnt_wrapping_agree {cfg : Cfg} {s : Storage α} (h : Inv cfg s) (e : Ent)
    (hsv : e.ver < cfg.vmax) (hav : s.version < cfg.vmax) :
    destroyEnt { cfg with wrapping := true } s e = destroyEnt { cfg with wrapping := false } s e := by
  have hr : ∀ b, resolveEntity { cfg with wrapping := b } s e = resolveEntity cfg s e := fun _ => rfl
  unfold destroyEnt
  rw [hr true, hr false]
  rcases resolveEntity_spec cfg s e h with h1 | ⟨d, h1, hd⟩ | ⟨msg, h1, _⟩
  · rw [h1]
  · rw [h1]; simp only []
    have hsl := h.dense d e hd
    rw [forceDestroy_wrapping_agree cfg s e.slot d
      (fun sl hs => by rw [hsl] at hs; cases hs; exact hsv) hav]
  · rw [h1]

theorem destroyDirect_wrapping_agree {cfg : Cfg} {s : Storage α} (h : Inv cfg s) (d v : Nat)
    (hsv : ∀ t, s.ents[d]? = some t → t.ver < cfg.vmax) (hav : s.version < cfg.vmax) :
    destroyDirect { cfg with wrapping := true } s d v
      = destroyDirect { cfg with wrapping := false } s d v := by
  have hr : ∀ b, resolveDirect { cfg with wrapping := b } s d v = resolveDirect cfg s d v :=
    fun _ => rfl
  unfold destroyDirect
  rw [hr true, hr false]
  rcases resolveDirect_spec cfg s d v h with h1 | ⟨t, h1, _, hd⟩ | ⟨msg, h1, _⟩
  · rw [h1]
  · rw [h1]; simp only []
    have hsl := h.dense d t hd
    rw [forceDestroy_wrapping_agree cfg s t.slot d
      (fun sl hs => by rw [hsl] at hs; cases hs; exact hsv t hd) hav]
  · rw [h1]

/-- With `wrapping_version`, `force_destroy` of a live entity never panics and keeps `Inv`,
also at `vmax`. -/
theorem forceDestroy_wrapping_total {cfg : Cfg} (hw : cfg.wrapping = true) {s : Storage α}
    (h : Inv cfg s) {si d v : Nat} (hsl : s.slots[si]? = some ⟨.data d, v⟩) :
    ∃ row s', forceDestroy cfg s si d = .ok row s' ∧ Inv cfg s' ∧ s'.len = s.len - 1
      ∧ s'.capacity = s.capacity := by
  obtain ⟨sv, hsv⟩ := nextVer_wrapping_some hw v
  obtain ⟨av, hav⟩ := nextVer_wrapping_some hw s.version
  obtain ⟨row, s', h1, h2, _, _, h5, h6, _⟩ := forceDestroy_inv cfg s si d v h hsl sv av hsv hav
  exact ⟨row, s', h1, h2, h5, h6⟩

/-! ## E. Debug assertions never fire on keys that are in range -/

theorem resolveEntity_in_range {cfg : Cfg} {s : Storage α} (h : Inv cfg s) (e : Ent)
    (hk : e.slot < s.capacity ∨ s.len = 0) :
    (∃ d, s.ents[d]? = some e ∧ resolveEntity cfg s e = .ok (some (e.slot, d)) s)
    ∨ (e ∉ s.ents ∧ resolveEntity cfg s e = .ok none s) := by
  by_cases hm : e ∈ s.ents
  · obtain ⟨d, hd⟩ := List.getElem?_of_mem hm
    exact .inl ⟨d, hd, resolveEntity_of_mem h hd⟩
  · rcases resolveEntity_of_not_mem cfg s e h hm with h1 | ⟨_, _, h3, h4⟩
    · exact .inr ⟨hm, h1⟩
    · rcases hk with hk | hk
      · omega
      · exact absurd hk h3

theorem resolveEntity_debug_agree {cfg : Cfg} {s : Storage α} (h : Inv cfg s) (e : Ent)
    (hk : e.slot < s.capacity ∨ s.len = 0) :
    resolveEntity { cfg with debug := true } s e = resolveEntity { cfg with debug := false } s e := by
  have ht : Inv { cfg with debug := true } s := (Inv.debug_iff true).mpr h
  have hf : Inv { cfg with debug := false } s := (Inv.debug_iff false).mpr h
  rcases resolveEntity_in_range ht e hk with ⟨d, hd, h1⟩ | ⟨hn, h1⟩
  · rw [h1, resolveEntity_of_mem hf hd]
  · rcases resolveEntity_in_range hf e hk with ⟨d, hd, _⟩ | ⟨_, h2⟩
    · exact absurd (List.mem_of_getElem? hd) hn
    · rw [h1, h2]

theorem resolveDirect_in_range {cfg : Cfg} {s : Storage α} (h : Inv cfg s) (d v : Nat)
    (hk : d < s.len ∨ v ≠ s.version ∨ s.len = 0) :
    (∃ t, v = s.version ∧ s.ents[d]? = some t
        ∧ resolveDirect cfg s d v = .ok (some (t.slot, d)) s)
    ∨ (¬ (v = s.version ∧ d < s.len) ∧ resolveDirect cfg s d v = .ok none s) := by
  by_cases hc : v = s.version ∧ d < s.len
  · obtain ⟨rfl, hd⟩ := hc
    have hlt : d < s.ents.length := by rw [h.entsLen]; exact hd
    have hent : s.ents[d]? = some s.ents[d] := List.getElem?_eq_getElem hlt
    exact .inl ⟨_, rfl, hent, resolveDirect_of_lt h hent⟩
  · rcases resolveDirect_of_not cfg s d v h hc with h1 | ⟨_, _, h3, h4, h5⟩
    · exact .inr ⟨hc, h1⟩
    · rcases hk with hk | hk | hk
      · omega
      · exact absurd h4 hk
      · exact absurd hk h3

theorem resolveDirect_debug_agree {cfg : Cfg} {s : Storage α} (h : Inv cfg s) (d v : Nat)
    (hk : d < s.len ∨ v ≠ s.version ∨ s.len = 0) :
    resolveDirect { cfg with debug := true } s d v
      = resolveDirect { cfg with debug := false } s d v := by
  have ht : Inv { cfg with debug := true } s := (Inv.debug_iff true).mpr h
  have hf : Inv { cfg with debug := false } s := (Inv.debug_iff false).mpr h
  rcases resolveDirect_in_range ht d v hk with ⟨t, hv, hd, h1⟩ | ⟨hn, h1⟩
  · subst hv
    rw [h1, resolveDirect_of_lt hf hd]
  · rcases resolveDirect_in_range hf d v hk with ⟨t, hv, hd, _⟩ | ⟨_, h2⟩
    · exact absurd ⟨hv, h.ents_lt hd⟩ hn
    · rw [h1, h2]

/-- Out-of-range forged `Entity` words: the only difference between the profiles. -/
theorem resolveEntity_out_of_range (cfg : Cfg) (s : Storage α) (e : Ent) (h0 : s.len ≠ 0)
    (hc : e.slot ≥ s.capacity) :
    resolveEntity { cfg with debug := true } s e
        = .panic "debug_assert: invalid entity handle" s
    ∧ resolveEntity { cfg with debug := false } s e = .ok none s := by
  constructor <;> simp [resolveEntity, h0, hc]

/-- Out-of-range forged `EntityDirect` words with the current version. -/
theorem resolveDirect_out_of_range (cfg : Cfg) (s : Storage α) (d : Nat) (h0 : s.len ≠ 0)
    (hd : d ≥ s.len) :
    resolveDirect { cfg with debug := true } s d s.version
        = .panic "debug_assert: invalid entity handle" s
    ∧ resolveDirect { cfg with debug := false } s d s.version = .ok none s := by
  constructor <;> simp [resolveDirect, h0, hd]

theorem forceDestroy_debug (cfg : Cfg) (b : Bool) (s : Storage α) (si d : Nat) :
    forceDestroy { cfg with debug := b } s si d = forceDestroy cfg s si d := rfl

theorem destroyEnt_debug_agree {cfg : Cfg} {s : Storage α} (h : Inv cfg s) (e : Ent)
    (hk : e.slot < s.capacity ∨ s.len = 0) :
    destroyEnt { cfg with debug := true } s e = destroyEnt { cfg with debug := false } s e := by
  unfold destroyEnt
  rw [resolveEntity_debug_agree h e hk]
  simp only [forceDestroy_debug]

theorem destroyDirect_debug_agree {cfg : Cfg} {s : Storage α} (h : Inv cfg s) (d v : Nat)
    (hk : d < s.len ∨ v ≠ s.version ∨ s.len = 0) :
    destroyDirect { cfg with debug := true } s d v
      = destroyDirect { cfg with debug := false } s d v := by
  unfold destroyDirect
  rw [resolveDirect_debug_agree h d v hk]
  simp only [forceDestroy_debug]


/-! ## F. Lifting a configuration difference to `stepOp` and `run`

Two configurations `c₁`, `c₂` are compared relative to a set `X` of panic messages (and,
if `u`, `ub`): the outcomes at which they are ALLOWED to differ ("excused").  If the storage
operations agree whenever the `c₁` outcome is not excused (`OpsSim`), so do all world
operations, `stepOp` and `run`. -/

def Out.excused {τ β : Type} (X : String → Bool) (u : Bool) : Out τ β → Bool
  | .ok _ _ => false
  | .panic m _ => X m
  | .ub _ => u

def WOut.excused {β : Type} (X : String → Bool) (u : Bool) : WOut α β → Bool
  | .ok _ _ => false
  | .panic m _ => X m
  | .ub _ => u

def LoopOut.excused (X : String → Bool) (u : Bool) : LoopOut σ α → Bool
  | .done _ _ => false
  | .stop _ _ => false
  | .panic m _ _ => X m
  | .ub _ => u

def QOut.excused (X : String → Bool) (u : Bool) : QOut σ α → Bool
  | .ok _ _ => false
  | .panic m _ _ => X m
  | .ub _ => u

def FOut.excused {ρ : Type} (X : String → Bool) (u : Bool) : FOut σ α ρ → Bool
  | .ok _ _ _ => false
  | .panic m _ _ => X m
  | .ub _ => u

def Res.excused (X : String → Bool) (u : Bool) : Res α → Bool
  | .ok _ => false
  | .panic m _ => X m
  | .ub _ => u

def Route.excused (X : String → Bool) : Route → Bool
  | .panic m => X m
  | _ => false

theorem liftArch_agree {β : Type} (X : String → Bool) (u : Bool) (w : World α) (a : Nat)
    (f₁ f₂ : Storage α → Out (Storage α) β)
    (hf : ∀ s, (f₁ s).excused X u = false → f₁ s = f₂ s)
    (h : (liftArch w a f₁).excused X u = false) : liftArch w a f₁ = liftArch w a f₂ := by
  unfold liftArch at h ⊢
  cases hs : w.archs[a]? with
  | none => rfl
  | some s =>
    rw [hs] at h
    simp only [] at h ⊢
    have h1 : (f₁ s).excused X u = false := by
      cases hf1 : f₁ s with
      | ok b s' => rfl
      | panic m s' => rw [hf1] at h; exact h
      | ub m => rw [hf1] at h; exact h
    rw [← hf s h1]

theorem lookup_agree {β : Type} (X : String → Bool) (u : Bool) (w : World α) (r : Route)
    (f₁ f₂ : Storage α → Key → Out (Storage α) (Option β))
    (hf : ∀ s k, (f₁ s k).excused X u = false → f₁ s k = f₂ s k)
    (h : (lookup w r f₁).excused X u = false) : lookup w r f₁ = lookup w r f₂ := by
  cases r with
  | absent => rfl
  | panic m => rfl
  | arch a k => exact liftArch_agree X u w a _ _ (fun s => hf s k) h

/-- What the lift needs to know about the two configurations at storage level. -/
structure OpsSim (α : Type) (X : String → Bool) (u : Bool) (c₁ c₂ : Cfg) : Prop where
  slices : ∀ s : Storage α, slicesValid c₁ s = slicesValid c₂ s
  push : ∀ (g : Nat → Nat) (s : Storage α) (row : List α), push c₁ g s row = push c₂ g s row
  pushWithin : ∀ (s : Storage α) (row : List α), pushWithin c₁ s row = pushWithin c₂ s row
  route : ∀ (ids : List Nat) (ku : KeyUse),
    (ku.route c₁ ids).excused X = false → ku.route c₁ ids = ku.route c₂ ids
  routeWorld : ∀ (ids : List Nat) (h : Handle),
    (Gecs.routeWorld c₁ ids h).excused X = false → Gecs.routeWorld c₁ ids h = Gecs.routeWorld c₂ ids h
  sresolve : ∀ (s : Storage α) (direct : Bool) (k : Key),
    (storageResolve c₁ s direct k).excused X u = false →
      storageResolve c₁ s direct k = storageResolve c₂ s direct k
  destroyEnt : ∀ (s : Storage α) (e : Ent),
    (Gecs.destroyEnt c₁ s e).excused X u = false → Gecs.destroyEnt c₁ s e = Gecs.destroyEnt c₂ s e
  destroyDirect : ∀ (s : Storage α) (d v : Nat),
    (Gecs.destroyDirect c₁ s d v).excused X u = false →
      Gecs.destroyDirect c₁ s d v = Gecs.destroyDirect c₂ s d v

variable {X : String → Bool} {u : Bool} {c₁ c₂ : Cfg}

theorem OpsSim.sdestroy (S : OpsSim α X u c₁ c₂) (s : Storage α) (direct : Bool) (k : Key)
    (h : (storageDestroy c₁ s direct k).excused X u = false) :
    storageDestroy c₁ s direct k = storageDestroy c₂ s direct k := by
  cases direct
  · exact S.destroyEnt s _ h
  · exact S.destroyDirect s _ _ h

theorem OpsSim.sfetch (S : OpsSim α X u c₁ c₂) (s : Storage α) (direct : Bool) (k : Key)
    (h : (storageFetch c₁ s direct k).excused X u = false) :
    storageFetch c₁ s direct k = storageFetch c₂ s direct k := by
  unfold storageFetch at h ⊢
  have h1 : (storageResolve c₁ s direct k).excused X u = false := by
    cases hr : storageResolve c₁ s direct k with
    | ok b s' => rfl
    | panic m s' => rw [hr] at h; exact h
    | ub m => rw [hr] at h; exact h
  rw [← S.sresolve s direct k h1]

theorem iterQuery_congr_cfg (hsv : ∀ s : Storage α, slicesValid c₁ s = slicesValid c₂ s)
    (f : Closure σ α Step) :
    ∀ (q : Query) (st : σ) (w : World α), iterQuery c₁ f q st w = iterQuery c₂ f q st w := by
  intro q
  induction q with
  | nil => intro st w; rfl
  | cons qa rest ih =>
    intro st w
    rw [iterQuery, iterQuery]
    cases w.archs[qa.a]? with
    | none => rfl
    | some s =>
      simp only [hsv s]
      by_cases hv : slicesValid c₂ s = true
      · simp only [hv, if_true]
        cases iterLoop (w.ids.getD qa.a ID_RANGE) qa.params f s.version (List.range s.len) st s with
        | done st' s' => exact ih st' _
        | stop st' s' => rfl
        | panic m st' s' => rfl
        | ub m => rfl
      · simp only [hv, Bool.false_eq_true, if_false]

theorem destroyLoop_agree (S : OpsSim α X u c₁ c₂) (idA : Nat) (ps : List Param)
    (f : Closure σ α Step4) :
    ∀ (idxs : List Nat) (st : σ) (s : Storage α),
      (destroyLoop c₁ idA ps f idxs st s).excused X u = false →
        destroyLoop c₁ idA ps f idxs st s = destroyLoop c₂ idA ps f idxs st s := by
  intro idxs
  induction idxs with
  | nil => intro st s _; rfl
  | cons idx rest ih =>
    intro st s h
    rw [destroyLoop] at h ⊢
    rw [destroyLoop, ← S.slices s]
    by_cases hv : slicesValid c₁ s = true
    · simp only [hv, if_true] at h ⊢
      cases hb : bindArgs idA s s.version idx ps with
      | none => rfl
      | some args =>
        rw [hb] at h
        simp only [] at h ⊢
        cases hf : f st args with
        | panic st' ws => rfl
        | ret st' ws r =>
          rw [hf] at h
          simp only [] at h ⊢
          cases r with
          | cont => exact ih st' _ h
          | brk => rfl
          | contDestroy =>
            simp only [] at h ⊢
            cases he : (applyWrites s idx ps ws).ents[idx]? with
            | none => rfl
            | some e =>
              rw [he] at h
              simp only [] at h ⊢
              have h1 : (Gecs.destroyEnt c₁ (applyWrites s idx ps ws) e).excused X u = false := by
                cases hd : Gecs.destroyEnt c₁ (applyWrites s idx ps ws) e with
                | ok b s' => rfl
                | panic m s' => rw [hd] at h; exact h
                | ub m => rw [hd] at h; exact h
              rw [← S.destroyEnt _ e h1]
              cases hd : Gecs.destroyEnt c₁ (applyWrites s idx ps ws) e with
              | ok b s2 =>
                rw [hd] at h
                simp only [reduceCtorEq, if_false] at h ⊢
                exact ih st' _ h
              | panic m s2 => rfl
              | ub m => rfl
          | brkDestroy =>
            simp only [] at h ⊢
            cases he : (applyWrites s idx ps ws).ents[idx]? with
            | none => rfl
            | some e =>
              rw [he] at h
              simp only [] at h ⊢
              have h1 : (Gecs.destroyEnt c₁ (applyWrites s idx ps ws) e).excused X u = false := by
                cases hd : Gecs.destroyEnt c₁ (applyWrites s idx ps ws) e with
                | ok b s' => rfl
                | panic m s' => rw [hd] at h; exact h
                | ub m => rw [hd] at h; exact h
              rw [← S.destroyEnt _ e h1]
              cases Gecs.destroyEnt c₁ (applyWrites s idx ps ws) e with
              | ok b s2 => simp only [if_true]
              | panic m s2 => rfl
              | ub m => rfl
    · simp only [hv, Bool.false_eq_true, if_false]


theorem iterDestroyQuery_agree (S : OpsSim α X u c₁ c₂) (f : Closure σ α Step4) :
    ∀ (q : Query) (st : σ) (w : World α),
      (iterDestroyQuery c₁ f q st w).excused X u = false →
        iterDestroyQuery c₁ f q st w = iterDestroyQuery c₂ f q st w := by
  intro q
  induction q with
  | nil => intro st w _; rfl
  | cons qa rest ih =>
    intro st w h
    rw [iterDestroyQuery] at h ⊢
    rw [iterDestroyQuery]
    cases hs : w.archs[qa.a]? with
    | none => rfl
    | some s =>
      rw [hs] at h
      simp only [] at h ⊢
      have h1 : (destroyLoop c₁ (w.ids.getD qa.a ID_RANGE) qa.params f
          (List.range s.len).reverse st s).excused X u = false := by
        cases hd : destroyLoop c₁ (w.ids.getD qa.a ID_RANGE) qa.params f
            (List.range s.len).reverse st s with
        | done st' s' => rfl
        | stop st' s' => rfl
        | panic m st' s' => rw [hd] at h; exact h
        | ub m => rw [hd] at h; exact h
      rw [← destroyLoop_agree S _ _ f _ st s h1]
      cases hd : destroyLoop c₁ (w.ids.getD qa.a ID_RANGE) qa.params f
          (List.range s.len).reverse st s with
      | done st' s' => rw [hd] at h; exact ih st' _ h
      | stop st' s' => rfl
      | panic m st' s' => rfl
      | ub m => rfl

theorem findQuery_agree {ρ : Type} (S : OpsSim α X u c₁ c₂) (q : Query) (f : Closure σ α ρ)
    (hd : Handle) (st : σ) (w : World α)
    (h : (findQuery c₁ q f hd st w).excused X u = false) :
    findQuery c₁ q f hd st w = findQuery c₂ q f hd st w := by
  unfold findQuery at h ⊢
  have hr : (routeWorld c₁ w.ids hd).excused X = false := by
    cases hr : routeWorld c₁ w.ids hd with
    | absent => rfl
    | arch a k => rfl
    | panic m => rw [hr] at h; exact h
  rw [← S.routeWorld w.ids hd hr]
  cases hrw : routeWorld c₁ w.ids hd with
  | absent => rfl
  | panic m => rfl
  | arch a k =>
    rw [hrw] at h
    simp only [] at h ⊢
    cases hq : q.find? (fun qa => qa.a == a) with
    | none => rfl
    | some qa =>
      rw [hq] at h
      simp only [] at h ⊢
      cases hs : w.archs[a]? with
      | none => rfl
      | some s =>
        rw [hs] at h
        simp only [] at h ⊢
        have h1 : (storageResolve c₁ s hd.kind.isDirect k).excused X u = false := by
          cases hsr : storageResolve c₁ s hd.kind.isDirect k with
          | ok b s' => rfl
          | panic m s' => rw [hsr] at h; exact h
          | ub m => rw [hsr] at h; exact h
        rw [← S.sresolve s _ k h1, ← S.slices s]

theorem stepOp_agree (S : OpsSim α X u c₁ c₂) (w : World α) (op : Op α)
    (h : (stepOp c₁ w op).excused X u = false) : stepOp c₁ w op = stepOp c₂ w op := by
  cases op with
  | create a row g =>
    simp only [stepOp, World.create, S.push]
  | createWithin a row =>
    simp only [stepOp, World.createWithin, S.pushWithin]
  | destroy ku =>
    simp only [stepOp] at h ⊢
    have hr : (ku.route c₁ w.ids).excused X = false := by
      cases hr : ku.route c₁ w.ids with
      | absent => rfl
      | arch a k => rfl
      | panic m => rw [hr] at h; exact h
    rw [← S.route w.ids ku hr]
    have h1 : (w.destroy c₁ (ku.route c₁ w.ids) ku.h.kind.isDirect).excused X u = false := by
      cases hd : w.destroy c₁ (ku.route c₁ w.ids) ku.h.kind.isDirect with
      | ok b w' => rfl
      | panic m w' => rw [hd] at h; exact h
      | ub m => rw [hd] at h; exact h
    unfold World.destroy at h1 ⊢
    rw [lookup_agree X u w _ _ _ (fun s k => S.sdestroy s _ k) h1]
  | write ku c x =>
    simp only [stepOp] at h ⊢
    have hr : (ku.route c₁ w.ids).excused X = false := by
      cases hr : ku.route c₁ w.ids with
      | absent => rfl
      | arch a k => rfl
      | panic m => rw [hr] at h; exact h
    rw [← S.route w.ids ku hr]
    have h1 : (w.fetch c₁ (ku.route c₁ w.ids) ku.h.kind.isDirect).excused X u = false := by
      cases hd : w.fetch c₁ (ku.route c₁ w.ids) ku.h.kind.isDirect with
      | ok b w' => rfl
      | panic m w' => rw [hd] at h; exact h
      | ub m => rw [hd] at h; exact h
    unfold World.fetch at h1 ⊢
    rw [lookup_agree X u w _ _ _ (fun s k => S.sfetch s _ k) h1]
  | iter q σ f st =>
    simp only [stepOp, iterQuery_congr_cfg S.slices f q st w]
  | iterDestroy q σ f st =>
    simp only [stepOp] at h ⊢
    have h1 : (iterDestroyQuery c₁ f q st w).excused X u = false := by
      cases hd : iterDestroyQuery c₁ f q st w with
      | ok st' w' => rfl
      | panic m st' w' => rw [hd] at h; exact h
      | ub m => rw [hd] at h; exact h
    rw [iterDestroyQuery_agree S f q st w h1]
  | find q σ f hd st =>
    simp only [stepOp] at h ⊢
    have h1 : (findQuery c₁ q f hd st w).excused X u = false := by
      cases hf : findQuery c₁ q f hd st w with
      | ok r st' w' => rfl
      | panic m st' w' => rw [hf] at h; exact h
      | ub m => rw [hf] at h; exact h
    rw [findQuery_agree S q f hd st w h1]
  | clearEvents oa => cases oa <;> rfl
  | cloneSwitch cl => rfl

/-- No operation of the `c₁`-run ends in an excused outcome. -/
def Clean (X : String → Bool) (u : Bool) (c : Cfg) : World α → List (Op α) → Prop
  | _, [] => True
  | w, op :: ops =>
    (stepOp c w op).excused X u = false
    ∧ match stepOp c w op with
      | .ok w' => Clean X u c w' ops
      | .panic _ w' => Clean X u c w' ops
      | .ub _ => True

theorem run_agree (S : OpsSim α X u c₁ c₂) :
    ∀ (ops : List (Op α)) (w : World α), Clean X u c₁ w ops → run c₁ w ops = run c₂ w ops := by
  intro ops
  induction ops with
  | nil => intro w _; rfl
  | cons op ops ih =>
    intro w h
    obtain ⟨h1, h2⟩ := h
    simp only [run]
    rw [← stepOp_agree S w op h1]
    cases hs : stepOp c₁ w op with
    | ok w' => rw [hs] at h2; exact ih w' h2
    | panic m w' => rw [hs] at h2; exact ih w' h2
    | ub m => rfl


/-! ### `wrapping_version`, lifted -/

/-- The two documented overflow panics. -/
def isOverflowMsg (m : String) : Bool :=
  m == "slot version overflow" || m == "arch version overflow"

theorem forceDestroy_agree_wrapping (cfg : Cfg) (s : Storage α) (si d : Nat)
    (h : (forceDestroy { cfg with wrapping := false } s si d).excused isOverflowMsg false = false) :
    forceDestroy { cfg with wrapping := false } s si d
      = forceDestroy { cfg with wrapping := true } s si d := by
  unfold forceDestroy at h ⊢
  by_cases hg : s.ents.length ≠ s.len ∨ d ≥ s.len
      ∨ (s.cols.any (fun c => c.length != s.len)) = true
  · simp only [hg, if_true]
  · simp only [hg, if_false] at h ⊢
    cases h1 : s.slots[si]? with
    | none => rfl
    | some sl =>
      cases h2 : s.ents[d]? with
      | none => rfl
      | some tgt =>
        cases h3 : s.ents[s.len - 1]? with
        | none => rfl
        | some lastE =>
          rw [h1, h2, h3] at h
          simp only [] at h ⊢
          cases hv1 : nextVer { cfg with wrapping := false } sl.ver with
          | none => rw [hv1] at h; simp [Out.excused, isOverflowMsg] at h
          | some sv =>
            have k1 := nextVer_nowrap (cfg := { cfg with wrapping := false }) rfl hv1
            have hw1 : nextVer { cfg with wrapping := true } sl.ver = some sv := by
              rw [nextVer_of_lt _ (by exact k1.2), k1.1]
            cases hv2 : nextVer { cfg with wrapping := false } s.version with
            | none => rw [hv1, hv2] at h; simp [Out.excused, isOverflowMsg] at h
            | some av =>
              have k2 := nextVer_nowrap (cfg := { cfg with wrapping := false }) rfl hv2
              have hw2 : nextVer { cfg with wrapping := true } s.version = some av := by
                rw [nextVer_of_lt _ (by exact k2.2), k2.1]
              rw [hw1, hw2]

theorem destroyEnt_agree_wrapping (cfg : Cfg) (s : Storage α) (e : Ent)
    (h : (destroyEnt { cfg with wrapping := false } s e).excused isOverflowMsg false = false) :
    destroyEnt { cfg with wrapping := false } s e = destroyEnt { cfg with wrapping := true } s e := by
  have hr : resolveEntity { cfg with wrapping := true } s e
      = resolveEntity { cfg with wrapping := false } s e := rfl
  unfold destroyEnt at h ⊢
  rw [hr]
  cases hre : resolveEntity { cfg with wrapping := false } s e with
  | ub m => rfl
  | panic m s1 => rfl
  | ok r s1 =>
    cases r with
    | none => rfl
    | some p =>
      obtain ⟨si, d⟩ := p
      rw [hre] at h
      simp only [] at h ⊢
      have h1 : (forceDestroy { cfg with wrapping := false } s si d).excused isOverflowMsg false
          = false := by
        cases hf : forceDestroy { cfg with wrapping := false } s si d with
        | ok b s' => rfl
        | panic m s' => rw [hf] at h; exact h
        | ub m => rfl
      rw [forceDestroy_agree_wrapping cfg s si d h1]

theorem destroyDirect_agree_wrapping (cfg : Cfg) (s : Storage α) (d v : Nat)
    (h : (destroyDirect { cfg with wrapping := false } s d v).excused isOverflowMsg false = false) :
    destroyDirect { cfg with wrapping := false } s d v
      = destroyDirect { cfg with wrapping := true } s d v := by
  have hr : resolveDirect { cfg with wrapping := true } s d v
      = resolveDirect { cfg with wrapping := false } s d v := rfl
  unfold destroyDirect at h ⊢
  rw [hr]
  cases hre : resolveDirect { cfg with wrapping := false } s d v with
  | ub m => rfl
  | panic m s1 => rfl
  | ok r s1 =>
    cases r with
    | none => rfl
    | some p =>
      obtain ⟨si, d'⟩ := p
      rw [hre] at h
      simp only [] at h ⊢
      have h1 : (forceDestroy { cfg with wrapping := false } s si d').excused isOverflowMsg false
          = false := by
        cases hf : forceDestroy { cfg with wrapping := false } s si d' with
        | ok b s' => rfl
        | panic m s' => rw [hf] at h; exact h
        | ub m => rfl
      rw [forceDestroy_agree_wrapping cfg s si d' h1]

theorem opsSim_wrapping (cfg : Cfg) :
    OpsSim α isOverflowMsg false { cfg with wrapping := false } { cfg with wrapping := true } where
  slices := fun _ => rfl
  push := fun _ _ _ => rfl
  pushWithin := fun _ _ => rfl
  route := fun _ _ _ => rfl
  routeWorld := fun _ _ _ => rfl
  sresolve := fun _ _ _ _ => rfl
  destroyEnt := destroyEnt_agree_wrapping cfg
  destroyDirect := destroyDirect_agree_wrapping cfg

/-- Unless the checked build raises one of the two documented overflow panics, a history runs
identically with and without `wrapping_version`: same outcomes, same worlds. -/
theorem run_wrapping_agree (cfg : Cfg) (w : World α) (ops : List (Op α))
    (h : Clean isOverflowMsg false { cfg with wrapping := false } w ops) :
    run { cfg with wrapping := false } w ops = run { cfg with wrapping := true } w ops :=
  run_agree (opsSim_wrapping cfg) ops w h

theorem stepOp_wrapping_agree (cfg : Cfg) (w : World α) (op : Op α)
    (h : (stepOp { cfg with wrapping := false } w op).excused isOverflowMsg false = false) :
    stepOp { cfg with wrapping := false } w op = stepOp { cfg with wrapping := true } w op :=
  stepOp_agree (opsSim_wrapping cfg) w op h


/-! ### Debug assertions, lifted -/

/-- The messages of the model's `debug_assert!` / `debug_checked_assume!` sites. -/
def isDebugMsg (m : String) : Bool :=
  m == "debug_assert: invalid entity handle" || m == "debug_assert: lookup mismatch"
  || m == "debug_assert: dense_index < len" || m == "debug_assert: slot mismatch"
  || m == "debug_assert: slot_index < capacity" || m == "debug_checked_assume"
  || m == "debug_assert: from_any_unchecked"

theorem resolveEntity_agree_debug (cfg : Cfg) (s : Storage α) (e : Ent)
    (h : (resolveEntity { cfg with debug := true } s e).excused isDebugMsg true = false) :
    resolveEntity { cfg with debug := true } s e = resolveEntity { cfg with debug := false } s e := by
  unfold resolveEntity at h ⊢
  simp only [if_true, Bool.false_eq_true, if_false] at h ⊢
  by_cases h0 : s.len = 0
  · simp only [h0, if_true]
  · simp only [h0, if_false] at h ⊢
    by_cases hc : e.slot ≥ s.capacity
    · simp only [hc, if_true] at h
      simp [Out.excused, isDebugMsg] at h
    · simp only [hc, if_false] at h ⊢
      cases hs : s.slots[e.slot]? with
      | none => rfl
      | some sl =>
        rw [hs] at h
        simp only [] at h ⊢
        by_cases hv : (sl.ver ≠ e.ver || sl.idx.isFree) = true
        · simp only [hv, if_true]
        · simp only [hv, if_false] at h ⊢
          cases hi : sl.idx with
          | free _ => rfl
          | freeEnd => rfl
          | data d =>
            rw [hi] at h
            simp only [] at h ⊢
            by_cases hd : d < s.len
            · simp only [hd, if_true] at h ⊢
              cases he : s.ents[d]? with
              | none => rw [he] at h; simp [Out.excused] at h
              | some l =>
                rw [he] at h
                simp only [] at h ⊢
                by_cases hl : l = e
                · simp only [hl, if_true]
                · simp only [hl, if_false] at h
                  simp [Out.excused, isDebugMsg] at h
            · simp only [hd, if_false] at h
              simp [Out.excused, isDebugMsg] at h

theorem resolveDirect_agree_debug (cfg : Cfg) (s : Storage α) (d v : Nat)
    (h : (resolveDirect { cfg with debug := true } s d v).excused isDebugMsg true = false) :
    resolveDirect { cfg with debug := true } s d v
      = resolveDirect { cfg with debug := false } s d v := by
  unfold resolveDirect at h ⊢
  simp only [if_true, Bool.false_eq_true, if_false] at h ⊢
  by_cases h0 : s.len = 0
  · simp only [h0, if_true]
  · simp only [h0, if_false] at h ⊢
    by_cases hv : v = s.version
    · simp only [hv, ne_eq, not_true_eq_false, if_false] at h ⊢
      by_cases hd : d ≥ s.len
      · simp only [hd, if_true] at h
        simp [Out.excused, isDebugMsg] at h
      · simp only [hd, if_false] at h ⊢
        cases he : s.ents[d]? with
        | none => rfl
        | some t =>
          rw [he] at h
          simp only [] at h ⊢
          by_cases hc : t.slot < s.capacity
          · simp only [hc, if_true] at h ⊢
            cases hs : s.slots[t.slot]? with
            | none => rw [hs] at h; simp [Out.excused] at h
            | some sl =>
              rw [hs] at h
              simp only [] at h ⊢
              by_cases hm : sl.ver = t.ver ∧ sl.idx.isFree = false
              · simp only [hm, and_self, if_true]
              · simp only [hm, if_false] at h
                simp [Out.excused, isDebugMsg] at h
          · simp only [hc, if_false] at h
            simp [Out.excused, isDebugMsg] at h
    · simp only [ne_eq, hv, not_false_eq_true, if_true]


theorem resolveForEnt_agree_debug (cfg : Cfg) (s : Storage α) (e : Ent)
    (h : (resolveForEnt { cfg with debug := true } s e).excused isDebugMsg true = false) :
    resolveForEnt { cfg with debug := true } s e
      = resolveForEnt { cfg with debug := false } s e := by
  unfold resolveForEnt at h ⊢
  have h1 : (resolveEntity { cfg with debug := true } s e).excused isDebugMsg true = false := by
    cases hr : resolveEntity { cfg with debug := true } s e with
    | ok b s' => rfl
    | panic m s' => rw [hr] at h; exact h
    | ub m => rw [hr] at h; exact h
  rw [← resolveEntity_agree_debug cfg s e h1]
  cases hr : resolveEntity { cfg with debug := true } s e with
  | ub m => rfl
  | panic m s1 => rfl
  | ok r s1 =>
    cases r with
    | none => rfl
    | some p =>
      obtain ⟨si, d⟩ := p
      rw [hr] at h
      simp only [if_true, Bool.false_eq_true, if_false] at h ⊢
      by_cases hc : s.len ≤ cfg.maxCap ∧ d ≤ s.len
      · simp only [hc, and_self, if_true]
      · simp only [hc, if_false] at h
        simp [Out.excused, isDebugMsg] at h

theorem resolveForDirect_agree_debug (cfg : Cfg) (s : Storage α) (d v : Nat)
    (h : (resolveForDirect { cfg with debug := true } s d v).excused isDebugMsg true = false) :
    resolveForDirect { cfg with debug := true } s d v
      = resolveForDirect { cfg with debug := false } s d v := by
  unfold resolveForDirect at h ⊢
  have h1 : (resolveDirect { cfg with debug := true } s d v).excused isDebugMsg true = false := by
    cases hr : resolveDirect { cfg with debug := true } s d v with
    | ok b s' => rfl
    | panic m s' => rw [hr] at h; exact h
    | ub m => rw [hr] at h; exact h
  rw [← resolveDirect_agree_debug cfg s d v h1]
  cases hr : resolveDirect { cfg with debug := true } s d v with
  | ub m => rfl
  | panic m s1 => rfl
  | ok r s1 =>
    cases r with
    | none => rfl
    | some p =>
      obtain ⟨si, d'⟩ := p
      rw [hr] at h
      simp only [if_true, Bool.false_eq_true, if_false] at h ⊢
      by_cases hc : s.len ≤ cfg.maxCap ∧ d' ≤ s.len
      · simp only [hc, and_self, if_true]
      · simp only [hc, if_false] at h
        simp [Out.excused, isDebugMsg] at h

theorem storageResolve_agree_debug (cfg : Cfg) (s : Storage α) (direct : Bool) (k : Key)
    (h : (storageResolve { cfg with debug := true } s direct k).excused isDebugMsg true = false) :
    storageResolve { cfg with debug := true } s direct k
      = storageResolve { cfg with debug := false } s direct k := by
  cases direct
  · exact resolveForEnt_agree_debug cfg s _ h
  · exact resolveForDirect_agree_debug cfg s _ _ h

theorem destroyEnt_agree_debug (cfg : Cfg) (s : Storage α) (e : Ent)
    (h : (destroyEnt { cfg with debug := true } s e).excused isDebugMsg true = false) :
    destroyEnt { cfg with debug := true } s e = destroyEnt { cfg with debug := false } s e := by
  unfold destroyEnt at h ⊢
  have h1 : (resolveEntity { cfg with debug := true } s e).excused isDebugMsg true = false := by
    cases hr : resolveEntity { cfg with debug := true } s e with
    | ok b s' => rfl
    | panic m s' => rw [hr] at h; exact h
    | ub m => rw [hr] at h; exact h
  rw [← resolveEntity_agree_debug cfg s e h1]
  simp only [forceDestroy_debug]

theorem destroyDirect_agree_debug (cfg : Cfg) (s : Storage α) (d v : Nat)
    (h : (destroyDirect { cfg with debug := true } s d v).excused isDebugMsg true = false) :
    destroyDirect { cfg with debug := true } s d v
      = destroyDirect { cfg with debug := false } s d v := by
  unfold destroyDirect at h ⊢
  have h1 : (resolveDirect { cfg with debug := true } s d v).excused isDebugMsg true = false := by
    cases hr : resolveDirect { cfg with debug := true } s d v with
    | ok b s' => rfl
    | panic m s' => rw [hr] at h; exact h
    | ub m => rw [hr] at h; exact h
  rw [← resolveDirect_agree_debug cfg s d v h1]
  simp only [forceDestroy_debug]

theorem routeWorld_agree_debug (cfg : Cfg) (ids : List Nat) (hd : Handle)
    (h : (routeWorld { cfg with debug := true } ids hd).excused isDebugMsg = false) :
    routeWorld { cfg with debug := true } ids hd = routeWorld { cfg with debug := false } ids hd := by
  unfold routeWorld fromAnyUnchecked at h ⊢
  simp only [true_and, Bool.false_eq_true, false_and, if_false] at h ⊢
  cases ht : hd.kind.isTyped with
  | true => simp only [if_true]
  | false =>
    rw [ht] at h
    simp only [Bool.false_eq_true, if_false] at h ⊢
    cases hsel : selectArch ids hd.key.archId with
    | none => rfl
    | some a =>
      rw [hsel] at h
      simp only [] at h ⊢
      by_cases hm : hd.key.archId = ids.getD a ID_RANGE
      · simp only [hm, ne_eq, not_true_eq_false, if_false]
      · simp only [ne_eq, hm, not_false_eq_true, if_true] at h
        simp [Route.excused, isDebugMsg] at h

theorem KeyUse.route_agree_debug (cfg : Cfg) (ids : List Nat) (ku : KeyUse)
    (h : (ku.route { cfg with debug := true } ids).excused isDebugMsg = false) :
    ku.route { cfg with debug := true } ids = ku.route { cfg with debug := false } ids := by
  unfold KeyUse.route at h ⊢
  simp only [true_and, Bool.false_eq_true, false_and, if_false] at h ⊢
  cases ht : ku.typed with
  | true =>
    rw [ht] at h
    simp only [if_true] at h ⊢
    by_cases hm : ku.h.key.archId = ids.getD (ku.at_.getD ku.h.a) ID_RANGE
    · simp only [hm, ne_eq, not_true_eq_false, if_false] at h ⊢
      cases hw : ku.worldLevel with
      | true =>
        rw [hw] at h
        simp only [if_true] at h ⊢
        exact routeWorld_agree_debug cfg ids _ h
      | false => simp only [Bool.false_eq_true, if_false]
    · simp only [ne_eq, hm, not_false_eq_true, if_true] at h
      simp [Route.excused, isDebugMsg] at h
  | false =>
    rw [ht] at h
    simp only [Bool.false_eq_true, if_false] at h ⊢
    cases hw : ku.worldLevel with
    | true =>
      rw [hw] at h
      simp only [if_true] at h ⊢
      exact routeWorld_agree_debug cfg ids _ h
    | false => simp only [Bool.false_eq_true, if_false]

theorem opsSim_debug (cfg : Cfg) :
    OpsSim α isDebugMsg true { cfg with debug := true } { cfg with debug := false } where
  slices := fun _ => rfl
  push := fun _ _ _ => rfl
  pushWithin := fun _ _ => rfl
  route := fun ids ku h => KeyUse.route_agree_debug cfg ids ku h
  routeWorld := fun ids hd h => routeWorld_agree_debug cfg ids hd h
  sresolve := storageResolve_agree_debug cfg
  destroyEnt := destroyEnt_agree_debug cfg
  destroyDirect := destroyDirect_agree_debug cfg

theorem stepOp_debug_agree (cfg : Cfg) (w : World α) (op : Op α)
    (h : (stepOp { cfg with debug := true } w op).excused isDebugMsg true = false) :
    stepOp { cfg with debug := true } w op = stepOp { cfg with debug := false } w op :=
  stepOp_agree (opsSim_debug cfg) w op h

/-- Unless the debug build trips a debug assertion (or reaches `ub`, which `run_inv` excludes
from `WInv` worlds), a history runs identically in debug and release builds. -/
theorem run_debug_agree (cfg : Cfg) (w : World α) (ops : List (Op α))
    (h : Clean isDebugMsg true { cfg with debug := true } w ops) :
    run { cfg with debug := true } w ops = run { cfg with debug := false } w ops :=
  run_agree (opsSim_debug cfg) ops w h

/-- From a `WInv` world and for well-scoped histories `ub` never occurs, so being clean with
`ub` excused is being clean. -/
theorem Clean.of_winv {X : String → Bool} {c : Cfg} (hc : CfgOk c) :
    ∀ (ops : List (Op α)) (w : World α), WInv c w → OpsOk c ops → OpsScoped w.sch ops →
      Clean X false c w ops → Clean X true c w ops := by
  intro ops
  induction ops with
  | nil => intro w _ _ _ _; trivial
  | cons op ops ih =>
    intro w hw ho hs hcl
    have ho' := (OpsOk_cons op ops).mp ho
    have hstep := stepOp_sat hw hc op ho'.1 (hs op List.mem_cons_self)
    have hs' : ∀ w1, WRel c w w1 → OpsScoped w1.sch ops := by
      intro w1 hr op' hop'
      have : w1.sch = w.sch := hr.ncols_map
      rw [this]; exact hs op' (List.mem_cons_of_mem _ hop')
    obtain ⟨h1, h2⟩ := hcl
    cases hst : stepOp c w op with
    | ok w1 =>
      rw [hst] at hstep h2
      refine ⟨?_, ?_⟩
      · rw [hst]; rfl
      · rw [hst]; exact ih w1 hstep.winv ho'.2 (hs' w1 hstep) h2
    | panic m w1 =>
      rw [hst] at hstep h1 h2
      refine ⟨?_, ?_⟩
      · rw [hst]; exact h1
      · rw [hst]; exact ih w1 hstep.winv ho'.2 (hs' w1 hstep) h2
    | ub m => rw [hst] at hstep; exact hstep.elim

/-! ### Keys issued by the API stay in range -/

/-- An `Entity` handle that was ever stored keeps a slot index below the capacity along every
history (capacities never shrink) — in any configuration. -/
theorem issued_ent_in_range {cfg : Cfg} {s s' : Storage α} (h : Inv cfg s) {e : Ent}
    (he : e ∈ s.ents) (hr : SReach cfg s s') : e.slot < s'.capacity := by
  obtain ⟨d, hd⟩ := List.getElem?_of_mem he
  exact Nat.lt_of_lt_of_le (h.ents_slot_lt hd) (sreach_capacity_mono h hr)

/-- An `EntityDirect` handle `(d, s.version)` issued at `s` (`d < s.len`) is, at every later
state, either stale (version changed) or still below `len` — without `wrapping_version`. -/
theorem issued_direct_in_range {cfg : Cfg} (hw : cfg.wrapping = false) {s s' : Storage α}
    (h : Inv cfg s) {d : Nat} (hd : d < s.len) (hr : SReach cfg s s') :
    d < s'.len ∨ s.version ≠ s'.version := by
  by_cases hv : s.version = s'.version
  · left
    have hp := (sreach_later hw hr).same_prefix hv
    have h' := sreach_inv h hr
    have := hp.length_le
    rw [h.entsLen, h'.entsLen] at this
    omega
  · exact .inr hv

/-- Executable form of `Clean`. -/
def cleanB (X : String → Bool) (u : Bool) (c : Cfg) : World α → List (Op α) → Bool
  | _, [] => true
  | w, op :: ops =>
    (!(stepOp c w op).excused X u)
    && match stepOp c w op with
      | .ok w' => cleanB X u c w' ops
      | .panic _ w' => cleanB X u c w' ops
      | .ub _ => true

theorem Clean.of_cleanB {X : String → Bool} {u : Bool} {c : Cfg} :
    ∀ (ops : List (Op α)) (w : World α), cleanB X u c w ops = true → Clean X u c w ops := by
  intro ops
  induction ops with
  | nil => intro w _; trivial
  | cons op ops ih =>
    intro w h
    simp only [cleanB, Bool.and_eq_true, Bool.not_eq_true'] at h
    refine ⟨h.1, ?_⟩
    cases hs : stepOp c w op with
    | ok w' => rw [hs] at h; exact ih w' h.2
    | panic m w' => rw [hs] at h; exact ih w' h.2
    | ub m => trivial

/-- Below `vmax` no overflow panic: the hypothesis of the lifted wrapping statement holds. -/
theorem destroyEnt_no_overflow_below_vmax {cfg : Cfg} {s : Storage α} (h : Inv cfg s) (e : Ent)
    (h1 : e.ver < cfg.vmax) (h2 : s.version < cfg.vmax) :
    (destroyEnt cfg s e).excused isOverflowMsg false = false := by
  by_cases hm : e ∈ s.ents
  · obtain ⟨d, hd⟩ := List.getElem?_of_mem hm
    rw [destroyEnt_of_mem h hd]
    rcases forceDestroy_live cfg s d e h hd with ⟨row, s', sv, av, hok, _⟩ | ⟨_, hn⟩ | ⟨_, hn⟩
    · rw [hok]; rfl
    · rw [nextVer_of_lt cfg h1] at hn; cases hn
    · rw [nextVer_of_lt cfg h2] at hn; cases hn
  · rcases resolveEntity_of_not_mem cfg s e h hm with g | ⟨g, _⟩
    · simp [destroyEnt, g, Out.excused]
    · simp [destroyEnt, g, Out.excused, isOverflowMsg]

theorem destroyDirect_no_overflow_below_vmax {cfg : Cfg} {s : Storage α} (h : Inv cfg s)
    (d v : Nat) (h1 : ∀ t, s.ents[d]? = some t → t.ver < cfg.vmax) (h2 : s.version < cfg.vmax) :
    (destroyDirect cfg s d v).excused isOverflowMsg false = false := by
  rcases resolveDirect_spec cfg s d v h with g | ⟨t, _, rfl, hd⟩ | ⟨msg, g, _, _, _, _, rfl⟩
  · simp [destroyDirect, g, Out.excused]
  · rw [destroyDirect_of_lt h hd]
    rcases forceDestroy_live cfg s d t h hd with ⟨row, s', sv, av, hok, _⟩ | ⟨_, hn⟩ | ⟨_, hn⟩
    · rw [hok]; rfl
    · rw [nextVer_of_lt cfg (h1 t hd)] at hn; cases hn
    · rw [nextVer_of_lt cfg h2] at hn; cases hn
  · simp [destroyDirect, g, Out.excused, isOverflowMsg]

end Gecs

section
open Gecs
#print axioms Inv.congr_cfg
#print axioms Inv.debug_iff
#print axioms RobustEx.slotOvf_inv
#print axioms RobustEx.slotOvf_prefix
#print axioms RobustEx.slotOvf_fixed
#print axioms RobustEx.archOvf_prefix
#print axioms RobustEx.archOvf_fixed
#print axioms forceCreate_eraseLogs
#print axioms push_eraseLogs
#print axioms pushWithin_eraseLogs
#print axioms forceDestroy_eraseLogs
#print axioms resolveEntity_eraseLogs
#print axioms resolveDirect_eraseLogs
#print axioms destroyEnt_eraseLogs
#print axioms destroyDirect_eraseLogs
#print axioms cloneStorage_eraseLogs
#print axioms stepOp_eraseLogs
#print axioms run_eraseLogs
#print axioms nextVer_wrapping_agree
#print axioms forceDestroy_wrapping_agree
#print axioms destroyEnt_wrapping_agree
#print axioms destroyDirect_wrapping_agree
#print axioms forceDestroy_wrapping_total
#print axioms resolveEntity_debug_agree
#print axioms resolveDirect_debug_agree
#print axioms resolveEntity_out_of_range
#print axioms resolveDirect_out_of_range
#print axioms destroyEnt_debug_agree
#print axioms destroyDirect_debug_agree
#print axioms stepOp_agree
#print axioms run_agree
#print axioms forceDestroy_agree_wrapping
#print axioms stepOp_wrapping_agree
#print axioms run_wrapping_agree
#print axioms resolveEntity_agree_debug
#print axioms resolveDirect_agree_debug
#print axioms KeyUse.route_agree_debug
#print axioms stepOp_debug_agree
#print axioms run_debug_agree
#print axioms Clean.of_winv
#print axioms issued_ent_in_range
#print axioms issued_direct_in_range
#print axioms Clean.of_cleanB
#print axioms destroyEnt_no_overflow_below_vmax
#print axioms destroyDirect_no_overflow_below_vmax
end
