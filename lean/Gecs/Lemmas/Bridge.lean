/-
Bridge between the two presentations of "what a history did to one storage":

* `SReach` (Lemmas/Reach.lean): unlabelled atomic steps — the relation `stepOp_spec` /
  `run_inv` (Lemmas/QueryOps.lean) establish for every archetype along every history;
* `LReach` (Lemmas/Labelled.lean): the same steps, each labelled with the handle it created
  or removed — the relation the value / event-log / ownership theorems (C02, C04, C13, C17)
  are stated for.

Every `SStep` constructor has an `LStep` counterpart and vice versa.  The only constructor
that needs an argument is `SStep.destroyDirect`: the label of `LStep.destroyDirect` names the
removed handle `t` with `s.ents[d]? = some t`; under `Inv` a successful `destroyDirect` implies
`d < s.len`, so that handle exists (`destroyDirect_spec`).  `SReach.step` carries `Inv` of the
pre-state, which is all that is needed.

Corollary `run_labelled`: under the hypotheses of `run_inv`, every archetype of the final world
is reached from the corresponding archetype of the initial world by a labelled path, so all
labelled-path theorems apply to every history of the world API.
-/
import Gecs.Lemmas.QueryOps
import Gecs.Lemmas.Labelled
import Gecs.Lemmas.HistoryLemmas

namespace Gecs
variable {α : Type}

/-- Forget the label. -/
theorem lstep_to_sstep {cfg : Cfg} {s s' : Storage α} {l : Lbl α} (h : LStep cfg s l s') :
    SStep cfg s s' := by
  cases h with
  | write d c x => exact .write s d c x
  | push _ g row e hg hp => exact .push s s' g row e hg hp
  | pushWithin _ row e hp => exact .pushWithin s s' row e hp
  | destroyEnt _ e row hp => exact .destroyEnt s s' e row hp
  | destroyDirect _ d v t row _ hp => exact .destroyDirect s s' d v row hp
  | clear => exact .clear s
  | clone cl => exact .clone s cl

/-- Recover a label: every atomic step from an `Inv` state is a labelled step. -/
theorem sstep_to_lstep {cfg : Cfg} {s s' : Storage α} (hi : Inv cfg s) (h : SStep cfg s s') :
    ∃ l, LStep cfg s l s' := by
  cases h with
  | write d c x => exact ⟨_, .write s d c x⟩
  | push _ g row e hg hp => exact ⟨_, .push s s' g row e hg hp⟩
  | pushWithin _ row e hp => exact ⟨_, .pushWithin s s' row e hp⟩
  | destroyEnt _ e row hp => exact ⟨_, .destroyEnt s s' e row hp⟩
  | destroyDirect _ d v row hp =>
    rcases destroyDirect_spec cfg s d v hi with ⟨h1, _⟩ | ⟨t, _, _, _, _, _, ht, _⟩ | ⟨m, h1, _⟩
    · rw [h1] at hp; cases hp
    · exact ⟨_, .destroyDirect s s' d v t row ht hp⟩
    · rw [h1] at hp; cases hp
  | clear => exact ⟨_, .clear s⟩
  | clone cl => exact ⟨_, .clone s cl⟩

/-- Every unlabelled path is the shadow of a labelled path. -/
theorem sreach_to_lreach {cfg : Cfg} {s s' : Storage α} (h : SReach cfg s s') :
    ∃ L, LReach cfg s L s' := by
  induction h with
  | refl => exact ⟨[], .refl s⟩
  | step _ hi hs ih =>
    obtain ⟨L, hL⟩ := ih
    obtain ⟨l, hl⟩ := sstep_to_lstep hi hs
    exact ⟨L ++ [l], .step hL hi hl⟩

/-- Every labelled path is an unlabelled path. -/
theorem lreach_to_sreach {cfg : Cfg} {s s' : Storage α} {L : List (Lbl α)}
    (h : LReach cfg s L s') : SReach cfg s s' := by
  induction h with
  | refl => exact .refl s
  | step _ hi hl ih => exact .step ih hi (lstep_to_sstep hl)

/-- The two reachability relations coincide. -/
theorem sreach_iff_lreach {cfg : Cfg} {s s' : Storage α} :
    SReach cfg s s' ↔ ∃ L, LReach cfg s L s' :=
  ⟨sreach_to_lreach, fun ⟨_, h⟩ => lreach_to_sreach h⟩

/-- One operation: whatever its outcome (normal return or panic), every archetype is reached
by a labelled path. -/
theorem stepOp_labelled {cfg : Cfg} {w : World α} {op : Op α} (hw : WInv cfg w) (hc : CfgOk cfg)
    (hop : OpsOk cfg [op]) (hs : op.Scoped w.sch) :
    ∃ w', (stepOp cfg w op = .ok w' ∨ ∃ m, stepOp cfg w op = .panic m w') ∧ WInv cfg w'
      ∧ ∀ (a : Nat) (s s' : Storage α),
          w.archs[a]? = some s → w'.archs[a]? = some s' → ∃ L, LReach cfg s L s' := by
  obtain ⟨w', h1, h2, _, _, h5, _⟩ := stepOp_spec hw hc hop hs
  exact ⟨w', h1, h2, fun a s s' g1 g2 => sreach_to_lreach (h5 a s s' g1 g2)⟩

/-- All finite histories (hypotheses of `run_inv`): for every archetype index `a`, the storage
`s'` of the final world is reached from the storage `s` of the initial world by a labelled
path — the labels list, in order, every handle created in / removed from that archetype by the
history, whichever operation did it, panicking operations included. -/
theorem run_labelled {cfg : Cfg} {w : World α} {ops : List (Op α)} (hw : WInv cfg w)
    (hc : CfgOk cfg) (ho : OpsOk cfg ops) (hs : OpsScoped w.sch ops) :
    ∃ w', run cfg w ops = some w' ∧ WInv cfg w'
      ∧ ∀ (a : Nat) (s s' : Storage α),
          w.archs[a]? = some s → w'.archs[a]? = some s' → ∃ L, LReach cfg s L s' := by
  obtain ⟨w', h1, h2, _, _, h5, _⟩ := run_inv hw hc ho hs
  exact ⟨w', h1, h2, fun a s s' g1 g2 => sreach_to_lreach (h5 a s s' g1 g2)⟩

/-! Non-vacuity: the example history `WorldEx.histEx` on `WorldEx.wEx` (creates, a refused
create, `ecs_iter!`, `ecs_find!`, removals by live / stale / forged keys, a panicking
`ecs_iter_destroy!` closure, clone, `clear_events`). -/
namespace WorldEx
open StorageEx

example : ∃ w', run cfgEx wEx histEx = some w'
    ∧ ∀ (a : Nat) (s s' : Storage Nat),
        wEx.archs[a]? = some s → w'.archs[a]? = some s' → ∃ L, LReach cfgEx s L s' := by
  obtain ⟨w', h1, _, h3⟩ :=
    run_labelled (wEx_winv cfgEx (by decide) cfgEx_ok) cfgEx_ok histEx_ok histEx_scoped
  exact ⟨w', h1, h3⟩

-- a direct-key removal, the step that needs `Inv` to recover its label
example : ∃ l, LStep cfgEx HistEx.holeEx1 l HistEx.holeEx2 :=
  sstep_to_lstep HistEx.holeEx1_inv (.destroyDirect _ _ 0 2 [10, 20] HistEx.holeEx1_destroy)

end WorldEx
end Gecs

section
open Gecs
#print axioms lstep_to_sstep
#print axioms sstep_to_lstep
#print axioms sreach_to_lreach
#print axioms lreach_to_sreach
#print axioms sreach_iff_lreach
#print axioms stepOp_labelled
#print axioms run_labelled
end
