/-
The expansion of `ecs_find!` / `ecs_find_borrow!`, from the skeleton extracted from
macros/src/generate/query.rs (`Gen.findT`), IS the model's `findQuery` — for every world, query,
key (typed, dynamic, direct; live, stale, forged) and closure.
-/
import Gecs.Gen.Steps

set_option linter.unusedSimpArgs false

namespace Gecs

variable {α σ ρ : Type}

theorem gen_find_query (cfg : Cfg) (q : Query) (f : Closure σ α ρ) (h : Handle) (st : σ) (w : World α) :
    findQueryT cfg Gen.findT q f h st w = findQuery cfg q f h st w := by
  unfold findQueryT findQuery
  simp only [Gen.findT, Bool.and_self, if_true]
  cases hr : routeWorld cfg w.ids h with
  | absent => rfl
  | panic m => rfl
  | arch a k =>
    simp only []
    cases hq : q.find? (fun qa => qa.a == a) with
    | none => rfl
    | some qa =>
      simp only []
      cases hs : w.archs[a]? with
      | none => rfl
      | some s =>
        simp only []
        cases hd : h.kind.isDirect <;>
        · simp only [runFindArm, qsRun, qsStep, if_true, Bool.false_eq_true, if_false]
          cases hres : storageResolve cfg s _ k with
          | ub m => rfl
          | panic m s' => rfl
          | ok r s' =>
            cases r with
            | none => rfl
            | some d =>
              simp only []
              by_cases hv : slicesValid cfg s = true
              · simp only [hv, if_true]
                cases hb : bindArgs (w.ids.getD a ID_RANGE) s s.version d qa.params with
                | none => rfl
                | some args =>
                  simp only []
                  cases f st args <;> rfl
              · have hv' : slicesValid cfg s = false := by simpa using hv
                simp [hv']

end Gecs
