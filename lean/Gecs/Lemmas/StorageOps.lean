/-
Outcome-level specifications of the storage operations under the representation invariant:
resolution, push / push_within_capacity, destroy, the small state transformers, clone, drop
and refilling up to capacity.
-/
import Gecs.Lemmas.Inv
import Gecs.Lemmas.SwapRemove
import Gecs.Lemmas.Grow
import Gecs.Lemmas.Create
import Gecs.Lemmas.Destroy

namespace Gecs
variable {α : Type}

/-! ## Basic consequences of `Inv` -/

theorem Inv.ents_lt {cfg : Cfg} {s : Storage α} (h : Inv cfg s) {d : Nat} {e : Ent}
    (hd : s.ents[d]? = some e) : d < s.len := by
  have := (List.getElem?_eq_some_iff.mp hd).1; rw [h.entsLen] at this; exact this

theorem Inv.ents_slot_lt {cfg : Cfg} {s : Storage α} (h : Inv cfg s) {d : Nat} {e : Ent}
    (hd : s.ents[d]? = some e) : e.slot < s.capacity := by
  have := (List.getElem?_eq_some_iff.mp (h.dense d e hd)).1
  rw [h.slotsLen] at this; exact this

/-- Under `Inv` a handle occurs at most once in the dense array. -/
theorem ents_index_unique (cfg : Cfg) (s : Storage α) (h : Inv cfg s) (i j : Nat) (e : Ent)
    (hi : s.ents[i]? = some e) (hj : s.ents[j]? = some e) : i = j := by
  have a := h.dense i e hi
  have b := h.dense j e hj
  rw [a] at b; cases b; rfl

theorem ents_nodup {cfg : Cfg} {s : Storage α} (h : Inv cfg s) : s.ents.Nodup := by
  rw [List.nodup_iff_pairwise_ne, List.pairwise_iff_getElem]
  intro i j hi hj hij heq
  have a : s.ents[i]? = some s.ents[i] := List.getElem?_eq_getElem hi
  have b : s.ents[j]? = some s.ents[i] := by rw [heq]; exact List.getElem?_eq_getElem hj
  have := ents_index_unique cfg s h i j _ a b
  omega

/-- Membership after swap-removing the handle at dense index `d`. -/
theorem mem_swapRemove_ents (cfg : Cfg) (s : Storage α) (h : Inv cfg s) (d : Nat) (t : Ent)
    (ht : s.ents[d]? = some t) (x : Ent) :
    x ∈ swapRemove s.ents d ↔ (x ∈ s.ents ∧ x ≠ t) :=
  mem_swapRemove_of_nodup s.ents d t (ents_nodup h) ht x

/-- Distinct live handles occupy distinct slots. -/
theorem ents_slot_unique {cfg : Cfg} {s : Storage α} (h : Inv cfg s) (i j : Nat) (e e' : Ent)
    (hi : s.ents[i]? = some e) (hj : s.ents[j]? = some e') (hs : e.slot = e'.slot) :
    i = j ∧ e = e' := by
  have a := h.dense i e hi
  have b := h.dense j e' hj
  rw [hs, b] at a
  simp only [Option.some.injEq, Slot.mk.injEq, SIdx.data.injEq] at a
  obtain ⟨hij, _⟩ := a
  subst hij
  rw [hi] at hj; cases hj; exact ⟨rfl, rfl⟩

/-! ## `resolve_entity` -/

/-- A handle stored in the dense array resolves to its position; in particular no debug
assertion fires. -/
theorem resolveEntity_of_mem {cfg : Cfg} {s : Storage α} (h : Inv cfg s) {d : Nat} {e : Ent}
    (hd : s.ents[d]? = some e) : resolveEntity cfg s e = .ok (some (e.slot, d)) s := by
  have hs := h.dense d e hd
  have hdl : d < s.len := h.ents_lt hd
  have hsl : e.slot < s.capacity := h.ents_slot_lt hd
  have h1 : ¬ s.len = 0 := by omega
  have h2 : ¬ e.slot ≥ s.capacity := by omega
  cases hdbg : cfg.debug <;>
    simp [resolveEntity, h1, h2, hs, SIdx.isFree, hdl, hd, hdbg]

/-- Outcomes of `resolve_entity` under the invariant: miss, hit at the dense position of the
handle, or (debug builds only) the "invalid entity handle" assertion for an out-of-range slot
index.  Never UB; the state is never changed. -/
theorem resolveEntity_spec (cfg : Cfg) (s : Storage α) (e : Ent) (h : Inv cfg s) :
    resolveEntity cfg s e = .ok none s
    ∨ (∃ d, resolveEntity cfg s e = .ok (some (e.slot, d)) s ∧ s.ents[d]? = some e)
    ∨ (∃ msg, resolveEntity cfg s e = .panic msg s ∧ cfg.debug = true
        ∧ s.len ≠ 0 ∧ e.slot ≥ s.capacity ∧ msg = "debug_assert: invalid entity handle") := by
  by_cases h0 : s.len = 0
  · left; simp [resolveEntity, h0]
  by_cases hcap : e.slot ≥ s.capacity
  · cases hdbg : cfg.debug
    · left; simp [resolveEntity, h0, hcap, hdbg]
    · right; right
      exact ⟨_, by simp [resolveEntity, h0, hcap, hdbg], rfl, h0, hcap, rfl⟩
  have hlt : e.slot < s.slots.length := by rw [h.slotsLen]; omega
  obtain ⟨sl, hsl⟩ : ∃ sl, s.slots[e.slot]? = some sl := ⟨s.slots[e.slot], by simp [hlt]⟩
  obtain ⟨idx, ver⟩ := sl
  by_cases hver : ver = e.ver
  · cases idx with
    | data d =>
      have hent := h.sparse _ _ _ hsl
      have he : (⟨e.slot, ver⟩ : Ent) = e := by cases e; simp_all
      rw [he] at hent
      right; left
      exact ⟨d, resolveEntity_of_mem h hent, hent⟩
    | free n => left; simp [resolveEntity, h0, hcap, hsl, SIdx.isFree]
    | freeEnd => left; simp [resolveEntity, h0, hcap, hsl, SIdx.isFree]
  · left; simp [resolveEntity, h0, hcap, hsl, hver]

theorem resolveEntity_not_ub (cfg : Cfg) (s : Storage α) (e : Ent) (h : Inv cfg s) :
    ∀ m, resolveEntity cfg s e ≠ .ub m := by
  intro m hm
  rcases resolveEntity_spec cfg s e h with h1 | ⟨d, h1, _⟩ | ⟨msg, h1, _⟩ <;>
    rw [h1] at hm <;> cases hm

/-- A handle — any handle, any words — resolves iff it is in the dense array. -/
theorem resolve_iff_mem (cfg : Cfg) (s : Storage α) (h : Inv cfg s) (e : Ent) :
    (∃ d, resolveEntity cfg s e = .ok (some (e.slot, d)) s) ↔ e ∈ s.ents := by
  constructor
  · rintro ⟨d, hd⟩
    rcases resolveEntity_spec cfg s e h with h1 | ⟨d', _, h2⟩ | ⟨msg, h1, _⟩
    · rw [h1] at hd; cases hd
    · exact List.mem_of_getElem? h2
    · rw [h1] at hd; cases hd
  · intro hm
    obtain ⟨d, hd⟩ := List.getElem?_of_mem hm
    exact ⟨d, resolveEntity_of_mem h hd⟩

/-- A handle that is not in the dense array misses (or, in debug builds with an out-of-range
slot index, trips the assertion). -/
theorem resolveEntity_of_not_mem (cfg : Cfg) (s : Storage α) (e : Ent) (h : Inv cfg s)
    (hn : e ∉ s.ents) :
    resolveEntity cfg s e = .ok none s
    ∨ (resolveEntity cfg s e = .panic "debug_assert: invalid entity handle" s
        ∧ cfg.debug = true ∧ s.len ≠ 0 ∧ e.slot ≥ s.capacity) := by
  rcases resolveEntity_spec cfg s e h with h1 | ⟨d, _, h2⟩ | ⟨msg, h1, h2, h3, h4, rfl⟩
  · exact .inl h1
  · exact absurd (List.mem_of_getElem? h2) hn
  · exact .inr ⟨h1, h2, h3, h4⟩

/-! ## `resolve_direct` -/

theorem resolveDirect_of_lt {cfg : Cfg} {s : Storage α} (h : Inv cfg s) {d : Nat} {e : Ent}
    (hd : s.ents[d]? = some e) :
    resolveDirect cfg s d s.version = .ok (some (e.slot, d)) s := by
  have hs := h.dense d e hd
  have hdl : d < s.len := h.ents_lt hd
  have hsl : e.slot < s.capacity := h.ents_slot_lt hd
  have h1 : ¬ s.len = 0 := by omega
  have h2 : ¬ d ≥ s.len := by omega
  cases hdbg : cfg.debug <;>
    simp [resolveDirect, h1, h2, hs, SIdx.isFree, hsl, hd, hdbg]

theorem resolveDirect_spec (cfg : Cfg) (s : Storage α) (d v : Nat) (h : Inv cfg s) :
    resolveDirect cfg s d v = .ok none s
    ∨ (∃ e, resolveDirect cfg s d v = .ok (some (e.slot, d)) s ∧ v = s.version
        ∧ s.ents[d]? = some e)
    ∨ (∃ msg, resolveDirect cfg s d v = .panic msg s ∧ cfg.debug = true
        ∧ s.len ≠ 0 ∧ v = s.version ∧ d ≥ s.len
        ∧ msg = "debug_assert: invalid entity handle") := by
  by_cases h0 : s.len = 0
  · left; simp [resolveDirect, h0]
  by_cases hv : ¬ v = s.version
  · left; simp [resolveDirect, h0, hv]
  have hv : v = s.version := Decidable.of_not_not hv
  subst hv
  by_cases hd : d ≥ s.len
  · cases hdbg : cfg.debug
    · left; simp [resolveDirect, h0, hd, hdbg]
    · right; right
      exact ⟨_, by simp [resolveDirect, h0, hd, hdbg], rfl, h0, rfl, hd, rfl⟩
  have hlt : d < s.ents.length := by rw [h.entsLen]; omega
  have hent : s.ents[d]? = some s.ents[d] := List.getElem?_eq_getElem hlt
  right; left
  exact ⟨s.ents[d], resolveDirect_of_lt h hent, rfl, hent⟩

theorem resolveDirect_not_ub (cfg : Cfg) (s : Storage α) (d v : Nat) (h : Inv cfg s) :
    ∀ m, resolveDirect cfg s d v ≠ .ub m := by
  intro m hm
  rcases resolveDirect_spec cfg s d v h with h1 | ⟨e, h1, _⟩ | ⟨msg, h1, _⟩ <;>
    rw [h1] at hm <;> cases hm

theorem resolveDirect_iff (cfg : Cfg) (s : Storage α) (d v : Nat) (h : Inv cfg s) :
    (∃ si, resolveDirect cfg s d v = .ok (some (si, d)) s) ↔ (v = s.version ∧ d < s.len) := by
  constructor
  · rintro ⟨si, hsi⟩
    rcases resolveDirect_spec cfg s d v h with h1 | ⟨e, _, h2, h3⟩ | ⟨msg, h1, _⟩
    · rw [h1] at hsi; cases hsi
    · exact ⟨h2, h.ents_lt h3⟩
    · rw [h1] at hsi; cases hsi
  · rintro ⟨rfl, hd⟩
    have hlt : d < s.ents.length := by rw [h.entsLen]; omega
    exact ⟨_, resolveDirect_of_lt h (List.getElem?_eq_getElem hlt)⟩

/-! ## `push` / `push_within_capacity` -/

/-- The handle issued by `force_create` is not in the dense array beforehand. -/
theorem forceCreate_fresh {cfg : Cfg} {s : Storage α} (h : Inv cfg s) {e : Ent}
    (hfree : ∃ sl, s.slots[e.slot]? = some sl ∧ sl.idx.isFree = true ∧ sl.ver = e.ver) :
    e ∉ s.ents := by
  intro hm
  obtain ⟨sl, hsl, hf, _⟩ := hfree
  obtain ⟨d, hd⟩ := List.getElem?_of_mem hm
  have := h.dense d e hd
  rw [hsl] at this; cases this; simp [SIdx.isFree] at hf

/-- `push` with room to spare or room to grow: full description of the result. -/
theorem push_ok (cfg : Cfg) (g : Nat → Nat) (s : Storage α) (row : List α) (h : Inv cfg s)
    (hv : CfgOk cfg)
    (hg : s.capacity < cfg.maxCap → s.capacity < g s.capacity ∧ g s.capacity ≤ cfg.maxCap)
    (hlt : s.len < cfg.maxCap) :
    ∃ e s', push cfg g s row = .ok e s' ∧ Inv cfg s' ∧ s'.len = s.len + 1
      ∧ s.capacity ≤ s'.capacity ∧ s'.ents = s.ents ++ [e] ∧ e ∉ s.ents
      ∧ s'.version = s.version ∧ (s.len < s.capacity → s'.capacity = s.capacity)
      ∧ (¬ s.len < s.capacity → s'.capacity = g s.capacity)
      ∧ s'.cols = List.zipWith (fun c x => c ++ [x]) s.cols row
      ∧ s'.created = (if cfg.events then s.created ++ [e] else s.created)
      ∧ s'.destroyed = s.destroyed
      ∧ (∃ sl, s'.slots[e.slot]? = some sl ∧ sl = ⟨.data s.len, e.ver⟩)
      ∧ (∀ (i : Nat) (sl : Slot), i ≠ e.slot → s.slots[i]? = some sl → s'.slots[i]? = some sl)
      ∧ (∀ sl, s.slots[e.slot]? = some sl → sl.idx.isFree = true ∧ sl.ver = e.ver) := by
  by_cases hfull : s.len ≥ s.capacity
  · have hcap : s.len = s.capacity := Nat.le_antisymm h.lenCap hfull
    have hroom : s.capacity < cfg.maxCap := by omega
    obtain ⟨s1, hgr, hinv1, hlen1, hcap1, hents1, hcols1, hver1, hcr1, hde1, hslots1⟩ :=
      grow_inv cfg s (g s.capacity) h hcap hroom (hg hroom) hv
    have hlt1 : s1.len < s1.capacity := by rw [hlen1, hcap1, hcap]; exact (hg hroom).1
    obtain ⟨e, s', hok, hinv', hlen', hcap', hver', hents', hcols', hfree, hslots', hcr', hde'⟩ :=
      forceCreate_inv cfg s1 row hinv1 hlt1
    have hfr : e ∉ s1.ents := forceCreate_fresh hinv1 hfree
    have hes : e.slot < s'.slots.length := by
      obtain ⟨sl, hsl, _⟩ := hfree
      rw [hslots', List.length_set]; exact (List.getElem?_eq_some_iff.mp hsl).1
    refine ⟨e, s', ?_, hinv', by omega, by have := (hg hroom).1; omega, by rw [hents', hents1],
      by rw [← hents1]; exact hfr, by rw [hver', hver1], by intro hh; omega,
      by intro _; rw [hcap', hcap1], by rw [hcols', hcols1], by rw [hcr', hcr1],
      by rw [hde', hde1], ?_, ?_, ?_⟩
    · simp [push, hfull, hgr, hok]
    · refine ⟨_, List.getElem?_eq_getElem hes, ?_⟩
      simp [hslots', hlen1]
    · intro i sl hne hi
      have hic : i < s.capacity := by
        have := (List.getElem?_eq_some_iff.mp hi).1; rw [h.slotsLen] at this; exact this
      rw [hslots', List.getElem?_set_ne (Ne.symm hne), hslots1 i hic]; exact hi
    · intro sl hsl
      have hic : e.slot < s.capacity := by
        have := (List.getElem?_eq_some_iff.mp hsl).1; rw [h.slotsLen] at this; exact this
      obtain ⟨sl1, hsl1, hf1, hv1⟩ := hfree
      rw [hslots1 _ hic, hsl] at hsl1; cases hsl1; exact ⟨hf1, hv1⟩
  · have hlt' : s.len < s.capacity := by omega
    obtain ⟨e, s', hok, hinv', hlen', hcap', hver', hents', hcols', hfree, hslots', hcr', hde'⟩ :=
      forceCreate_inv cfg s row h hlt'
    have hes : e.slot < s'.slots.length := by
      obtain ⟨sl, hsl, _⟩ := hfree
      rw [hslots', List.length_set]; exact (List.getElem?_eq_some_iff.mp hsl).1
    refine ⟨e, s', ?_, hinv', hlen', by omega, hents', forceCreate_fresh h hfree, hver',
      fun _ => hcap', fun hh => absurd hlt' hh, hcols', hcr', hde', ?_, ?_, ?_⟩
    · simp [push, hfull, hok]
    · refine ⟨_, List.getElem?_eq_getElem hes, ?_⟩
      simp [hslots']
    · intro i sl hne hi
      rw [hslots', List.getElem?_set_ne (Ne.symm hne)]; exact hi
    · intro sl hsl
      obtain ⟨sl1, hsl1, hf1, hv1⟩ := hfree
      rw [hsl] at hsl1; cases hsl1; exact ⟨hf1, hv1⟩

/-- `push` at the hard capacity limit panics and leaves the state unchanged. -/
theorem push_overflow (cfg : Cfg) (g : Nat → Nat) (s : Storage α) (row : List α)
    (h : Inv cfg s) (hfull : s.len = cfg.maxCap) :
    s.capacity = cfg.maxCap ∧ push cfg g s row = .panic "capacity overflow" s := by
  have hcap : s.capacity = cfg.maxCap := by have := h.lenCap; have := h.capMax; omega
  refine ⟨hcap, ?_⟩
  have h1 : s.len ≥ s.capacity := by omega
  have h2 : grow cfg s (g s.capacity) = none := (grow_none_iff cfg s _).mpr (by omega)
  simp [push, h1, h2]

theorem push_spec (cfg : Cfg) (g : Nat → Nat) (s : Storage α) (row : List α) (h : Inv cfg s)
    (hv : CfgOk cfg)
    (hg : s.capacity < cfg.maxCap → s.capacity < g s.capacity ∧ g s.capacity ≤ cfg.maxCap) :
    (s.len < cfg.maxCap →
      ∃ e s', push cfg g s row = .ok e s' ∧ Inv cfg s' ∧ s'.len = s.len + 1
        ∧ s.capacity ≤ s'.capacity ∧ s'.ents = s.ents ++ [e] ∧ e ∉ s.ents
        ∧ s'.version = s.version ∧ (s.len < s.capacity → s'.capacity = s.capacity))
    ∧ (s.len = cfg.maxCap →
        s.capacity = cfg.maxCap ∧ push cfg g s row = .panic "capacity overflow" s) := by
  refine ⟨fun hlt => ?_, push_overflow cfg g s row h⟩
  obtain ⟨e, s', h1, h2, h3, h4, h5, h6, h7, h8, _⟩ := push_ok cfg g s row h hv hg hlt
  exact ⟨e, s', h1, h2, h3, h4, h5, h6, h7, h8⟩

/-- `push` never reaches UB from a state satisfying the invariant. -/
theorem push_not_ub (cfg : Cfg) (g : Nat → Nat) (s : Storage α) (row : List α) (h : Inv cfg s)
    (hv : CfgOk cfg)
    (hg : s.capacity < cfg.maxCap → s.capacity < g s.capacity ∧ g s.capacity ≤ cfg.maxCap) :
    ∀ m, push cfg g s row ≠ .ub m := by
  intro m hm
  by_cases hlt : s.len < cfg.maxCap
  · obtain ⟨e, s', h1, _⟩ := push_ok cfg g s row h hv hg hlt
    rw [h1] at hm; cases hm
  · have : s.len = cfg.maxCap := by have := h.lenCap; have := h.capMax; omega
    rw [(push_overflow cfg g s row h this).2] at hm; cases hm

theorem pushWithin_ok (cfg : Cfg) (s : Storage α) (row : List α) (h : Inv cfg s)
    (hlt : s.len < s.capacity) :
    ∃ e s', pushWithin cfg s row = .ok (some e) s' ∧ Inv cfg s' ∧ s'.len = s.len + 1
      ∧ s'.capacity = s.capacity ∧ s'.ents = s.ents ++ [e] ∧ e ∉ s.ents
      ∧ s'.version = s.version
      ∧ s'.cols = List.zipWith (fun c x => c ++ [x]) s.cols row
      ∧ s'.created = (if cfg.events then s.created ++ [e] else s.created)
      ∧ s'.destroyed = s.destroyed := by
  obtain ⟨e, s', hok, hinv', hlen', hcap', hver', hents', hcols', hfree, _, hcr', hde'⟩ :=
    forceCreate_inv cfg s row h hlt
  have hnf : ¬ s.len ≥ s.capacity := by omega
  exact ⟨e, s', by simp [pushWithin, hnf, hok], hinv', hlen', hcap', hents',
    forceCreate_fresh h hfree, hver', hcols', hcr', hde'⟩

theorem pushWithin_spec (cfg : Cfg) (s : Storage α) (row : List α) (h : Inv cfg s) :
    (s.len < s.capacity →
      ∃ e s', pushWithin cfg s row = .ok (some e) s' ∧ Inv cfg s' ∧ s'.len = s.len + 1
        ∧ s'.capacity = s.capacity ∧ s'.ents = s.ents ++ [e])
    ∧ (s.len ≥ s.capacity → pushWithin cfg s row = .ok none s) := by
  refine ⟨fun hlt => ?_, fun hge => by simp [pushWithin, hge]⟩
  obtain ⟨e, s', h1, h2, h3, h4, h5, _⟩ := pushWithin_ok cfg s row h hlt
  exact ⟨e, s', h1, h2, h3, h4, h5⟩

/-! ## `resolve_destroy` -/

/-- Destroying a handle that sits at dense index `d` is `force_destroy` on `(e.slot, d)`. -/
theorem destroyEnt_of_mem {cfg : Cfg} {s : Storage α} (h : Inv cfg s) {d : Nat} {e : Ent}
    (hd : s.ents[d]? = some e) :
    destroyEnt cfg s e =
      (match forceDestroy cfg s e.slot d with
      | .ok r s' => .ok (some r) s'
      | .panic m s' => .panic m s'
      | .ub m => .ub m) := by
  unfold destroyEnt
  rw [resolveEntity_of_mem h hd]
  rfl

theorem destroyDirect_of_lt {cfg : Cfg} {s : Storage α} (h : Inv cfg s) {d : Nat} {e : Ent}
    (hd : s.ents[d]? = some e) :
    destroyDirect cfg s d s.version =
      (match forceDestroy cfg s e.slot d with
      | .ok r s' => .ok (some r) s'
      | .panic m s' => .panic m s'
      | .ub m => .ub m) := by
  unfold destroyDirect
  rw [resolveDirect_of_lt h hd]
  rfl

/-- Removing the handle at dense index `d` by swap-remove is, up to order, `erase`. -/
theorem swapRemove_perm_erase (l : List Ent) (d : Nat) (e : Ent) (hd : l[d]? = some e) :
    (swapRemove l d).Perm (l.erase e) := by
  have h1 : (swapRemove l d ++ [e]).Perm l := swapRemove_append_perm l d e hd
  have h2 : l.Perm (e :: l.erase e) := List.perm_cons_erase (List.mem_of_getElem? hd)
  have h3 : (e :: swapRemove l d).Perm (swapRemove l d ++ [e]) :=
    (List.perm_append_singleton e _).symm
  exact (h3.trans (h1.trans h2)).cons_inv

/-- The common core of `destroyEnt` / `destroyDirect`: the three outcomes of `force_destroy`
on a live handle. -/
theorem forceDestroy_live (cfg : Cfg) (s : Storage α) (d : Nat) (e : Ent) (h : Inv cfg s)
    (hd : s.ents[d]? = some e) :
    (∃ row s' sv av, forceDestroy cfg s e.slot d = .ok row s' ∧ Inv cfg s'
        ∧ nextVer cfg e.ver = some sv ∧ nextVer cfg s.version = some av
        ∧ row = s.cols.filterMap (·[d]?) ∧ row.length = s.cols.length
        ∧ s'.len = s.len - 1 ∧ s'.capacity = s.capacity ∧ s'.version = av
        ∧ s'.ents = swapRemove s.ents d ∧ s'.ents.Perm (s.ents.erase e)
        ∧ s'.cols = s.cols.map (fun c => swapRemove c d)
        ∧ s'.created = s.created
        ∧ s'.destroyed = (if cfg.events then s.destroyed ++ [e] else s.destroyed))
    ∨ (forceDestroy cfg s e.slot d = .panic "slot version overflow" s
        ∧ nextVer cfg e.ver = none)
    ∨ (forceDestroy cfg s e.slot d = .panic "arch version overflow" s
        ∧ nextVer cfg s.version = none) := by
  have hsl := h.dense d e hd
  cases hsv : nextVer cfg e.ver with
  | none => exact .inr (.inl ⟨forceDestroy_slot_overflow cfg s _ d _ h hsl hsv, rfl⟩)
  | some sv =>
    cases hav : nextVer cfg s.version with
    | none => exact .inr (.inr ⟨forceDestroy_arch_overflow cfg s _ d _ h hsl sv hsv hav, rfl⟩)
    | some av =>
      obtain ⟨row, s', hok, hinv, hrow, hrl, hlen, hcap, hver, hents, hcols, _, _, hcr, hde⟩ :=
        forceDestroy_inv cfg s e.slot d e.ver h hsl sv av hsv hav
      refine .inl ⟨row, s', sv, av, hok, hinv, rfl, rfl, hrow, hrl, hlen, hcap, hver, hents,
        ?_, hcols, hcr, hde⟩
      rw [hents]; exact swapRemove_perm_erase s.ents d e hd

theorem destroyEnt_spec (cfg : Cfg) (s : Storage α) (e : Ent) (h : Inv cfg s) :
    (destroyEnt cfg s e = .ok none s ∧ e ∉ s.ents)
    ∨ (∃ row s', destroyEnt cfg s e = .ok (some row) s' ∧ Inv cfg s' ∧ e ∈ s.ents
        ∧ s'.len = s.len - 1 ∧ s'.capacity = s.capacity ∧ s'.ents.Perm (s.ents.erase e))
    ∨ (∃ msg, destroyEnt cfg s e = .panic msg s
        ∧ ((cfg.debug = true ∧ e ∉ s.ents ∧ e.slot ≥ s.capacity)
          ∨ (e ∈ s.ents ∧ (nextVer cfg e.ver = none ∨ nextVer cfg s.version = none)))) := by
  by_cases hm : e ∈ s.ents
  · obtain ⟨d, hd⟩ := List.getElem?_of_mem hm
    rw [destroyEnt_of_mem h hd]
    rcases forceDestroy_live cfg s d e h hd with
      ⟨row, s', sv, av, hok, hinv, _, _, _, _, hlen, hcap, _, _, hperm, _⟩ | ⟨hp, hn⟩ | ⟨hp, hn⟩
    · right; left; rw [hok]; exact ⟨row, s', rfl, hinv, hm, hlen, hcap, hperm⟩
    · right; right; rw [hp]; exact ⟨_, rfl, .inr ⟨hm, .inl hn⟩⟩
    · right; right; rw [hp]; exact ⟨_, rfl, .inr ⟨hm, .inr hn⟩⟩
  · rcases resolveEntity_of_not_mem cfg s e h hm with h1 | ⟨h1, h2, _, h4⟩
    · left; exact ⟨by simp [destroyEnt, h1], hm⟩
    · right; right
      exact ⟨"debug_assert: invalid entity handle", by simp [destroyEnt, h1], .inl ⟨h2, hm, h4⟩⟩

theorem destroyEnt_not_ub (cfg : Cfg) (s : Storage α) (e : Ent) (h : Inv cfg s) :
    ∀ m, destroyEnt cfg s e ≠ .ub m := by
  intro m hm
  rcases destroyEnt_spec cfg s e h with ⟨h1, _⟩ | ⟨_, _, h1, _⟩ | ⟨_, h1, _⟩ <;>
    rw [h1] at hm <;> cases hm

theorem destroyDirect_spec (cfg : Cfg) (s : Storage α) (d v : Nat) (h : Inv cfg s) :
    (destroyDirect cfg s d v = .ok none s ∧ ¬ (v = s.version ∧ d < s.len))
    ∨ (∃ e row s', destroyDirect cfg s d v = .ok (some row) s' ∧ Inv cfg s'
        ∧ v = s.version ∧ s.ents[d]? = some e
        ∧ s'.len = s.len - 1 ∧ s'.capacity = s.capacity ∧ s'.ents.Perm (s.ents.erase e))
    ∨ (∃ msg, destroyDirect cfg s d v = .panic msg s
        ∧ ((cfg.debug = true ∧ v = s.version ∧ d ≥ s.len ∧ s.len ≠ 0)
          ∨ (∃ e, v = s.version ∧ s.ents[d]? = some e
              ∧ (nextVer cfg e.ver = none ∨ nextVer cfg s.version = none)))) := by
  rcases resolveDirect_spec cfg s d v h with h1 | ⟨e, _, rfl, hd⟩ | ⟨msg, h1, h2, h3, h4, h5, _⟩
  · left
    refine ⟨by simp [destroyDirect, h1], ?_⟩
    intro hc
    obtain ⟨si, hsi⟩ := (resolveDirect_iff cfg s d v h).mpr hc
    rw [h1] at hsi; cases hsi
  · rw [destroyDirect_of_lt h hd]
    rcases forceDestroy_live cfg s d e h hd with
      ⟨row, s', sv, av, hok, hinv, _, _, _, _, hlen, hcap, _, _, hperm, _⟩ | ⟨hp, hn⟩ | ⟨hp, hn⟩
    · right; left; rw [hok]; exact ⟨e, row, s', rfl, hinv, rfl, hd, hlen, hcap, hperm⟩
    · right; right; rw [hp]; exact ⟨_, rfl, .inr ⟨e, rfl, hd, .inl hn⟩⟩
    · right; right; rw [hp]; exact ⟨_, rfl, .inr ⟨e, rfl, hd, .inr hn⟩⟩
  · right; right
    exact ⟨msg, by simp [destroyDirect, h1], .inl ⟨h2, h4, h5, h3⟩⟩

theorem destroyDirect_not_ub (cfg : Cfg) (s : Storage α) (d v : Nat) (h : Inv cfg s) :
    ∀ m, destroyDirect cfg s d v ≠ .ub m := by
  intro m hm
  rcases destroyDirect_spec cfg s d v h with ⟨h1, _⟩ | ⟨_, _, _, h1, _⟩ | ⟨_, h1, _⟩ <;>
    rw [h1] at hm <;> cases hm

/-! ## Derived resolvers (`resolve_for`, `resolve_direct` of `StorageCanResolve`) -/

theorem resolveForEnt_of_mem {cfg : Cfg} {s : Storage α} (h : Inv cfg s) {d : Nat} {e : Ent}
    (hd : s.ents[d]? = some e) : resolveForEnt cfg s e = .ok (some d) s := by
  have hdl : d < s.len := h.ents_lt hd
  have hc : s.len ≤ cfg.maxCap ∧ d ≤ s.len :=
    ⟨Nat.le_trans h.lenCap h.capMax, Nat.le_of_lt hdl⟩
  unfold resolveForEnt
  rw [resolveEntity_of_mem h hd]
  simp [hc]

theorem resolveForEnt_of_not_mem (cfg : Cfg) (s : Storage α) (e : Ent) (h : Inv cfg s)
    (hn : e ∉ s.ents) :
    resolveForEnt cfg s e = .ok none s
    ∨ (resolveForEnt cfg s e = .panic "debug_assert: invalid entity handle" s
        ∧ cfg.debug = true ∧ s.len ≠ 0 ∧ e.slot ≥ s.capacity) := by
  rcases resolveEntity_of_not_mem cfg s e h hn with h1 | ⟨h1, h2⟩
  · left; simp [resolveForEnt, h1]
  · right; exact ⟨by simp [resolveForEnt, h1], h2⟩

theorem toDirectEnt_of_mem {cfg : Cfg} {s : Storage α} (h : Inv cfg s) {d : Nat} {e : Ent}
    (hd : s.ents[d]? = some e) : toDirectEnt cfg s e = .ok (some (d, s.version)) s := by
  unfold toDirectEnt
  rw [resolveEntity_of_mem h hd]

theorem toDirectEnt_of_not_mem (cfg : Cfg) (s : Storage α) (e : Ent) (h : Inv cfg s)
    (hn : e ∉ s.ents) :
    toDirectEnt cfg s e = .ok none s
    ∨ (toDirectEnt cfg s e = .panic "debug_assert: invalid entity handle" s
        ∧ cfg.debug = true ∧ s.len ≠ 0 ∧ e.slot ≥ s.capacity) := by
  rcases resolveEntity_of_not_mem cfg s e h hn with h1 | ⟨h1, h2⟩
  · left; simp [toDirectEnt, h1]
  · right; exact ⟨by simp [toDirectEnt, h1], h2⟩

/-- A direct handle that is stale (wrong archetype version) or out of range misses, or trips
the debug assertion when the version is current but the index is out of range. -/
theorem resolveDirect_of_not (cfg : Cfg) (s : Storage α) (d v : Nat) (h : Inv cfg s)
    (hn : ¬ (v = s.version ∧ d < s.len)) :
    resolveDirect cfg s d v = .ok none s
    ∨ (resolveDirect cfg s d v = .panic "debug_assert: invalid entity handle" s
        ∧ cfg.debug = true ∧ s.len ≠ 0 ∧ v = s.version ∧ d ≥ s.len) := by
  rcases resolveDirect_spec cfg s d v h with h1 | ⟨e, _, h2, h3⟩ | ⟨msg, h1, h2, h3, h4, h5, rfl⟩
  · exact .inl h1
  · exact absurd ⟨h2, h.ents_lt h3⟩ hn
  · exact .inr ⟨h1, h2, h3, h4, h5⟩

theorem resolveForDirect_of_lt {cfg : Cfg} {s : Storage α} (h : Inv cfg s) {d : Nat}
    (hd : d < s.len) : resolveForDirect cfg s d s.version = .ok (some d) s := by
  have hlt : d < s.ents.length := by rw [h.entsLen]; exact hd
  have hc : s.len ≤ cfg.maxCap ∧ d ≤ s.len :=
    ⟨Nat.le_trans h.lenCap h.capMax, Nat.le_of_lt hd⟩
  unfold resolveForDirect
  rw [resolveDirect_of_lt h (List.getElem?_eq_getElem hlt)]
  simp [hc]

theorem resolveForDirect_of_not (cfg : Cfg) (s : Storage α) (d v : Nat) (h : Inv cfg s)
    (hn : ¬ (v = s.version ∧ d < s.len)) :
    resolveForDirect cfg s d v = .ok none s
    ∨ (resolveForDirect cfg s d v = .panic "debug_assert: invalid entity handle" s
        ∧ cfg.debug = true ∧ s.len ≠ 0 ∧ v = s.version ∧ d ≥ s.len) := by
  rcases resolveDirect_of_not cfg s d v h hn with h1 | ⟨h1, h2⟩
  · left; simp [resolveForDirect, h1]
  · right; exact ⟨by simp [resolveForDirect, h1], h2⟩

theorem toDirectDirect_of_lt {cfg : Cfg} {s : Storage α} (h : Inv cfg s) {d : Nat}
    (hd : d < s.len) : toDirectDirect cfg s d s.version = .ok (some (d, s.version)) s := by
  have hlt : d < s.ents.length := by rw [h.entsLen]; exact hd
  unfold toDirectDirect
  rw [resolveDirect_of_lt h (List.getElem?_eq_getElem hlt)]

theorem toDirectDirect_of_not (cfg : Cfg) (s : Storage α) (d v : Nat) (h : Inv cfg s)
    (hn : ¬ (v = s.version ∧ d < s.len)) :
    toDirectDirect cfg s d v = .ok none s
    ∨ (toDirectDirect cfg s d v = .panic "debug_assert: invalid entity handle" s
        ∧ cfg.debug = true ∧ s.len ≠ 0 ∧ v = s.version ∧ d ≥ s.len) := by
  rcases resolveDirect_of_not cfg s d v h hn with h1 | ⟨h1, h2⟩
  · left; simp [toDirectDirect, h1]
  · right; exact ⟨by simp [toDirectDirect, h1], h2⟩

/-! ## Small state transformers -/

theorem writeCell_inv {cfg : Cfg} {s : Storage α} {d c : Nat} {x : α} (h : Inv cfg s) :
    Inv cfg (writeCell s d c x) := by
  refine { h with colsLen := ?_ }
  intro col hcol
  simp only [writeCell] at hcol
  obtain ⟨j, hj⟩ := List.getElem?_of_mem hcol
  rw [List.getElem?_modify] at hj
  cases hsj : s.cols[j]? with
  | none => rw [hsj] at hj; cases hj
  | some c0 =>
    rw [hsj] at hj
    have hc0 := h.colsLen c0 (List.mem_of_getElem? hsj)
    simp only [Option.map_eq_map, Option.map_some, Option.some.injEq] at hj
    subst hj
    split <;> simp [hc0, writeCell]

theorem clearEvents_inv {cfg : Cfg} {s : Storage α} (h : Inv cfg s) :
    Inv cfg (clearEvents s) := by
  exact { h with }

/-- Overwriting all generations keeps the chain (the links are untouched). -/
theorem Chain.map_ver {slots : List Slot} {hd : SIdx} {L : List Nat} (sv : Nat)
    (c : Chain slots hd L) : Chain (slots.map (fun sl => { sl with ver := sv })) hd L := by
  induction c with
  | nil => exact .nil
  | @cons i sl L' hs hf _ ih =>
    refine .cons (sl := { sl with ver := sv }) ?_ hf ih
    rw [List.getElem?_map, hs]; rfl

theorem presetVersions_inv {cfg : Cfg} {s s' : Storage α} {sv av : Nat}
    (hp : presetVersions s sv av = some s') (h : Inv cfg s)
    (hsv : sv ≤ cfg.vmax) (hav : av ≤ cfg.vmax) : Inv cfg s' := by
  unfold presetVersions at hp
  split at hp
  · rename_i hc
    obtain ⟨h0, h1, h2⟩ := hc
    cases hp
    have hents : s.ents = [] := by
      have := h.entsLen; rw [h0] at this; exact List.eq_nil_of_length_eq_zero this
    constructor
    · simp [h.slotsLen]
    · exact h.entsLen
    · exact h.colsLen
    · exact h.lenCap
    · exact h.capMax
    · intro d e he; simp only at he; rw [hents] at he; simp at he
    · intro i d v hi
      simp only at hi
      rw [List.getElem?_map] at hi
      cases hsi : s.slots[i]? with
      | none => rw [hsi] at hi; cases hi
      | some sl =>
        rw [hsi] at hi
        obtain ⟨idx, ver⟩ := sl
        simp only [Option.map_some, Option.some.injEq, Slot.mk.injEq] at hi
        obtain ⟨rfl, _⟩ := hi
        have := h.sparse i d ver hsi
        rw [hents] at this; simp at this
    · obtain ⟨L, hc, hnd, hlen⟩ := h.chain
      exact ⟨L, hc.map_ver sv, hnd, by simpa using hlen⟩
    · intro i sl hi
      simp only at hi
      rw [List.getElem?_map] at hi
      cases hsi : s.slots[i]? with
      | none => rw [hsi] at hi; cases hi
      | some sl0 =>
        rw [hsi] at hi
        simp only [Option.map_some, Option.some.injEq] at hi
        subst hi
        exact ⟨h1, hsv⟩
    · exact ⟨h2, hav⟩
  · cases hp

/-- `readRow` succeeds exactly below `len`. -/
theorem readRow_spec {cfg : Cfg} {s : Storage α} (h : Inv cfg s) (d : Nat) :
    (d < s.len → readRow s d = some (s.cols.filterMap (·[d]?))
        ∧ (s.cols.filterMap (·[d]?)).length = s.cols.length)
    ∧ (d ≥ s.len → readRow s d = none) := by
  have hall : s.cols.all (fun c => c.length == s.len) = true := by
    rw [List.all_eq_true]; intro c hc; simp [h.colsLen c hc]
  constructor
  · intro hd
    exact ⟨by simp [readRow, hd, hall], filterMap_getElem?_length s.cols d s.len h.colsLen hd⟩
  · intro hd
    have : ¬ d < s.len := by omega
    simp [readRow, this]

/-! ## `Clone` / `Drop` -/

theorem cols_any_lt_false (cols : List (List α)) (n : Nat) (h : ∀ c ∈ cols, c.length = n) :
    cols.any (fun c => decide (c.length < n)) = false := by
  rw [List.any_eq_false]
  intro c hc; simp [h c hc]

theorem cloneStorage_both {cfg : Cfg} {s : Storage α} (cl : α → α) (h : Inv cfg s) :
    cloneStorage cl s = .ok { s with cols := s.cols.map (·.map cl) } s
    ∧ Inv cfg { s with cols := s.cols.map (·.map cl) } := by
  constructor
  · have hg : ¬ (s.slots.length < s.capacity ∨ s.ents.length < s.len
        ∨ (s.cols.any (fun c => decide (c.length < s.len))) = true) := by
      rw [cols_any_lt_false s.cols s.len h.colsLen, h.slotsLen, h.entsLen]
      simp
    unfold cloneStorage
    rw [if_neg hg]
    have h1 : s.slots.take s.capacity = s.slots :=
      List.take_of_length_le (by rw [h.slotsLen]; exact Nat.le_refl _)
    have h2 : s.ents.take s.len = s.ents :=
      List.take_of_length_le (by rw [h.entsLen]; exact Nat.le_refl _)
    have h3 : s.cols.map (fun c => (c.take s.len).map cl) = s.cols.map (·.map cl) := by
      apply List.map_congr_left
      intro c hc
      rw [List.take_of_length_le (by rw [h.colsLen c hc]; exact Nat.le_refl _)]
    rw [h1, h2, h3]
  · refine { h with colsLen := ?_ }
    intro c hc
    simp only [List.mem_map] at hc
    obtain ⟨c0, hc0, rfl⟩ := hc
    rw [List.length_map]; exact h.colsLen c0 hc0

/-- `Clone`: never UB under the invariant; the clone is the storage with every cell cloned
(`take len` of a column of exactly `len` cells is the column), the source is unchanged. -/
theorem cloneStorage_spec {cfg : Cfg} {s : Storage α} {cl : α → α} (h : Inv cfg s) :
    cloneStorage cl s = .ok { s with cols := s.cols.map (·.map cl) } s :=
  (cloneStorage_both cl h).1

/-- The clone satisfies the invariant. -/
theorem cloneStorage_inv {cfg : Cfg} {s : Storage α} {cl : α → α} (h : Inv cfg s) :
    Inv cfg { s with cols := s.cols.map (·.map cl) } :=
  (cloneStorage_both cl h).2

theorem dropStorage_spec {cfg : Cfg} {s : Storage α} (h : Inv cfg s) :
    dropStorage s = .ok (s.cols.flatMap id) () := by
  have hg : ¬ (s.cols.any (fun c => decide (c.length < s.len))) = true := by
    rw [cols_any_lt_false s.cols s.len h.colsLen]; simp
  unfold dropStorage
  rw [if_neg hg]
  have : s.cols.flatMap (fun c => c.take s.len) = s.cols.flatMap id := by
    rw [List.flatMap_def, List.flatMap_def]
    congr 1
    apply List.map_congr_left
    intro c hc
    rw [List.take_of_length_le (by rw [h.colsLen c hc]; exact Nat.le_refl _)]; rfl
  rw [this]

theorem dropStorage_spec_flatten {cfg : Cfg} {s : Storage α} (h : Inv cfg s) :
    dropStorage s = .ok s.cols.flatten () := by
  rw [dropStorage_spec h, List.flatMap_id]

/-! ## Refilling up to capacity -/

/-- `pushWithin` folded over a list of rows; collects the per-step results. -/
def pushWithinN (cfg : Cfg) : Storage α → List (List α) → Out (Storage α) (List (Option Ent))
  | s, [] => .ok [] s
  | s, row :: rows =>
    match pushWithin cfg s row with
    | .ok r s' =>
      (match pushWithinN cfg s' rows with
      | .ok rs s'' => .ok (r :: rs) s''
      | .panic m s'' => .panic m s''
      | .ub m => .ub m)
    | .panic m s' => .panic m s'
    | .ub m => .ub m

/-- Up to `capacity − len` successive `push_within_capacity` calls all succeed (every step
returns `some`), without growing. -/
theorem refill (cfg : Cfg) (s : Storage α) (rows : List (List α)) (h : Inv cfg s)
    (hk : rows.length ≤ s.capacity - s.len) :
    ∃ es s', pushWithinN cfg s rows = .ok (es.map some) s' ∧ es.length = rows.length
      ∧ Inv cfg s' ∧ s'.len = s.len + rows.length ∧ s'.capacity = s.capacity
      ∧ s'.ents = s.ents ++ es ∧ s'.version = s.version := by
  induction rows generalizing s with
  | nil => exact ⟨[], s, rfl, rfl, h, rfl, rfl, by simp, rfl⟩
  | cons row rows ih =>
    simp only [List.length_cons] at hk
    have hlt : s.len < s.capacity := by omega
    obtain ⟨e, s1, hok, hinv1, hlen1, hcap1, hents1, _, hver1, _⟩ :=
      pushWithin_ok cfg s row h hlt
    obtain ⟨es, s2, hok2, hl2, hinv2, hlen2, hcap2, hents2, hver2⟩ :=
      ih s1 hinv1 (by rw [hlen1, hcap1]; omega)
    refine ⟨e :: es, s2, ?_, by simp [hl2], hinv2, ?_, by rw [hcap2, hcap1], ?_,
      by rw [hver2, hver1]⟩
    · simp [pushWithinN, hok, hok2]
    · rw [hlen2, hlen1]; simp only [List.length_cons]; omega
    · rw [hents2, hents1]; simp

/-- After the storage is full, further `push_within_capacity` calls return `Err`. -/
theorem pushWithin_full {cfg : Cfg} {s : Storage α} (row : List α) (hfull : s.len ≥ s.capacity) :
    pushWithin cfg s row = .ok none s := by
  simp [pushWithin, hfull]

/-! ## Non-vacuity on the 3-slot storage with one hole (`holeEx`) -/
namespace StorageEx

-- the live handle in slot 2 resolves to dense index 1; a stale generation does not
example : resolveEntity cfgEx holeEx ⟨2, 1⟩ = .ok (some (2, 1)) holeEx :=
  resolveEntity_of_mem holeEx_inv (d := 1) rfl
example : resolveEntity cfgEx holeEx ⟨1, 1⟩ = .ok none holeEx := rfl
example : ∃ m, resolveEntity cfgEx holeEx ⟨7, 1⟩ = .panic m holeEx := ⟨_, rfl⟩
example : (⟨1, 2⟩ : Ent) ∉ holeEx.ents := by decide
example : resolveDirect cfgEx holeEx 1 2 = .ok (some (2, 1)) holeEx :=
  resolveDirect_of_lt holeEx_inv (d := 1) rfl

-- one refill step is possible (capacity 3, len 2), then the storage is full
example : ∃ (es : List Ent) (s' : Storage Nat),
    pushWithinN cfgEx holeEx [[13, 23]] = .ok (es.map some) s'
    ∧ es.length = 1 ∧ Inv cfgEx s' ∧ s'.len = 3 := by
  obtain ⟨es, s', h1, h2, h3, h4, _⟩ := refill cfgEx holeEx [[13, 23]] holeEx_inv (by decide)
  exact ⟨es, s', h1, h2, h3, h4⟩

-- push at the limit: a full storage at `maxCap`
def cfgTiny : Cfg := ⟨2, 5, false, true, true⟩

theorem fullEx_inv_tiny : Inv cfgTiny fullEx :=
  { fullEx_inv with capMax := by decide }

example : push cfgTiny (codeGrowth cfgTiny) fullEx [12] = .panic "capacity overflow" fullEx :=
  (push_overflow cfgTiny _ fullEx [12] fullEx_inv_tiny rfl).2

example : ∃ e s', push cfgEx (codeGrowth cfgEx) fullEx [12] = .ok e s' ∧ Inv cfgEx s'
    ∧ s'.len = 3 ∧ s'.capacity = 6 := by
  obtain ⟨e, s', h1, h2, h3, _, _, _, _, _, h9, _⟩ :=
    push_ok cfgEx (codeGrowth cfgEx) fullEx [12] fullEx_inv cfgEx_ok
      (fun hh => codeGrowth_ok cfgEx _ hh) (by decide)
  exact ⟨e, s', h1, h2, h3, by rw [h9 (by decide)]; decide⟩

example : ∃ row s', destroyEnt cfgEx holeEx ⟨0, 1⟩ = .ok (some row) s' ∧ Inv cfgEx s' := by
  rcases destroyEnt_spec cfgEx holeEx ⟨0, 1⟩ holeEx_inv with ⟨_, h2⟩ | ⟨row, s', h1, h2, _⟩
    | ⟨m, _, h2⟩
  · exact absurd h2 (by decide)
  · exact ⟨row, s', h1, h2⟩
  · exact absurd h2 (by decide)

-- a handle with a stale generation is refused, the state is unchanged
example : destroyEnt cfgEx holeEx ⟨1, 1⟩ = .ok none holeEx := rfl

-- the small transformers, clone and drop
example : Inv cfgEx (writeCell holeEx 1 0 99) := writeCell_inv holeEx_inv
example : (writeCell holeEx 1 0 99).cols = [[10, 99], [20, 22]] := rfl
example : Inv cfgEx (clearEvents holeEx) := clearEvents_inv holeEx_inv
example : dropStorage holeEx = .ok [10, 12, 20, 22] () := by
  rw [dropStorage_spec_flatten holeEx_inv]; rfl
example : cloneStorage (· + 1) holeEx
    = .ok { holeEx with cols := [[11, 13], [21, 23]] } holeEx := by
  rw [cloneStorage_spec holeEx_inv]; rfl
example : readRow holeEx 1 = some [12, 22] := by
  rw [((readRow_spec holeEx_inv 1).1 (by decide)).1]; rfl

example : ∃ s s' : Storage Nat, withCapacity cfgEx 1 2 = .ok () s
    ∧ presetVersions s 5 4 = some s' ∧ Inv cfgEx s' ∧ s'.version = 4 := by
  obtain ⟨s, h1, h2, h3, _⟩ := withCapacity_inv (α := Nat) cfgEx 1 2 (by decide) cfgEx_ok
  have hp : presetVersions s 5 4 = some
      { s with slots := s.slots.map (fun sl => { sl with ver := 5 }), version := 4 } := by
    simp [presetVersions, h3]
  exact ⟨s, _, h1, hp, presetVersions_inv hp h2 (by decide) (by decide), rfl⟩

end StorageEx
end Gecs

section
open Gecs
#print axioms ents_nodup
#print axioms ents_index_unique
#print axioms mem_swapRemove_ents
#print axioms resolveEntity_spec
#print axioms resolveEntity_of_mem
#print axioms resolveEntity_not_ub
#print axioms resolve_iff_mem
#print axioms resolveDirect_spec
#print axioms resolveDirect_iff
#print axioms resolveDirect_not_ub
#print axioms push_ok
#print axioms push_overflow
#print axioms push_spec
#print axioms push_not_ub
#print axioms pushWithin_ok
#print axioms pushWithin_spec
#print axioms forceDestroy_live
#print axioms destroyEnt_spec
#print axioms destroyEnt_not_ub
#print axioms destroyDirect_spec
#print axioms destroyDirect_not_ub
#print axioms resolveForEnt_of_mem
#print axioms resolveForEnt_of_not_mem
#print axioms toDirectEnt_of_mem
#print axioms toDirectEnt_of_not_mem
#print axioms resolveDirect_of_not
#print axioms resolveForDirect_of_lt
#print axioms resolveForDirect_of_not
#print axioms toDirectDirect_of_lt
#print axioms toDirectDirect_of_not
#print axioms writeCell_inv
#print axioms clearEvents_inv
#print axioms presetVersions_inv
#print axioms readRow_spec
#print axioms cloneStorage_spec
#print axioms cloneStorage_inv
#print axioms dropStorage_spec
#print axioms dropStorage_spec_flatten
#print axioms refill
end
