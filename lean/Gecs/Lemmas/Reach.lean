/-
Atomic storage steps.  Every state-changing API operation changes each archetype's storage
by a finite sequence of these steps (`SReach`); `Lemmas/WorldOps.lean` proves that for
`stepOp`.  History-level arguments (C01, C08, C09, C12, C17) are then made once per atomic
step and lifted along `SReach`.
-/
import Gecs.Model.History
import Gecs.Lemmas.Inv

namespace Gecs
variable {α : Type}

/-- One atomic change of a storage that satisfies `Inv`. -/
inductive SStep (cfg : Cfg) : Storage α → Storage α → Prop where
  /-- a component write through any mutable path -/
  | write (s : Storage α) (d c : Nat) (x : α) : SStep cfg s (writeCell s d c x)
  /-- a successful `create` (possibly growing to `g s.capacity`) -/
  | push (s s' : Storage α) (g : Nat → Nat) (row : List α) (e : Ent)
      (hg : s.capacity < cfg.maxCap → s.capacity < g s.capacity ∧ g s.capacity ≤ cfg.maxCap)
      (h : push cfg g s row = .ok e s') : SStep cfg s s'
  /-- a successful `create_within_capacity` -/
  | pushWithin (s s' : Storage α) (row : List α) (e : Ent)
      (h : pushWithin cfg s row = .ok (some e) s') : SStep cfg s s'
  /-- a successful removal by an `Entity` key (also each removal of `ecs_iter_destroy!`) -/
  | destroyEnt (s s' : Storage α) (e : Ent) (row : List α)
      (h : destroyEnt cfg s e = .ok (some row) s') : SStep cfg s s'
  /-- a successful removal by an `EntityDirect` key -/
  | destroyDirect (s s' : Storage α) (d v : Nat) (row : List α)
      (h : destroyDirect cfg s d v = .ok (some row) s') : SStep cfg s s'
  /-- `clear_events` -/
  | clear (s : Storage α) : SStep cfg s (clearEvents s)
  /-- the storage is replaced by its clone -/
  | clone (s : Storage α) (cl : α → α) : SStep cfg s { s with cols := s.cols.map (·.map cl) }

/-- Reflexive-transitive closure of `SStep`, every intermediate state satisfying `Inv`. -/
inductive SReach (cfg : Cfg) : Storage α → Storage α → Prop where
  | refl (s : Storage α) : SReach cfg s s
  | step {s s' s'' : Storage α} : SReach cfg s s' → Inv cfg s' → SStep cfg s' s'' → SReach cfg s s''

end Gecs
