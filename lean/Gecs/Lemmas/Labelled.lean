/-
Labelled atomic steps: the same steps as `SStep` (Lemmas/Reach.lean), each carrying what it
did to the population — which handle it created or removed.  Used for the statements that
talk about "the handles created / destroyed since …" (C02, C04, C17).
-/
import Gecs.Lemmas.Reach

namespace Gecs
variable {α : Type}

inductive Lbl (α : Type) where
  | write (d c : Nat) (x : α)
  | created (e : Ent) (row : List α)
  | destroyed (t : Ent) (row : List α)
  | clear
  | clone (cl : α → α)

inductive LStep (cfg : Cfg) : Storage α → Lbl α → Storage α → Prop where
  | write (s : Storage α) (d c : Nat) (x : α) : LStep cfg s (.write d c x) (writeCell s d c x)
  | push (s s' : Storage α) (g : Nat → Nat) (row : List α) (e : Ent)
      (hg : s.capacity < cfg.maxCap → s.capacity < g s.capacity ∧ g s.capacity ≤ cfg.maxCap)
      (h : push cfg g s row = .ok e s') : LStep cfg s (.created e row) s'
  | pushWithin (s s' : Storage α) (row : List α) (e : Ent)
      (h : pushWithin cfg s row = .ok (some e) s') : LStep cfg s (.created e row) s'
  | destroyEnt (s s' : Storage α) (e : Ent) (row : List α)
      (h : destroyEnt cfg s e = .ok (some row) s') : LStep cfg s (.destroyed e row) s'
  | destroyDirect (s s' : Storage α) (d v : Nat) (t : Ent) (row : List α)
      (ht : s.ents[d]? = some t)
      (h : destroyDirect cfg s d v = .ok (some row) s') : LStep cfg s (.destroyed t row) s'
  | clear (s : Storage α) : LStep cfg s .clear (clearEvents s)
  | clone (s : Storage α) (cl : α → α) :
      LStep cfg s (.clone cl) { s with cols := s.cols.map (·.map cl) }

/-- A path of labelled steps through `Inv` states, labels in order. -/
inductive LReach (cfg : Cfg) : Storage α → List (Lbl α) → Storage α → Prop where
  | refl (s : Storage α) : LReach cfg s [] s
  | step {s s' s'' : Storage α} {L : List (Lbl α)} {l : Lbl α} :
      LReach cfg s L s' → Inv cfg s' → LStep cfg s' l s'' → LReach cfg s (L ++ [l]) s''

end Gecs
