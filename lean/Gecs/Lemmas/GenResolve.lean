/-
Tie of the guard chains TRANSLATED from `StorageN::resolve_entity` / `resolve_direct`
(Gecs/Gen/Steps.lean: `resolveEntitySteps`, `resolveDirectSteps`) to the model's
`resolveEntity` / `resolveDirect` (Model/Storage.lean): running the extracted statements in
source order gives the very same outcome — answer, debug-assertion panic or `ub` — for EVERY
storage state with `len ≤ capacity` and EVERY handle, forged ones included.
-/
import Gecs.Gen.Steps

set_option linter.unusedSimpArgs false

namespace Gecs

variable {α : Type}

theorem gen_steps_resolve_entity (cfg : Cfg) (s : Storage α) (e : Ent) (hle : s.len ≤ s.capacity) :
    execResolveEntity cfg Gen.resolveEntitySteps s e = resolveEntity cfg s e := by
  unfold execResolveEntity resolveEntity Gen.resolveEntitySteps
  have hnl : ¬ (cfg.debug = true ∧ ¬ s.len ≤ s.capacity) := fun h => h.2 hle
  by_cases h0 : s.len = 0
  · simp [runRE, restep, hnl, h0]
  by_cases hcap : e.slot ≥ s.capacity
  · cases hdbg : cfg.debug <;> simp [runRE, restep, hle, h0, hcap, hdbg]
  have hlt : e.slot < s.capacity := by omega
  cases hsl : s.slots[e.slot]? with
  | none => cases hdbg : cfg.debug <;> simp [runRE, restep, hle, h0, hcap, hlt, hsl, hdbg]
  | some sl =>
    obtain ⟨idx, ver⟩ := sl
    by_cases hst : (¬ ver = e.ver ∨ idx.isFree = true)
    · cases hdbg : cfg.debug <;> simp [runRE, restep, hle, h0, hcap, hlt, hsl, hdbg, hst]
    · cases idx with
      | data d =>
        cases hdbg : cfg.debug
        · simp [runRE, restep, hle, h0, hcap, hlt, hsl, hdbg, hst]
        · by_cases hd : d < s.len
          · cases hent : s.ents[d]? with
            | none => simp [runRE, restep, hle, h0, hcap, hlt, hsl, hdbg, hst, hd, hent]
            | some l =>
              by_cases hl : l = e <;> simp [runRE, restep, hle, h0, hcap, hlt, hsl, hdbg, hst, hd, hent, hl]
          · simp [runRE, restep, hle, h0, hcap, hlt, hsl, hdbg, hst, hd]
      | free n => cases hdbg : cfg.debug <;> simp [runRE, restep, hle, h0, hcap, hlt, hsl, hdbg, hst]
      | freeEnd => cases hdbg : cfg.debug <;> simp [runRE, restep, hle, h0, hcap, hlt, hsl, hdbg, hst]

theorem gen_steps_resolve_direct (cfg : Cfg) (s : Storage α) (d v : Nat) (hle : s.len ≤ s.capacity) :
    execResolveDirect cfg Gen.resolveDirectSteps s d v = resolveDirect cfg s d v := by
  unfold execResolveDirect resolveDirect Gen.resolveDirectSteps
  by_cases h0 : s.len = 0
  · simp [runRD, rdstep, hle, h0]
  by_cases hv : v ≠ s.version
  · cases hdbg : cfg.debug <;> simp [runRD, rdstep, hle, h0, hv, hdbg]
  by_cases hd : d ≥ s.len
  · cases hdbg : cfg.debug <;> simp [runRD, rdstep, hle, h0, hv, hd, hdbg]
  have hlt : d < s.len := by omega
  cases hent : s.ents[d]? with
  | none => cases hdbg : cfg.debug <;> simp [runRD, rdstep, hle, h0, hv, hd, hlt, hent, hdbg]
  | some l =>
    cases hdbg : cfg.debug
    · simp [runRD, rdstep, hle, h0, hv, hd, hlt, hent, hdbg]
    · by_cases hs : l.slot < s.capacity
      · cases hsl : s.slots[l.slot]? with
        | none => simp [runRD, rdstep, hle, h0, hv, hd, hlt, hent, hdbg, hs, hsl]
        | some sl =>
          by_cases hm : sl.ver = l.ver ∧ sl.idx.isFree = false <;>
            simp [runRD, rdstep, hle, h0, hv, hd, hlt, hent, hdbg, hs, hsl, hm]
      · simp [runRD, rdstep, hle, h0, hv, hd, hlt, hent, hdbg, hs]

end Gecs
