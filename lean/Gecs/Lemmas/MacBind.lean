/-
C05 — queries act on exactly the archetypes whose component set satisfies them.

Specification (`ParamMatches`, `Matches`) and proofs about the query-binding half of
`Gecs/Model/Macro.lean` (`bindOneOf`, `bindParam`, `bindArch`, `bindQueryParams`,
`generateQuery`).  Everything is for arbitrary worlds (any number of archetypes and
components), arbitrary parameter lists and `OneOf` of any arity.
-/
import Gecs.Model.Macro

namespace Gecs.Mac

/-! ### Specification -/

/-- the specification: archetype `a` satisfies parameter `p` -/
def ParamMatches (a : DArch) (p : QParam) : Prop :=
  match p.ty with
  | .comp c => p.enabled = true → a.contains c = true
  | .ent x | .dir x => p.enabled = true → a.name = x
  | .oneOf cs => (cs.filter a.contains).length = 1
  | .entAny | .dirAny | .entWild | .dirWild => True

def Matches (a : DArch) (ps : List QParam) : Prop := ∀ p ∈ ps, ParamMatches a p

/-- Boolean version of `ParamMatches` (used for the `Decidable` instance). -/
def paramMatchesB (a : DArch) (p : QParam) : Bool :=
  match p.ty with
  | .comp c => !p.enabled || a.contains c
  | .ent x | .dir x => !p.enabled || a.name == x
  | .oneOf cs => (cs.filter a.contains).length == 1
  | .entAny | .dirAny | .entWild | .dirWild => true

theorem paramMatchesB_iff (a : DArch) (p : QParam) :
    paramMatchesB a p = true ↔ ParamMatches a p := by
  obtain ⟨cfgs, isMut, ty, enabled⟩ := p
  cases ty <;> cases enabled <;> simp [paramMatchesB, ParamMatches]

instance (a : DArch) (p : QParam) : Decidable (ParamMatches a p) :=
  decidable_of_iff _ (paramMatchesB_iff a p)

instance (a : DArch) (ps : List QParam) : Decidable (Matches a ps) :=
  inferInstanceAs (Decidable (∀ p ∈ ps, ParamMatches a p))

theorem matches_nil (a : DArch) : Matches a [] := by
  intro p hp; cases hp

theorem matches_cons (a : DArch) (p : QParam) (ps : List QParam) :
    Matches a (p :: ps) ↔ ParamMatches a p ∧ Matches a ps := by
  simp [Matches]

/-! ### `bindOneOf` -/

/-- Closed form of `bindOneOf` for an arbitrary `found` accumulator. -/
theorem bindOneOf_eq (a : DArch) (cs : List String) (found : Option String) :
    bindOneOf a cs found =
      match found, cs.filter a.contains with
      | none, [] => .ok none
      | none, [c] => .ok (some c)
      | none, c₁ :: c₂ :: _ => .error (.ambiguous a.name c₁ c₂)
      | some f, [] => .ok (some f)
      | some f, c :: _ => .error (.ambiguous a.name f c) := by
  induction cs generalizing found with
  | nil => cases found <;> simp [bindOneOf]
  | cons c cs ih =>
    by_cases hc : a.contains c = true
    · cases found with
      | some f => simp [bindOneOf, hc]
      | none =>
        simp only [bindOneOf, hc, if_true, List.filter_cons_of_pos, ih]
        cases hm : cs.filter a.contains <;> simp
    · simp only [Bool.not_eq_true] at hc
      simp [bindOneOf, hc, ih]

/-- `bindOneOf` with a general accumulator: `some f` behaves as if `f` were an earlier match. -/
theorem bindOneOf_spec_found (a : DArch) (cs : List String) (f : String) :
    (bindOneOf a cs (some f) = .ok (some f) ↔ cs.filter a.contains = []) ∧
    (∀ r, bindOneOf a cs (some f) = .ok r → r = some f) ∧
    (∀ e, bindOneOf a cs (some f) = .error e ↔
      ∃ c rest, cs.filter a.contains = c :: rest ∧ e = .ambiguous a.name f c) := by
  rw [bindOneOf_eq]
  cases hm : cs.filter a.contains with
  | nil => simp
  | cons c rest => simp [eq_comm]

/-- `bindOneOf` finds the unique present component, `none` if there is none, and reports
the first two present components (in order) otherwise. -/
theorem bindOneOf_spec (a : DArch) (cs : List String) :
    (∀ c, bindOneOf a cs none = .ok (some c) ↔ cs.filter a.contains = [c]) ∧
    (bindOneOf a cs none = .ok none ↔ cs.filter a.contains = []) ∧
    ((∃ e, bindOneOf a cs none = .error e) ↔ (cs.filter a.contains).length ≥ 2) ∧
    (∀ e, bindOneOf a cs none = .error e ↔
      ∃ c₁ c₂ rest, cs.filter a.contains = c₁ :: c₂ :: rest ∧ e = .ambiguous a.name c₁ c₂) := by
  rw [bindOneOf_eq]
  cases hm : cs.filter a.contains with
  | nil => simp
  | cons c₁ rest =>
    cases rest with
    | nil => simp [eq_comm]
    | cons c₂ rest =>
      refine ⟨?_, ?_, ?_, ?_⟩
      · intro c; simp
      · simp
      · simp
      · intro e
        constructor
        · intro h; cases h; exact ⟨c₁, c₂, rest, rfl, rfl⟩
        · rintro ⟨_, _, _, h, rfl⟩; cases h; rfl

theorem bindOneOf_ok_some_iff (a : DArch) (cs : List String) (c : String) :
    bindOneOf a cs none = .ok (some c) ↔ cs.filter a.contains = [c] :=
  (bindOneOf_spec a cs).1 c

theorem bindOneOf_ok_none_iff (a : DArch) (cs : List String) :
    bindOneOf a cs none = .ok none ↔ cs.filter a.contains = [] :=
  (bindOneOf_spec a cs).2.1

theorem bindOneOf_error_iff (a : DArch) (cs : List String) :
    (∃ e, bindOneOf a cs none = .error e) ↔ (cs.filter a.contains).length ≥ 2 :=
  (bindOneOf_spec a cs).2.2.1

/-! ### `bindParam` -/

/-- A parameter is bound (`some`) exactly when the archetype satisfies it. -/
theorem bindParam_isSome_iff {a : DArch} {p : QParam} {r : Option QParam}
    (h : bindParam a p = .ok r) : r.isSome = true ↔ ParamMatches a p := by
  obtain ⟨cfgs, isMut, ty, enabled⟩ := p
  cases ty <;> simp only [bindParam, ParamMatches] at h ⊢
  all_goals try (cases h; simp; done)
  all_goals try (cases enabled <;> split at h <;> cases h <;> simp_all; done)
  -- oneOf
  rename_i cs
  split at h
  · cases h
  · rw [bindOneOf_eq] at h
    cases hm : cs.filter a.contains with
    | nil => rw [hm] at h; cases h; simp
    | cons c₁ rest =>
      cases rest with
      | nil => rw [hm] at h; cases h; simp
      | cons c₂ rest => rw [hm] at h; cases h

/-- What a bound parameter looks like. -/
theorem bindParam_some {a : DArch} {p b : QParam} (h : bindParam a p = .ok (some b)) :
    b.cfgs = p.cfgs ∧ b.isMut = p.isMut ∧ b.enabled = p.enabled ∧
    (match p.ty with
     | .oneOf cs => ∃ c, b.ty = .comp c ∧ cs.filter a.contains = [c]
     | t => b.ty = t) := by
  unfold bindParam at h
  split at h
  all_goals try (cases h; simp_all)
  · split at h <;> cases h; simp_all
  · split at h <;> cases h; simp_all
  · split at h <;> cases h; simp_all
  · rename_i cs hty
    split at h
    · cases h
    · split at h
      · cases h
      · rename_i c hb
        cases h
        rw [bindOneOf_ok_some_iff] at hb
        simp [hty, hb]
      · cases h

/-- When `bindParam` raises an error. -/
theorem bindParam_error_iff (a : DArch) (p : QParam) :
    (∃ e, bindParam a p = .error e) ↔
      ∃ cs, p.ty = .oneOf cs ∧ (p.cfgs ≠ [] ∨ (cs.filter a.contains).length ≥ 2) := by
  unfold bindParam
  split
  all_goals try (simp_all; done)
  · split <;> simp_all
  · split <;> simp_all
  · split <;> simp_all
  · rename_i cs hty
    split
    · rename_i hl
      have : p.cfgs ≠ [] := by intro h0; simp [h0] at hl
      simp [hty, this]
    · rename_i hl
      have h0 : p.cfgs = [] := by
        cases hc : p.cfgs with
        | nil => rfl
        | cons x xs => simp [hc] at hl
      have := bindOneOf_error_iff a cs
      split
      · rename_i e he
        have h2 : (cs.filter a.contains).length ≥ 2 := this.1 ⟨e, he⟩
        simp [hty, h2]
      · rename_i c hb
        have h2 : ¬ (cs.filter a.contains).length ≥ 2 := by
          intro hge; obtain ⟨e, he⟩ := this.2 hge; rw [hb] at he; cases he
        simp [hty, h0, h2]
      · rename_i hb
        have h2 : ¬ (cs.filter a.contains).length ≥ 2 := by
          intro hge; obtain ⟨e, he⟩ := this.2 hge; rw [hb] at he; cases he
        simp [hty, h0, h2]

/-- The exact errors of `bindParam`: the cfg-on-OneOf rejection takes precedence, otherwise
the ambiguity of the first two present components. -/
theorem bindParam_error_eq {a : DArch} {p : QParam} {e : BindErr} (h : bindParam a p = .error e) :
    ∃ cs, p.ty = .oneOf cs ∧
      ((p.cfgs ≠ [] ∧ e = .cfgOnOneOf) ∨
       (p.cfgs = [] ∧ ∃ c₁ c₂ rest, cs.filter a.contains = c₁ :: c₂ :: rest ∧
          e = .ambiguous a.name c₁ c₂)) := by
  unfold bindParam at h
  split at h
  all_goals try (cases h; done)
  · split at h <;> cases h
  · split at h <;> cases h
  · split at h <;> cases h
  · rename_i cs hty
    refine ⟨cs, hty, ?_⟩
    split at h
    · rename_i hl
      cases h
      left
      refine ⟨?_, rfl⟩
      intro h0; simp [h0] at hl
    · rename_i hl
      have h0 : p.cfgs = [] := by
        cases hc : p.cfgs with
        | nil => rfl
        | cons x xs => simp [hc] at hl
      right
      refine ⟨h0, ?_⟩
      split at h
      · rename_i e' he
        cases h
        exact ((bindOneOf_spec a cs).2.2.2 e).1 he
      · cases h
      · cases h

/-! ### `bindArch` -/

theorem bindArch_cons_ok {a : DArch} {p : QParam} {ps bound : List QParam}
    (h : bindArch a (p :: ps) = .ok bound) :
    ∃ r rest, bindParam a p = .ok r ∧ bindArch a ps = .ok rest ∧
      bound = (match r with | some p' => p' :: rest | none => rest) := by
  simp only [bindArch] at h
  split at h
  · cases h
  · rename_i r hr
    split at h
    · cases h
    · rename_i rest hrest
      cases h
      exact ⟨r, rest, hr, hrest, rfl⟩

theorem bindArch_length_le {a : DArch} {ps bound : List QParam}
    (h : bindArch a ps = .ok bound) : bound.length ≤ ps.length := by
  induction ps generalizing bound with
  | nil => simp [bindArch] at h; subst h; simp
  | cons p ps ih =>
    obtain ⟨r, rest, _, hrest, rfl⟩ := bindArch_cons_ok h
    have := ih hrest
    cases r <;> simp <;> omega

/-- `bound.len() == params.len()` holds exactly for the archetypes satisfying the query. -/
theorem bindArch_length_iff {a : DArch} {ps bound : List QParam}
    (h : bindArch a ps = .ok bound) : bound.length = ps.length ↔ Matches a ps := by
  induction ps generalizing bound with
  | nil => simp [bindArch] at h; subst h; simp [matches_nil]
  | cons p ps ih =>
    obtain ⟨r, rest, hr, hrest, rfl⟩ := bindArch_cons_ok h
    have hle := bindArch_length_le hrest
    have hp := bindParam_isSome_iff hr
    rw [matches_cons, ← ih hrest, ← hp]
    cases r with
    | none => simp; omega
    | some p' => simp

/-- Every non-OneOf parameter is bound unchanged, a OneOf to the unique present component
(same `cfgs`, mutability and `enabled` flag). -/
theorem bind_types {a : DArch} {ps bound : List QParam}
    (h : bindArch a ps = .ok bound) (hlen : bound.length = ps.length) :
    ∀ (i : Nat) (p b : QParam), ps[i]? = some p → bound[i]? = some b →
      b.cfgs = p.cfgs ∧ b.isMut = p.isMut ∧ b.enabled = p.enabled ∧
      (match p.ty with
       | .oneOf cs => ∃ c, b.ty = .comp c ∧ cs.filter a.contains = [c]
       | t => b.ty = t) := by
  induction ps generalizing bound with
  | nil => intro i p b hp; simp at hp
  | cons q ps ih =>
    obtain ⟨r, rest, hr, hrest, rfl⟩ := bindArch_cons_ok h
    have hle := bindArch_length_le hrest
    cases r with
    | none => simp at hlen; omega
    | some q' =>
      simp at hlen
      intro i p b hp hb
      cases i with
      | zero =>
        simp at hp hb
        subst hp hb
        exact bindParam_some hr
      | succ i =>
        simp at hp hb
        exact ih hrest hlen i p b hp hb

/-- When `bindArch` raises an error. -/
theorem bindArch_error_iff (a : DArch) (ps : List QParam) :
    (∃ e, bindArch a ps = .error e) ↔ ∃ p ∈ ps, ∃ e, bindParam a p = .error e := by
  induction ps with
  | nil => simp [bindArch]
  | cons p ps ih =>
    simp only [bindArch, List.mem_cons, exists_eq_or_imp]
    rw [← ih]
    cases hp : bindParam a p with
    | error e => simp
    | ok r =>
      cases hr : bindArch a ps with
      | error e => simp
      | ok rest => simp

/-- Which error `bindArch` raises: that of the first failing parameter (later parameters are
still examined after a non-matching one: the Rust loop `continue`s, it does not `break`). -/
theorem bindArch_error_first (a : DArch) (ps : List QParam) (e : BindErr) :
    bindArch a ps = .error e ↔
      ∃ ps₁ p ps₂, ps = ps₁ ++ p :: ps₂ ∧ (∀ q ∈ ps₁, ∃ r, bindParam a q = .ok r) ∧
        bindParam a p = .error e := by
  induction ps with
  | nil => simp [bindArch]
  | cons p ps ih =>
    simp only [bindArch]
    cases hp : bindParam a p with
    | error e' =>
      simp only [Except.error.injEq]
      constructor
      · rintro rfl; exact ⟨[], p, ps, rfl, by simp, hp⟩
      · rintro ⟨ps₁, q, ps₂, heq, hok, hq⟩
        cases ps₁ with
        | nil =>
          simp only [List.nil_append, List.cons.injEq] at heq
          obtain ⟨rfl, _⟩ := heq
          rw [hp] at hq; cases hq; rfl
        | cons x xs =>
          simp only [List.cons_append, List.cons.injEq] at heq
          obtain ⟨rfl, _⟩ := heq
          obtain ⟨r, hr⟩ := hok p (List.mem_cons_self ..)
          rw [hp] at hr; cases hr
    | ok r =>
      simp only
      constructor
      · intro h
        cases hrest : bindArch a ps with
        | ok rest => rw [hrest] at h; cases h
        | error e' =>
          rw [hrest] at h
          cases h
          obtain ⟨ps₁, q, ps₂, heq, hok, hq⟩ := ih.1 hrest
          refine ⟨p :: ps₁, q, ps₂, by simp [heq], ?_, hq⟩
          intro x hx
          simp only [List.mem_cons] at hx
          rcases hx with rfl | hx
          · exact ⟨r, hp⟩
          · exact hok x hx
      · rintro ⟨ps₁, q, ps₂, heq, hok, hq⟩
        cases ps₁ with
        | nil =>
          simp only [List.nil_append, List.cons.injEq] at heq
          obtain ⟨rfl, _⟩ := heq
          rw [hp] at hq; cases hq
        | cons x xs =>
          simp only [List.cons_append, List.cons.injEq] at heq
          obtain ⟨rfl, rfl⟩ := heq
          have := ih.2 ⟨xs, q, ps₂, rfl, fun y hy => hok y (List.mem_cons_of_mem _ hy), hq⟩
          rw [this]

/-! ### `bindQueryParams` -/

/-- The candidate entry of one archetype. -/
def bindEntry (ps : List QParam) (a : DArch) : Option (String × List QParam) :=
  match bindArch a ps with
  | .ok b => if b.length == ps.length then some (a.name, b) else none
  | .error _ => none

theorem go_ok {ps : List QParam} {as : List DArch} {r : List (String × List QParam)}
    (h : bindQueryParams.go ps as = .ok r) :
    r = as.filterMap (bindEntry ps) ∧ ∀ a ∈ as, ∃ b, bindArch a ps = .ok b := by
  induction as generalizing r with
  | nil => simp [bindQueryParams.go] at h; subst h; simp
  | cons a as ih =>
    simp only [bindQueryParams.go] at h
    split at h
    · cases h
    · rename_i bound hb
      split at h
      · cases h
      · rename_i rest hrest
        cases h
        obtain ⟨h1, h2⟩ := ih hrest
        refine ⟨?_, ?_⟩
        · simp only [List.filterMap_cons, bindEntry, hb]
          split <;> simp_all
        · intro a' ha'
          simp only [List.mem_cons] at ha'
          rcases ha' with rfl | ha'
          · exact ⟨bound, hb⟩
          · exact h2 a' ha'

theorem go_error_iff (ps : List QParam) (as : List DArch) :
    (∃ e, bindQueryParams.go ps as = .error e) ↔ ∃ a ∈ as, ∃ e, bindArch a ps = .error e := by
  induction as with
  | nil => simp [bindQueryParams.go]
  | cons a as ih =>
    simp only [bindQueryParams.go, List.mem_cons, exists_eq_or_imp]
    rw [← ih]
    cases hp : bindArch a ps with
    | error e => simp
    | ok r =>
      cases hr : bindQueryParams.go ps as with
      | error e => simp
      | ok rest => simp

theorem bindEntry_some_iff {ps : List QParam} {a : DArch} {kv : String × List QParam} :
    bindEntry ps a = some kv ↔ bindArch a ps = .ok kv.2 ∧ Matches a ps ∧ kv.1 = a.name := by
  unfold bindEntry
  cases hb : bindArch a ps with
  | error e => simp
  | ok b =>
    have := bindArch_length_iff hb
    by_cases hl : b.length = ps.length
    · simp only [hl, BEq.rfl, if_true, Option.some.injEq]
      constructor
      · rintro rfl; exact ⟨rfl, this.1 hl, rfl⟩
      · rintro ⟨h1, _, h3⟩
        cases h1
        cases kv; simp_all
    · have hm : ¬ Matches a ps := fun hm => hl (this.2 hm)
      simp [hl, hm]

theorem bindEntry_isSome {ps : List QParam} {a : DArch} (h : ∃ b, bindArch a ps = .ok b) :
    (bindEntry ps a).isSome = decide (Matches a ps) := by
  obtain ⟨b, hb⟩ := h
  by_cases hm : Matches a ps
  · have : bindEntry ps a = some (a.name, b) := bindEntry_some_iff.2 ⟨hb, hm, rfl⟩
    simp [this, hm]
  · cases he : bindEntry ps a with
    | none => simp [hm]
    | some kv => exact absurd (bindEntry_some_iff.1 he).2.1 hm

theorem map_name_inj {as : List DArch} (hnd : (as.map (·.name)).Nodup) {a a' : DArch}
    (ha : a ∈ as) (ha' : a' ∈ as) (hn : a.name = a'.name) : a = a' := by
  induction as with
  | nil => cases ha
  | cons x xs ih =>
    simp only [List.map_cons, List.nodup_cons, List.mem_map, not_exists, not_and] at hnd
    simp only [List.mem_cons] at ha ha'
    rcases ha with rfl | ha <;> rcases ha' with rfl | ha'
    · rfl
    · exact absurd hn.symm (hnd.1 a' ha')
    · exact absurd hn (hnd.1 a ha)
    · exact ih hnd.2 ha ha'

theorem filterMap_map_fst {α β γ : Type} [DecidableEq β] (f : α → Option (β × γ)) (key : α → β)
    (q : α → Bool) (l : List α)
    (hq : ∀ a ∈ l, (f a).isSome = q a) (hk : ∀ a ∈ l, ∀ kv, f a = some kv → kv.1 = key a) :
    (l.filterMap f).map (·.1) = (l.filter q).map key := by
  induction l with
  | nil => simp
  | cons a l ih =>
    have ih' := ih (fun x hx => hq x (List.mem_cons_of_mem _ hx))
      (fun x hx => hk x (List.mem_cons_of_mem _ hx))
    have hqa := hq a (List.mem_cons_self ..)
    have hka := hk a (List.mem_cons_self ..)
    cases hf : f a with
    | none =>
      have : q a = false := by rw [← hqa, hf]; rfl
      simp [hf, this, ih']
    | some kv =>
      have : q a = true := by rw [← hqa, hf]; rfl
      simp [hf, this, ih', hka kv hf]

/-- The keys of the binding table are the names of exactly the matching archetypes, in
declaration order (no hypothesis on names needed). -/
theorem bind_keys {w : DWorld} {ps : List QParam} {r : List (String × List QParam)}
    (h : bindQueryParams w ps = .ok r) :
    r.map (·.1) = (w.archs.filter (fun a => decide (Matches a ps))).map (·.name) := by
  obtain ⟨hr, hok⟩ := go_ok h
  subst hr
  apply filterMap_map_fst
  · intro a ha; exact bindEntry_isSome (hok a ha)
  · intro a _ kv hkv; exact (bindEntry_some_iff.1 hkv).2.2

/-- Completeness needs no hypothesis on names. -/
theorem bind_complete {w : DWorld} {ps : List QParam} {r : List (String × List QParam)}
    (h : bindQueryParams w ps = .ok r) {a : DArch} (ha : a ∈ w.archs) (hm : Matches a ps) :
    ∃ bs, (a.name, bs) ∈ r ∧ bindArch a ps = .ok bs := by
  obtain ⟨hr, hok⟩ := go_ok h
  subst hr
  obtain ⟨b, hb⟩ := hok a ha
  refine ⟨b, ?_, hb⟩
  rw [List.mem_filterMap]
  exact ⟨a, ha, bindEntry_some_iff.2 ⟨hb, hm, rfl⟩⟩

/-- Soundness and completeness of `bind_query_params`. -/
theorem bind_sound_complete {w : DWorld} {ps : List QParam} {r : List (String × List QParam)}
    (hnd : (w.archs.map (·.name)).Nodup) (h : bindQueryParams w ps = .ok r) :
    (∀ a ∈ w.archs, ((∃ bs, (a.name, bs) ∈ r) ↔ Matches a ps)) ∧
    r.map (·.1) = (w.archs.filter (fun a => decide (Matches a ps))).map (·.name) ∧
    (∀ a ∈ w.archs, ∀ bs, (a.name, bs) ∈ r → bindArch a ps = .ok bs) := by
  have key : ∀ a ∈ w.archs, ∀ bs, (a.name, bs) ∈ r → bindArch a ps = .ok bs ∧ Matches a ps := by
    obtain ⟨hr, _⟩ := go_ok h
    subst hr
    intro a ha bs hmem
    rw [List.mem_filterMap] at hmem
    obtain ⟨a', ha', he⟩ := hmem
    obtain ⟨h1, h2, h3⟩ := bindEntry_some_iff.1 he
    have : a = a' := map_name_inj hnd ha ha' h3
    subst this
    exact ⟨h1, h2⟩
  refine ⟨?_, bind_keys h, ?_⟩
  · intro a ha
    constructor
    · rintro ⟨bs, hbs⟩; exact (key a ha bs hbs).2
    · intro hm
      obtain ⟨bs, hbs, _⟩ := bind_complete h ha hm
      exact ⟨bs, hbs⟩
  · intro a ha bs hbs; exact (key a ha bs hbs).1

/-- `bind_query_params` fails iff some OneOf parameter carries a cfg attribute (and there is
at least one archetype to bind against) or some OneOf parameter is ambiguous for some
archetype. -/
theorem bind_error_iff (w : DWorld) (ps : List QParam) :
    (∃ e, bindQueryParams w ps = .error e) ↔
      (w.archs ≠ [] ∧ ∃ p ∈ ps, (∃ cs, p.ty = .oneOf cs) ∧ p.cfgs ≠ []) ∨
      (∃ a ∈ w.archs, ∃ p ∈ ps, ∃ cs, p.ty = .oneOf cs ∧ (cs.filter a.contains).length ≥ 2) := by
  unfold bindQueryParams
  rw [go_error_iff]
  simp only [bindArch_error_iff, bindParam_error_iff]
  constructor
  · rintro ⟨a, ha, p, hp, cs, hty, hc | hc⟩
    · left
      exact ⟨List.ne_nil_of_mem ha, p, hp, ⟨cs, hty⟩, hc⟩
    · right
      exact ⟨a, ha, p, hp, cs, hty, hc⟩
  · rintro (⟨hne, p, hp, ⟨cs, hty⟩, hc⟩ | ⟨a, ha, p, hp, cs, hty, hc⟩)
    · obtain ⟨a, ha⟩ := List.exists_mem_of_ne_nil _ hne
      exact ⟨a, ha, p, hp, cs, hty, Or.inl hc⟩
    · exact ⟨a, ha, p, hp, cs, hty, Or.inr hc⟩

/-- Which error `bind_query_params` raises: that of the first archetype (declaration order)
for which binding fails, and within it of the first failing parameter
(`bindArch_error_first`).  In particular an ambiguity of an earlier parameter precedes the
cfg-on-OneOf rejection of a later one for the same archetype. -/
theorem bind_error_first (w : DWorld) (ps : List QParam) (e : BindErr) :
    bindQueryParams w ps = .error e ↔
      ∃ as₁ a as₂, w.archs = as₁ ++ a :: as₂ ∧ (∀ a' ∈ as₁, ∃ b, bindArch a' ps = .ok b) ∧
        bindArch a ps = .error e := by
  unfold bindQueryParams
  generalize w.archs = as
  induction as with
  | nil => simp [bindQueryParams.go]
  | cons a as ih =>
    simp only [bindQueryParams.go]
    cases hp : bindArch a ps with
    | error e' =>
      simp only [Except.error.injEq]
      constructor
      · rintro rfl; exact ⟨[], a, as, rfl, by simp, hp⟩
      · rintro ⟨as₁, q, as₂, heq, hok, hq⟩
        cases as₁ with
        | nil =>
          simp only [List.nil_append, List.cons.injEq] at heq
          obtain ⟨rfl, _⟩ := heq
          rw [hp] at hq; cases hq; rfl
        | cons x xs =>
          simp only [List.cons_append, List.cons.injEq] at heq
          obtain ⟨rfl, _⟩ := heq
          obtain ⟨r, hr⟩ := hok a (List.mem_cons_self ..)
          rw [hp] at hr; cases hr
    | ok r =>
      simp only
      constructor
      · intro h
        cases hrest : bindQueryParams.go ps as with
        | ok rest => rw [hrest] at h; cases h
        | error e' =>
          rw [hrest] at h
          cases h
          obtain ⟨as₁, q, as₂, heq, hok, hq⟩ := ih.1 hrest
          refine ⟨a :: as₁, q, as₂, by simp [heq], ?_, hq⟩
          intro x hx
          simp only [List.mem_cons] at hx
          rcases hx with rfl | hx
          · exact ⟨r, hp⟩
          · exact hok x hx
      · rintro ⟨as₁, q, as₂, heq, hok, hq⟩
        cases as₁ with
        | nil =>
          simp only [List.nil_append, List.cons.injEq] at heq
          obtain ⟨rfl, _⟩ := heq
          rw [hp] at hq; cases hq
        | cons x xs =>
          simp only [List.cons_append, List.cons.injEq] at heq
          obtain ⟨rfl, rfl⟩ := heq
          have := ih.2 ⟨xs, q, as₂, rfl, fun y hy => hok y (List.mem_cons_of_mem _ hy), hq⟩
          rw [this]

/-- `bind_query_params` never produces the `noMatch`/`missingCfg` errors itself. -/
theorem bind_error_kind {w : DWorld} {ps : List QParam} {e : BindErr}
    (h : bindQueryParams w ps = .error e) :
    e = .cfgOnOneOf ∨ ∃ n c₁ c₂, e = .ambiguous n c₁ c₂ := by
  have hA : ∀ a qs, bindArch a qs = .error e → e = .cfgOnOneOf ∨ ∃ n c₁ c₂, e = .ambiguous n c₁ c₂ := by
    intro a qs
    induction qs with
    | nil => simp [bindArch]
    | cons q qs ih =>
      intro hq
      simp only [bindArch] at hq
      split at hq
      · rename_i e' he'
        cases hq
        obtain ⟨cs, _, h1 | h1⟩ := bindParam_error_eq he'
        · exact Or.inl h1.2
        · obtain ⟨_, c₁, c₂, _, _, h2⟩ := h1
          exact Or.inr ⟨_, c₁, c₂, h2⟩
      · split at hq
        · rename_i e' he'
          cases hq
          exact ih he'
        · cases hq
  unfold bindQueryParams at h
  generalize w.archs = as at h
  induction as with
  | nil => simp [bindQueryParams.go] at h
  | cons a as ih =>
    simp only [bindQueryParams.go] at h
    split at h
    · rename_i e' he'
      cases h
      exact hA a ps he'
    · split at h
      · rename_i e' he'
        cases h
        exact ih he'
      · cases h

/-! ### `generateQuery` -/

theorem find_key_isSome {w : DWorld} {ps : List QParam} {r : List (String × List QParam)}
    (hnd : (w.archs.map (·.name)).Nodup) (h : bindQueryParams w ps = .ok r)
    {a : DArch} (ha : a ∈ w.archs) :
    ((r.find? (fun kv => kv.1 == a.name)).map (fun kv => (a, kv.2))).isSome
      = decide (Matches a ps) := by
  obtain ⟨h1, _, _⟩ := bind_sound_complete hnd h
  have h1a := h1 a ha
  cases hf : r.find? (fun kv => kv.1 == a.name) with
  | none =>
    have hnm : ¬ Matches a ps := by
      intro hm
      obtain ⟨bs, hbs⟩ := h1a.2 hm
      have := List.find?_eq_none.1 hf (a.name, bs) hbs
      simp at this
    simp [hnm]
  | some kv =>
    have hmem := List.mem_of_find?_eq_some hf
    have hk := List.find?_some hf
    simp only [beq_iff_eq] at hk
    have hm : Matches a ps := h1a.1 ⟨kv.2, by rw [← hk]; exact hmem⟩
    simp [hm]

/-- The archetypes for which query code is emitted are exactly the matching ones, in
declaration order, and there is at least one. -/
theorem generateQuery_spec {w : DWorld} {ps : List QParam} {m : List (DArch × List QParam)}
    (hnd : (w.archs.map (·.name)).Nodup) (h : generateQuery w ps = .ok m) :
    m.map (·.1) = w.archs.filter (fun a => decide (Matches a ps)) ∧ m ≠ [] := by
  unfold generateQuery at h
  split at h
  · cases h
  · rename_i bound hb
    simp only at h
    split at h
    · cases h
    · rename_i hne
      cases h
      refine ⟨?_, ?_⟩
      · have := filterMap_map_fst
          (fun a => (bound.find? (fun kv => kv.1 == a.name)).map (fun kv => (a, kv.2)))
          (fun a => a) (fun a => decide (Matches a ps)) w.archs
          (fun a ha => find_key_isSome hnd hb ha)
          (fun a _ kv hkv => by
            cases hf : bound.find? (fun kv => kv.1 == a.name) with
            | none => simp [hf] at hkv
            | some x => simp [hf] at hkv; rw [← hkv])
        simpa using this
      · intro h0; simp [h0] at hne

/-- The bound parameter list attached to every emitted archetype is its `bindArch` result. -/
theorem generateQuery_mem {w : DWorld} {ps : List QParam} {m : List (DArch × List QParam)}
    (hnd : (w.archs.map (·.name)).Nodup) (h : generateQuery w ps = .ok m) :
    ∀ a bs, (a, bs) ∈ m → a ∈ w.archs ∧ Matches a ps ∧ bindArch a ps = .ok bs ∧
      bs.length = ps.length := by
  unfold generateQuery at h
  split at h
  · cases h
  · rename_i bound hb
    simp only at h
    split at h
    · cases h
    · cases h
      intro a bs hmem
      rw [List.mem_filterMap] at hmem
      obtain ⟨a', ha', he⟩ := hmem
      cases hf : bound.find? (fun kv => kv.1 == a'.name) with
      | none => simp [hf] at he
      | some kv =>
        simp [hf] at he
        obtain ⟨rfl, rfl⟩ := he
        have hmem := List.mem_of_find?_eq_some hf
        have hk := List.find?_some hf
        simp only [beq_iff_eq] at hk
        obtain ⟨h1, _, h3⟩ := bind_sound_complete hnd hb
        have hin : (a'.name, kv.2) ∈ bound := by rw [← hk]; exact hmem
        have hba := h3 a' ha' kv.2 hin
        have hm := (h1 a' ha').1 ⟨kv.2, hin⟩
        exact ⟨ha', hm, hba, (bindArch_length_iff hba).2 hm⟩

/-- "query matched no archetypes in world" is raised exactly when binding succeeds and no
archetype satisfies the query (no hypothesis on names needed). -/
theorem empty_is_error (w : DWorld) (ps : List QParam) :
    generateQuery w ps = .error .noMatch ↔
      (∃ r, bindQueryParams w ps = .ok r) ∧ ∀ a ∈ w.archs, ¬ Matches a ps := by
  unfold generateQuery
  cases hb : bindQueryParams w ps with
  | error e =>
    have := bind_error_kind hb
    constructor
    · intro h
      cases h
      rcases this with h | ⟨_, _, _, h⟩ <;> cases h
    · rintro ⟨⟨r, hr⟩, _⟩; cases hr
  | ok bound =>
    simp only [Except.ok.injEq, exists_eq', true_and]
    constructor
    · intro h a ha hm
      split at h
      · rename_i hemp
        obtain ⟨bs, hbs, _⟩ := bind_complete hb ha hm
        simp only [List.isEmpty_iff, List.filterMap_eq_nil_iff] at hemp
        have := hemp a ha
        simp only [Option.map_eq_none_iff] at this
        have := List.find?_eq_none.1 this (a.name, bs) hbs
        simp at this
      · cases h
    · intro hno
      have hk := bind_keys hb
      have : w.archs.filter (fun a => decide (Matches a ps)) = [] := by
        rw [List.filter_eq_nil_iff]
        intro a ha; simp [hno a ha]
      rw [this] at hk
      simp only [List.map_nil, List.map_eq_nil_iff] at hk
      subst hk
      simp

/-! ### Non-vacuity: a four-archetype world -/

namespace BindExample

/-- `Except` has no `DecidableEq` instance in core; a local one for the `decide` examples. -/
@[instance_reducible] def exceptDecEq {ε α : Type} [DecidableEq ε] [DecidableEq α] : DecidableEq (Except ε α)
  | .ok a, .ok b => if h : a = b then isTrue (by rw [h]) else isFalse (fun h' => h (Except.ok.inj h'))
  | .error a, .error b =>
    if h : a = b then isTrue (by rw [h]) else isFalse (fun h' => h (Except.error.inj h'))
  | .ok _, .error _ => isFalse (fun h => by cases h)
  | .error _, .ok _ => isFalse (fun h => by cases h)

attribute [local instance] exceptDecEq

def cA : DComp := ⟨0, "CompA"⟩
def cB : DComp := ⟨1, "CompB"⟩
def cC : DComp := ⟨2, "CompC"⟩
def cD : DComp := ⟨3, "CompD"⟩

def arch0 : DArch := ⟨0, "ArchFoo", [cA, cB]⟩
def arch1 : DArch := ⟨1, "ArchBar", [cA, cC]⟩
def arch2 : DArch := ⟨2, "ArchBaz", [cA, cB, cC]⟩
def arch3 : DArch := ⟨3, "ArchQux", [cD]⟩

def world : DWorld := ⟨"W", [arch0, arch1, arch2, arch3]⟩

/-- `|a: &CompA, x: &mut OneOf<CompB, CompD>, e: &Entity<_>|` -/
def qTwo : List QParam :=
  [⟨[], false, .comp "CompA", true⟩, ⟨[], true, .oneOf ["CompB", "CompD"], true⟩,
   ⟨[], false, .entWild, true⟩]

/-- `|x: &OneOf<CompB, CompC>|`: ambiguous for `ArchBaz`. -/
def qAmb : List QParam := [⟨[], false, .oneOf ["CompB", "CompC"], true⟩]

/-- `|a: &CompA, d: &CompD|`: no archetype has both. -/
def qNone : List QParam := [⟨[], false, .comp "CompA", true⟩, ⟨[], false, .comp "CompD", true⟩]

/-- the hypothesis of `bind_sound_complete` / `generateQuery_spec` holds -/
example : (world.archs.map (·.name)).Nodup := by decide

/-- a query matching exactly two archetypes (`ArchFoo`, `ArchBaz`) via OneOf, the OneOf being
bound to `CompB` with its mutability -/
example : generateQuery world qTwo = .ok
    [(arch0, [⟨[], false, .comp "CompA", true⟩, ⟨[], true, .comp "CompB", true⟩,
              ⟨[], false, .entWild, true⟩]),
     (arch2, [⟨[], false, .comp "CompA", true⟩, ⟨[], true, .comp "CompB", true⟩,
              ⟨[], false, .entWild, true⟩])] := by decide

example : world.archs.filter (fun a => decide (Matches a qTwo)) = [arch0, arch2] := by decide

/-- `ArchQux` has `CompD` but not `CompA`; the OneOf alone would match three archetypes -/
example : world.archs.filter (fun a => decide (Matches a [qTwo[1]])) = [arch0, arch2, arch3] := by
  decide

/-- an ambiguous OneOf -/
example : generateQuery world qAmb = .error (.ambiguous "ArchBaz" "CompB" "CompC") := by decide

example : bindOneOf arch2 ["CompD", "CompC", "CompA", "CompB"] none
    = .error (.ambiguous "ArchBaz" "CompC" "CompA") := by decide

/-- a query matching none -/
example : generateQuery world qNone = .error .noMatch := by decide

example : (∃ r, bindQueryParams world qNone = .ok r) ∧ ∀ a ∈ world.archs, ¬ Matches a qNone := by
  refine ⟨⟨[], by decide⟩, by decide⟩

/-- cfg on a OneOf is rejected (when there is an archetype to bind against) -/
example : generateQuery world [⟨["feature = \"x\""], false, .oneOf ["CompD"], true⟩]
    = .error .cfgOnOneOf := by decide

/-- order of checks: for `ArchFoo` the cfg-on-OneOf rejection of the second parameter is
reached first, although the first parameter is ambiguous for the later `ArchBaz` -/
example : generateQuery world [⟨[], false, .oneOf ["CompB", "CompC"], true⟩,
      ⟨["f"], false, .oneOf ["CompD"], true⟩] = .error .cfgOnOneOf := by decide

/-- … but within one archetype an earlier ambiguity precedes a later cfg-on-OneOf -/
example : generateQuery ⟨"W", [arch2, arch0]⟩ [⟨[], false, .oneOf ["CompB", "CompC"], true⟩,
      ⟨["f"], false, .oneOf ["CompD"], true⟩] = .error (.ambiguous "ArchBaz" "CompB" "CompC") := by
  decide

/-- an ambiguity is reported even for an archetype an earlier parameter already excluded
(`ArchBaz` has no `CompD`): the Rust loop `continue`s instead of `break`ing -/
example : generateQuery world [⟨[], false, .comp "CompD", true⟩,
      ⟨[], false, .oneOf ["CompB", "CompC"], true⟩]
    = .error (.ambiguous "ArchBaz" "CompB" "CompC") := by decide

end BindExample

end Gecs.Mac

#print axioms Gecs.Mac.bindOneOf_eq
#print axioms Gecs.Mac.bindOneOf_spec
#print axioms Gecs.Mac.bindOneOf_spec_found
#print axioms Gecs.Mac.bindArch_length_iff
#print axioms Gecs.Mac.bind_types
#print axioms Gecs.Mac.bind_sound_complete
#print axioms Gecs.Mac.bind_error_iff
#print axioms Gecs.Mac.bind_error_first
#print axioms Gecs.Mac.bindArch_error_first
#print axioms Gecs.Mac.generateQuery_spec
#print axioms Gecs.Mac.generateQuery_mem
#print axioms Gecs.Mac.empty_is_error
