/-
The world-level key dispatch extracted from macros/src/generate/world.rs (`Gen.worldRows`,
`Gen.worldTryFrom`), read as a routing function, IS the model's `routeWorld` — for every key
kind, every handle (forged archetype ids included), every list of archetype ids, and each of
`contains` / `to_direct` / `destroy`.
-/
import Gecs.Gen.Steps

set_option linter.unusedSimpArgs false

namespace Gecs

/-- The plan the extracted tables prescribe: typed keys go straight to their archetype, dynamic
keys through the id match — for each of the three operations. -/
theorem gen_world_plan :
    ∀ op ∈ [DOp.contains, DOp.toDirect, DOp.destroy],
      planT Gen.worldRows Gen.worldTryFrom .ent op = .typed ∧ planT Gen.worldRows Gen.worldTryFrom .dir op = .typed
      ∧ planT Gen.worldRows Gen.worldTryFrom .any op = .dyn ∧ planT Gen.worldRows Gen.worldTryFrom .dirAny op = .dyn := by
  decide

theorem gen_world_dispatch (cfg : Cfg) (ids : List Nat) (h : Handle) (op : DOp)
    (hop : op ∈ [DOp.contains, DOp.toDirect, DOp.destroy]) :
    routeT Gen.worldRows Gen.worldTryFrom cfg ids h op = routeWorld cfg ids h := by
  obtain ⟨h1, h2, h3, h4⟩ := gen_world_plan op hop
  obtain ⟨kind, a, key⟩ := h
  cases kind <;> simp only [routeT, routeWorld, h1, h2, h3, h4, KeyKind.isTyped] <;> first | rfl | skip
  all_goals
    simp only [Bool.false_eq_true, if_false]
    cases selectArch ids key.archId with
    | none => rfl
    | some a' => simp only []; cases fromAnyUnchecked cfg (ids.getD a' ID_RANGE) key <;> rfl

end Gecs
