/-
The accessor surface of `StorageN`, as extracted (Gen.accessors): every accessor has the shape
the model assumes, and read through those shapes the storage shows what `readRow` and the column
prefixes say.
-/
import Gecs.Gen.Steps

namespace Gecs

variable {α : Type}

/-- The shapes: wrappers delegate to the trait method of the SAME operation; `begin_borrow` and
`get_view_mut` are built at the resolved index; every slice accessor is bounded by `len` and reads
its own column; shared accessors are shared, mutable ones mutable; the `borrow_*` ones go
through the column's `RefCell`. -/
theorem gen_accessors_shapes :
    shapeOf Gen.accessors "destroy" = .delegate "resolve_destroy"
    ∧ shapeOf Gen.accessors "resolve" = .delegate "resolve_for"
    ∧ shapeOf Gen.accessors "to_direct" = .delegate "resolve_direct"
    ∧ shapeOf Gen.accessors "begin_borrow" = .borrowAtResolved
    ∧ shapeOf Gen.accessors "get_view_mut" = .viewAtResolved
    ∧ shapeOf Gen.accessors "get_all_slices_mut" = .allSlicesToLen
    ∧ shapeOf Gen.accessors "get_slice_entities" = .entitiesToLen
    ∧ shapeOf Gen.accessors "get_slice_~I" = .columnToLen false false
    ∧ shapeOf Gen.accessors "get_slice_mut_~I" = .columnToLen true false
    ∧ shapeOf Gen.accessors "borrow_slice_~I" = .columnToLen false true
    ∧ shapeOf Gen.accessors "borrow_slice_mut_~I" = .columnToLen true true := by
  decide

/-- `get_view_mut`, as extracted, shows for a resolved index exactly the model's `readRow`
(the entity's own row) and the handle stored at that index. -/
theorem gen_access_view (s : Storage α) (d : Nat) (hl : s.ents.length = s.len) :
    (viewRead s d (shapeOf Gen.accessors "get_view_mut")).map (·.2) = readRow s d := by
  rw [gen_accessors_shapes.2.2.2.2.1]
  unfold viewRead readRow
  simp only [hl, and_true]
  split <;> simp_all

/-- Every per-column slice accessor shows the `len`-prefix of ITS column; `get_slice_entities`
the `len`-prefix of the handles. -/
theorem gen_access_slices (s : Storage α) (col : Nat) :
    sliceRead s col (shapeOf Gen.accessors "get_slice_~I") = (s.cols[col]?).map (fun c => c.take s.len)
    ∧ sliceRead s col (shapeOf Gen.accessors "get_slice_mut_~I") = (s.cols[col]?).map (fun c => c.take s.len)
    ∧ sliceRead s col (shapeOf Gen.accessors "borrow_slice_~I") = (s.cols[col]?).map (fun c => c.take s.len)
    ∧ sliceRead s col (shapeOf Gen.accessors "borrow_slice_mut_~I") = (s.cols[col]?).map (fun c => c.take s.len)
    ∧ entitiesRead s (shapeOf Gen.accessors "get_slice_entities") = some (s.ents.take s.len) := by
  obtain ⟨_, _, _, _, _, _, h7, h8, h9, h10, h11⟩ := gen_accessors_shapes
  rw [h7, h8, h9, h10, h11]
  exact ⟨rfl, rfl, rfl, rfl, rfl⟩

end Gecs
