/-
The representation invariant of one storage (`Inv`) and of a world (`WInv`).
Everything the property theorems need about reachable states goes through these.
-/
import Gecs.Model.Storage
import Gecs.Model.World

namespace Gecs

variable {α : Type}

/-- The free chain starting at `h` visits exactly the slot indices in `L`, in order. -/
inductive Chain (slots : List Slot) : SIdx → List Nat → Prop where
  | nil : Chain slots .freeEnd []
  | cons {s : Nat} {sl : Slot} {L : List Nat} :
      slots[s]? = some sl → sl.idx.isFree = true →
      Chain slots sl.idx L → Chain slots (.free s) (s :: L)

/-- Representation invariant of `StorageN`. -/
structure Inv (cfg : Cfg) (s : Storage α) : Prop where
  slotsLen : s.slots.length = s.capacity
  entsLen : s.ents.length = s.len
  colsLen : ∀ c ∈ s.cols, c.length = s.len
  lenCap : s.len ≤ s.capacity
  capMax : s.capacity ≤ cfg.maxCap
  /-- dense ⇒ sparse: the slot of the handle stored at dense index `d` points back to `d`
  and carries the handle's generation -/
  dense : ∀ (d : Nat) (e : Ent), s.ents[d]? = some e → s.slots[e.slot]? = some (Slot.mk (.data d) e.ver)
  /-- sparse ⇒ dense -/
  sparse : ∀ (i d v : Nat), s.slots[i]? = some (Slot.mk (.data d) v) → s.ents[d]? = some (Ent.mk i v)
  /-- the free chain visits every free slot exactly once and has `capacity − len` nodes -/
  chain : ∃ L, Chain s.slots s.freeHead L ∧ L.Nodup ∧ L.length + s.len = s.capacity
  /-- generations stay in `1..=vmax` -/
  verPos : ∀ (i : Nat) (sl : Slot), s.slots[i]? = some sl → 1 ≤ sl.ver ∧ sl.ver ≤ cfg.vmax
  archVer : 1 ≤ s.version ∧ s.version ≤ cfg.vmax

/-- World invariant: one id per archetype, ids pairwise distinct and below 256, every
storage satisfies `Inv`. -/
structure WInv (cfg : Cfg) (w : World α) : Prop where
  idsLen : w.ids.length = w.archs.length
  idsNodup : w.ids.Nodup
  idsLt : ∀ i ∈ w.ids, i < ID_RANGE
  inv : ∀ s ∈ w.archs, Inv cfg s

/-- Sanity conditions on the constants (true of the real ones, see Gen/Consts). -/
structure CfgOk (cfg : Cfg) : Prop where
  vmaxPos : 1 ≤ cfg.vmax

theorem Chain.mem_lt {slots : List Slot} {h : SIdx} {L : List Nat}
    (c : Chain slots h L) : ∀ i ∈ L, i < slots.length := by
  induction c with
  | nil => intro i hi; cases hi
  | cons hs _ _ ih =>
    intro i hi
    cases hi with
    | head => exact (List.getElem?_eq_some_iff.mp hs).1
    | tail _ h => exact ih i h

theorem Chain.mem_free {slots : List Slot} {h : SIdx} {L : List Nat}
    (c : Chain slots h L) : ∀ i ∈ L, ∃ sl, slots[i]? = some sl ∧ sl.idx.isFree = true := by
  induction c with
  | nil => intro i hi; cases hi
  | cons hs hf _ ih =>
    intro i hi
    cases hi with
    | head => exact ⟨_, hs, hf⟩
    | tail _ h => exact ih i h

/-- Setting a slot outside the chain preserves the chain. -/
theorem Chain.set_not_mem {slots : List Slot} {h : SIdx} {L : List Nat}
    (c : Chain slots h L) (j : Nat) (x : Slot) (hj : j ∉ L) :
    Chain (slots.set j x) h L := by
  induction c with
  | nil => exact .nil
  | @cons s sl L' hs hf _ ih =>
    have hne : j ≠ s := fun h => hj (h ▸ List.mem_cons_self)
    refine .cons (sl := sl) ?_ hf (ih (fun h => hj (List.mem_cons_of_mem _ h)))
    rw [List.getElem?_set_ne hne]; exact hs

theorem Chain.head_isFree {slots : List Slot} {h : SIdx} {L : List Nat}
    (c : Chain slots h L) : h.isFree = true := by
  cases c <;> rfl

end Gecs
