/-
Line-protocol driver for the run-time model (M-rt): replays a trace produced by
harness/rt (`op => observation # summary` lines), steps the L1 model on the same
operations and compares every observation.  Where no property constrains the
implementation (how far capacity grows, which ids cloned values get, words of handles of a
foreign world) the observed value is taken as a *witness* and checked against the
hypothesis the theorems make about it.  Import-free apart from the models.
-/
import Gecs.Model.Storage
import Gecs.Model.World
import Gecs.Model.Query
import Gecs.Model.Macro
import Gecs.Model.Check
import Gecs.Gen.Consts
import Gecs.Model.Events
import Gecs.Model.Borrow
import Gecs.Model.Faults

namespace Gecs.Driver
open Gecs

structure Val where
  tok : Nat
  val : Nat
deriving Repr, DecidableEq, Inhabited

def MOD : Nat := 251

/-! ### small string helpers -/

def words (s : String) : List String := (s.splitOn " ").filter (· ≠ "")

def joinWith (sep : String) (l : List String) : String := sep.intercalate l

def natOf (s : String) : Nat := s.toNat?.getD 0

def parsePair (sep : String) (s : String) : Nat × Nat :=
  match s.splitOn sep with
  | [a, b] => (natOf a, natOf b)
  | _ => (0, 0)

def fmtKey (k : Key) : String := s!"{k.key}.{k.ver}"
def fmtVal (v : Val) : String := s!"{v.tok}.{v.val}"
def fmtRow (r : List Val) : String := joinWith "," (r.map fmtVal)

/-- insertion sort (small lists) -/
def sortNat (l : List Nat) : List Nat :=
  l.foldl (fun acc x =>
    let (lo, hi) := acc.span (· ≤ x)
    lo ++ x :: hi) []

def dropsSuffix (vals : List Val) : String :=
  let toks := sortNat ((vals.filter (·.tok ≠ 0)).map (·.tok))
  let z := (vals.filter (·.tok = 0)).length
  (if toks.isEmpty then "" else " drops=" ++ joinWith "," (toks.map toString)) ++
  (if z > 0 then s!" zdrops={z}" else "")

def panicClass (msg : String) : String :=
  if msg.startsWith "capacity may not exceed" then "CapacityExceeds"
  else if msg.startsWith "capacity overflow" then "CapacityOverflow"
  else if msg.startsWith "slot version overflow" then "SlotOverflow"
  else if msg.startsWith "arch version overflow" then "ArchOverflow"
  else if msg.startsWith "invalid entity type" then "InvalidEntityType"
  else if msg.startsWith "invalid entity conversion" then "InvalidConversion"
  else if msg.startsWith "debug_assert" || msg.startsWith "debug_checked_assume" then "DebugAssert"
  else if msg.startsWith "closure" then "Injected"
  else if msg.startsWith "index out of bounds" then "IndexOob"
  else "Other"

/-! ### driver state -/

structure DS where
  -- constants GENERATED from /repo's sources on every run (tools/extract.py)
  cfg : Cfg := ⟨Gen.MAX_DATA_CAPACITY, Gen.VERSION_MAX, false, false, true⟩
  decl : Mac.DWorld := ⟨"Wa", []⟩
  zst : List (List Bool) := []
  queries : List (String × Query) := []
  queryErrs : List String := []
  worlds : List (Option (World Val)) := []
  cur : Nat := 0
  hs : List (String × Handle) := []
  ub : Nat := 0                 -- model reached `ub` (must never happen)
  growthDiag : Nat := 0         -- growth steps that differ from the code's own formula
  growths : Nat := 0
  leaked : Nat := 0             -- values leaked by panicking Clone / Drop (never dropped)
  zleaked : Nat := 0

def DS.ids (d : DS) : List Nat := d.decl.archs.map (·.id)
def DS.ncols (d : DS) : List Nat := d.decl.archs.map (·.comps.length)
def DS.narch (d : DS) : Nat := d.decl.archs.length

def DS.world (d : DS) : Option (World Val) := (d.worlds.getD d.cur none)
def DS.setWorld (d : DS) (w : World Val) : DS := { d with worlds := d.worlds.set d.cur (some w) }
def DS.getH (d : DS) (n : String) : Option Handle := (d.hs.find? (·.1 == n)).map (·.2)
def DS.setH (d : DS) (n : String) (h : Handle) : DS :=
  { d with hs := (n, h) :: d.hs.filter (·.1 != n) }

def summary (d : DS) : String :=
  match d.world with
  | none => "dropped"
  | some w => joinWith " " (w.archs.map (fun s => s!"{s.len}/{s.capacity}/{s.version}"))

/-! ### header parsing -/

def parseParam (decl : Mac.DWorld) (s : String) : Mac.QParam :=
  match s.splitOn ":" with
  | ["C", n] => ⟨[], false, .comp n, true⟩
  | ["M", n] => ⟨[], true, .comp n, true⟩
  | ["E", "_"] => ⟨[], false, .entWild, true⟩
  | ["E", a] => ⟨[], false, .ent a, true⟩
  | ["EA"] => ⟨[], false, .entAny, true⟩
  | ["D", "_"] => ⟨[], false, .dirWild, true⟩
  | ["D", a] => ⟨[], false, .dir a, true⟩
  | ["DA"] => ⟨[], false, .dirAny, true⟩
  | ["O", cs] => ⟨[], false, .oneOf (cs.splitOn ","), true⟩
  | ["OM", cs] => ⟨[], true, .oneOf (cs.splitOn ","), true⟩
  | _ => let _ := decl; ⟨[], false, .entAny, true⟩

/-- Turn M-mac's binding into the run-time query (column indices). -/
def toQuery (decl : Mac.DWorld) (m : List (Mac.DArch × List Mac.QParam)) : Query :=
  m.map (fun (a, ps) =>
    let ai := (decl.archs.findIdx? (fun x => x.name == a.name)).getD 0
    { a := ai, params := ps.map (fun p =>
        match p.ty with
        | .comp n => Param.comp ((a.comps.findIdx? (fun c => c.name == n)).getD 0) p.isMut
        | .ent _ | .entWild => Param.ent
        | .entAny => Param.entAny
        | .dir _ | .dirWild => Param.dir
        | .dirAny => Param.dirAny
        | .oneOf _ => Param.entAny) })

def headerLine (d : DS) (line : String) : DS :=
  match words line with
  | "cfg" :: kvs =>
    let get (k : String) : Bool := kvs.any (· == k ++ "=1")
    { d with cfg := { d.cfg with debug := get "debug", events := get "events", wrapping := get "wrapping" } }
  | "arch" :: _ :: name :: id :: comps =>
    let cs := comps.map (fun c => c.splitOn ":")
    let dc : List Mac.DComp := cs.map (fun c => ⟨natOf (c.getD 1 "0"), c.getD 0 ""⟩)
    let z : List Bool := cs.map (fun c => c.getD 2 "" == "z")
    { d with decl := { d.decl with archs := d.decl.archs ++ [⟨natOf id, name, dc⟩] }, zst := d.zst ++ [z] }
  | ["query", name, params] =>
    let ps := (params.splitOn ";").map (parseParam d.decl)
    match Mac.generateQuery d.decl ps with
    | .ok m => { d with queries := d.queries ++ [(name, toQuery d.decl m)] }
    | .error e => { d with queryErrs := d.queryErrs ++ [s!"{name}: {repr e}"] }
  | _ => d

/-! ### op interpretation -/

def parseRow (zs : List Bool) (toks : List String) : List Val :=
  (toks.zip (zs ++ List.replicate toks.length false)).map (fun (t, z) =>
    if z then ⟨0, 0⟩ else let (a, b) := parsePair ":" t; ⟨a, b⟩)

/-- Capacity of archetype `a` in the implementation's summary. -/
def implCap (implSummary : String) (a : Nat) : Nat :=
  match ((words implSummary).getD a "").splitOn "/" with
  | [_, c, _] => natOf (c.replace "!" "")
  | _ => 0

def routeOp (d : DS) (worldLevel typed : Bool) (h : Handle) (at_ : Option Nat) : Route :=
  KeyUse.route d.cfg d.ids ⟨worldLevel, typed, h, at_⟩

def routedArch : Route → Option Nat
  | .arch a _ => some a
  | _ => none

def optField {β : Type} (r : WOut Val (Option β)) (f : β → String) : String × Bool :=
  match r with
  | .ok (some x) _ => (f x, false)
  | .ok none _ => ("-", false)
  | .panic m _ => ("!" ++ panicClass m, false)
  | .ub _ => ("UB", true)

def boolField {β : Type} (r : WOut Val (Option β)) : String × Bool :=
  match r with
  | .ok (some _) _ => ("1", false)
  | .ok none _ => ("0", false)
  | .panic m _ => ("!" ++ panicClass m, false)
  | .ub _ => ("UB", true)

def fetchStr (id : Nat) (x : Nat × Ent × List Val) : String :=
  s!"{fmtKey (mkKey x.2.1.slot id x.2.1.ver)}@{x.1}:{fmtRow x.2.2}"

/-- The nine typed / seven dynamic probe fields for one key. -/
def probeKey (d : DS) (w : World Val) (h : Handle) (typed : Bool) : List String × Bool :=
  let pre := if typed then "t" else "y"
  let direct := h.kind.isDirect
  let ra := routeOp d false typed h none
  let rw := routeOp d true typed h none
  let idOf (r : Route) : Nat := d.ids.getD ((routedArch r).getD 0) 0
  let fs : List (String × (String × Bool)) :=
    [ ("c", boolField (w.contains d.cfg ra direct)),
      ("r", optField (w.contains d.cfg ra direct) toString),
      ("d", optField (w.toDirect d.cfg ra direct) fmtKey),
      ("v", optField (w.fetch d.cfg ra direct) (fetchStr (idOf ra))),
      ("b", optField (w.fetch d.cfg ra direct) (fetchStr (idOf ra))),
      ("wc", boolField (w.contains d.cfg rw direct)),
      ("wd", optField (w.toDirect d.cfg rw direct) fmtKey) ] ++
    (if typed then
      [ ("wv", optField (w.fetch d.cfg rw direct) (fetchStr (idOf rw))),
        ("wb", optField (w.fetch d.cfg rw direct) (fetchStr (idOf rw))) ]
     else [])
  (fs.map (fun (n, (s, _)) => s!"{pre}{n}={s}"), fs.any (fun (_, (_, u)) => u))

def probe (d : DS) (w : World Val) (h : Handle) : String × Bool :=
  let typedFails := d.cfg.debug ∧ h.key.archId ≠ d.ids.getD h.a ID_RANGE
  let (tf, tu) := if typedFails then (["t!DebugAssert"], false) else probeKey d w h true
  let (yf, yu) := probeKey d w h false
  let other := (h.a + 1) % d.narch
  let hy : Handle := ⟨kindOf false h.kind.isDirect, other, h.key⟩
  let ro := routeArch d.ids other hy
  let direct := h.kind.isDirect
  let oid := d.ids.getD other 0
  let fo : List (String × (String × Bool)) :=
    [ ("oc", boolField (w.contains d.cfg ro direct)),
      ("or", optField (w.contains d.cfg ro direct) toString),
      ("od", optField (w.toDirect d.cfg ro direct) fmtKey),
      ("ov", optField (w.fetch d.cfg ro direct) (fetchStr oid)),
      ("ob", optField (w.fetch d.cfg ro direct) (fetchStr oid)) ]
  (joinWith " " (tf ++ yf ++ fo.map (fun (n, (s, _)) => s!"{n}={s}")),
    tu || yu || fo.any (fun (_, (_, u)) => u))

/-! ### scripted closures -/

structure ScriptSt where
  n : Nat := 0
  calls : List String := []
  lastDir : Option Key := none

def fmtArg : Arg Val → String
  | .comp _ x => "c" ++ fmtVal x
  | .ent k => "e" ++ fmtKey k
  | .dir k => "d" ++ fmtKey k

def argWrite (add : Nat) : Arg Val → Option Val
  | .comp true x => if add > 0 ∧ x.tok ≠ 0 then some ⟨x.tok, (x.val + add) % MOD⟩ else none
  | _ => none

def lastDirOf (args : List (Arg Val)) (prev : Option Key) : Option Key :=
  args.foldl (fun acc a => match a with | .dir k => some k | _ => acc) prev

def scriptCore (pan : Option Nat) (add : Nat) (st : ScriptSt) (args : List (Arg Val)) :
    ScriptSt × List (Option Val) × Bool :=
  let st' : ScriptSt := { n := st.n + 1, calls := st.calls ++ [joinWith "," (args.map fmtArg)],
                          lastDir := lastDirOf args st.lastDir }
  (st', args.map (argWrite add), pan == some st.n)

def iterClosure (brk pan : Option Nat) (add : Nat) : Closure ScriptSt Val Step :=
  fun st args =>
    let (st', ws, p) := scriptCore pan add st args
    if p then .panic st' ws else .ret st' ws (if brk == some st.n then .brk else .cont)

def decisionAt (dec : List Char) (k : Nat) : Step4 :=
  match dec.getD k 'c' with
  | 'b' => .brk
  | 'd' => .contDestroy
  | 'x' => .brkDestroy
  | _ => .cont

def destroyClosure (dec : List Char) (pan : Option Nat) (add : Nat) : Closure ScriptSt Val Step4 :=
  fun st args =>
    let (st', ws, p) := scriptCore pan add st args
    if p then .panic st' ws else .ret st' ws (decisionAt dec st.n)

def findClosure (pan : Option Nat) (add : Nat) : Closure ScriptSt Val Unit :=
  fun st args =>
    let (st', ws, p) := scriptCore pan add st args
    if p then .panic st' ws else .ret st' ws ()

def kvGet (kvs : List String) (k : String) : Option String :=
  (kvs.find? (fun s => s.startsWith (k ++ "="))).map (fun s => (s.drop (k.length + 1)).toString)

/-- All values currently stored in a world (for drops / clone checks), code order. -/
def worldVals (w : World Val) : List Val :=
  w.archs.flatMap (fun s => s.cols.flatMap (fun c => c.take s.len))

/-- Values in clone order: per archetype, entity-major, column-minor. -/
def cloneOrder (w : World Val) : List Val :=
  w.archs.flatMap (fun s => (List.range s.len).flatMap (fun i => s.cols.filterMap (fun c => c[i]?)))

def eventsStr (d : DS) (w : World Val) : String :=
  let per := (List.range w.archs.length).zip w.archs |>.map (fun (a, s) =>
    let id := d.ids.getD a 0
    let f (l : List Ent) := joinWith "," (l.map (fun e => fmtKey (mkKey e.slot id e.ver)))
    s!"c{a}=[{f s.created}] d{a}=[{f s.destroyed}]")
  -- the world-level iterators are run as the generated state machine (Model/Events.lean)
  let walk (logs : List (List Key)) : String × String :=
    let r := EvIter.drain (logs.flatten.length + 1) (EvIter.start logs)
    let hint (h : Nat × Option Nat) : String :=
      match h with
      | (lo, some hi) => if lo == hi then toString lo else s!"{lo}..{hi}"
      | (lo, none) => s!"{lo}.."
    (joinWith "," (r.1.map fmtKey), joinWith "," (r.2.map hint))
  let (wc, wch) := walk w.createdLogs
  let (wd, wdh) := walk w.destroyedLogs
  joinWith " " per ++ s!" wc=[{wc}] wch=[{wch}] wd=[{wd}] wdh=[{wdh}]"

def dumpStr (id : Nat) (s : Storage Val) : String :=
  let sl := joinWith "," (s.slots.map (fun x => s!"{encodeIdx x.idx}.{x.ver}"))
  let en := joinWith "," (s.ents.map (fun e => fmtKey (mkKey e.slot id e.ver)))
  s!"dump v={s.version} len={s.len} cap={s.capacity} fh={encodeIdx s.freeHead} slots=[{sl}] ents=[{en}]"

def convStr (d : DS) (h : Handle) : String :=
  let k := h.key
  let ids := d.ids
  let direct := h.kind.isDirect
  let tf := ids.map (fun ida =>
    (if k.archId = ida then
      (if direct then s!"ok:{fmtKey k}:1:{ida}:1" else s!"ok:{fmtKey k}:1:{ida}:1:1")
     else "err:InvalidEntityType") ++ "/" ++
    (if k.archId = ida then s!"ok:{fmtKey k}" else "!InvalidConversion"))
  let sel := match selectArch ids k.archId with
    | some a => s!"{a}:{fmtKey k}"
    | none => "err:InvalidEntityType"
  if direct then
    s!"raw={fmtKey k} id={k.archId} hashraw=1 tf=[{joinWith " " tf}] sel={sel}"
  else
    let sa := match selectArch ids k.archId with
      | some _ => s!"{k.archId}/{k.archId}"
      | none => "err:InvalidEntityType/err:InvalidEntityType"
    s!"raw={fmtKey k} id={k.archId} rt=1 hashraw=1 tf=[{joinWith " " tf}] sel={sel} sa={sa}"

/-- C14: `==`, `!=` and hash agreement of a pair of handles (dynamically typed, then typed for
every archetype both convert to): equality is equality of the two words, nothing else. -/
def cmpStr (d : DS) (h1 h2 : Handle) : String :=
  if h1.kind.isDirect != h2.kind.isDirect then "k=x" else
  let tri : String := if h1.key.key = h2.key.key ∧ h1.key.ver = h2.key.ver then "101" else "01-"
  let ty := d.ids.map (fun ida => if h1.key.archId = ida ∧ h2.key.archId = ida then tri else "-")
  let k := if h1.kind.isDirect then "d" else "e"
  s!"k={k} a={fmtKey h1.key} b={fmtKey h2.key} any={tri} t=[{joinWith " " ty}]"

/-- One op: returns the model's observation and the new state.  `implObs` / `implSum`
are used only for witnesses. -/
def step (d : DS) (op : List String) (implObs implSum : String) : String × DS :=
  let noWorld : String × DS := ("no-world", d)
  let ubOut (m : String) : String × DS := ("MODEL-UB " ++ m, { d with ub := d.ub + 1 })
  match op with
  | "new" :: caps =>
    -- an ops file generated under another arity may carry fewer capacities: missing ones are 0
    let capsN := caps.map natOf ++ List.replicate (d.narch - caps.length) 0
    (match (World.withCapacity d.cfg d.ids d.ncols capsN : WOut Val Unit) with
     | .ok _ w => ("ok", { d with worlds := [some w], cur := 0, hs := [] })
     | .panic m _ => ("panic " ++ panicClass m, d)
     | .ub m => ubOut m)
  | cmd :: _lvl :: a :: var :: rowToks =>
    if cmd == "create" || cmd == "createw" then
      let a := natOf a
      match d.world with
      | none => noWorld
      | some w =>
        let row := parseRow (d.zst.getD a []) rowToks
        if cmd == "create" then
          let witness := implCap implSum a
          let s0 := w.archs.getD a (emptyStorage 0)
          let growing := s0.len ≥ s0.capacity ∧ s0.capacity < d.cfg.maxCap
          let bad := growing ∧ ¬ (s0.capacity < witness ∧ witness ≤ d.cfg.maxCap)
          let diag := if growing ∧ witness ≠ codeGrowth d.cfg s0.capacity then 1 else 0
          let d := { d with growthDiag := d.growthDiag + diag, growths := d.growths + (if growing then 1 else 0) }
          match w.create d.cfg (fun _ => witness) a row with
          | .ok e w' =>
            let k := mkKey e.slot (d.ids.getD a 0) e.ver
            ((if bad then "GROWTH-VIOLATION " else "") ++ "e " ++ fmtKey k,
              (d.setWorld w').setH var ⟨.ent, a, k⟩)
          | .panic m w' => ("panic " ++ panicClass m ++ dropsSuffix row, d.setWorld w')
          | .ub m => ubOut m
        else
          match w.createWithin d.cfg a row with
          | .ok (some e) w' =>
            let k := mkKey e.slot (d.ids.getD a 0) e.ver
            ("e " ++ fmtKey k, (d.setWorld w').setH var ⟨.ent, a, k⟩)
          | .ok none w' => ("full " ++ fmtRow row, d.setWorld w')
          | .panic m w' => ("panic " ++ panicClass m ++ dropsSuffix row, d.setWorld w')
          | .ub m => ubOut m
    else if cmd == "todirect" then
      -- todirect <w|a> <t|y> <var> <newvar> [@arch]
      let worldLevel := _lvl == "w"
      let typed := a == "t"
      let hv := var
      let nv := rowToks.getD 0 "_"
      let at_ := (rowToks.getD 1 "").drop 1 |>.toString |>.toNat?
      match d.getH hv, d.world with
      | none, _ => ("undef", d)
      | _, none => noWorld
      | some h, some w =>
        let r := routeOp d worldLevel typed h at_
        match w.toDirect d.cfg r h.kind.isDirect with
        | .ok (some k) _ =>
          let a' := (routedArch r).getD 0
          -- harness: at world level with a dynamic key the static archetype of the new
          -- variable is looked up from the id of the returned handle
          let a'' := if worldLevel ∧ ¬ typed then (selectArch d.ids k.archId).getD a' else a'
          ("d " ++ fmtKey k, d.setH nv ⟨.dir, a'', k⟩)
        | .ok none _ => ("none", d)
        | .panic m _ => ("panic " ++ panicClass m, d)
        | .ub m => ubOut m
    else if cmd == "destroy" then
      -- destroy <w|a> <t|y> <var> [@arch]    (here: _lvl a var rowToks = lvl kind var [@arch])
      let worldLevel := _lvl == "w"
      let typed := a == "t"
      let at_ := ((rowToks.find? (·.startsWith "@")).getD "").drop 1 |>.toString |>.toNat?
      let fault := (kvGet rowToks "fault").map natOf
      match d.getH var, d.world with
      | none, _ => ("undef", d)
      | _, none => noWorld
      | some h, some w =>
        let r := routeOp d worldLevel typed h at_
        match w.destroy d.cfg r h.kind.isDirect with
        | .ok (some row) w' =>
          if worldLevel ∧ ¬ typed then
            -- the components are dropped inside the call; a panicking Drop unwinds out of it
            -- after the entity has been removed, the other fields of the tuple are still dropped
            let nd := (row.filter (·.tok ≠ 0)).length
            let faulted : Bool := match fault with | some k => decide (k < nd) | none => false
            ((if faulted then "panic Injected" else "some") ++ dropsSuffix row, d.setWorld w')
          else ("some " ++ fmtRow row, d.setWorld w')
        | .ok none w' => ("none", d.setWorld w')
        | .panic m w' => ("panic " ++ panicClass m, d.setWorld w')
        | .ub m => ubOut m
    else if cmd == "write" then
      -- write <path> <var> <col> <val>   (here: _lvl a var rowToks = path var col [val])
      let path := _lvl
      let hv := a
      let col := natOf var
      let val := natOf (rowToks.getD 0 "0")
      match d.getH hv, d.world with
      | none, _ => ("undef", d)
      | _, none => noWorld
      | some h, some w =>
        let worldLevel := path == "V" || path == "B"
        let r := routeOp d worldLevel true h none
        match w.fetch d.cfg r h.kind.isDirect with
        | .ok (some (i, _, row)) _ =>
          let a' := (routedArch r).getD 0
          let isZ := (row.getD col ⟨1, 0⟩).tok = 0
          let s := w.archs.getD a' (emptyStorage 0)
          let s' := if isZ then s else writeCell s i col ⟨(row.getD col ⟨0, 0⟩).tok, val⟩
          ("ok", d.setWorld (w.setArch a' s'))
        | .ok none _ => ("none", d)
        | .panic m _ => ("panic " ++ panicClass m, d)
        | .ub m => ubOut m
    else if cmd == "find" || cmd == "findb" then
      -- find <q> <t|y> <var> kvs..   (here: _lvl a var rowToks = q kind var kvs)
      let qn := _lvl
      let typed := a == "t"
      match d.getH var, d.world, d.queries.find? (·.1 == qn) with
      | none, _, _ => ("undef", d)
      | _, none, _ => noWorld
      | _, _, none => ("no-such-query", d)
      | some h, some w, some (_, q) =>
        let pan := (kvGet rowToks "pan").map natOf
        let add := ((kvGet rowToks "add").map natOf).getD 0
        let save := kvGet rowToks "save"
        let fin (st : ScriptSt) (d : DS) : String × DS :=
          match save with
          | none => ("", d)
          | some v =>
            match st.lastDir with
            | some k => (" saved=1", d.setH v ⟨.dir, (selectArch d.ids k.archId).getD 0, k⟩)
            | none => (" saved=0", d)
        if typed ∧ d.cfg.debug ∧ h.key.archId ≠ d.ids.getD h.a ID_RANGE then
          let (s, d') := fin {} d
          ("panic:DebugAssert []" ++ s, d')
        else
          let hh : Handle := ⟨kindOf typed h.kind.isDirect, h.a, h.key⟩
          match findQuery d.cfg q (findClosure pan add) hh ({} : ScriptSt) w with
          | .ok r st w' =>
            let (s, d') := fin st (d.setWorld w')
            ((if r.isSome then "some" else "none") ++ s!" [{joinWith "|" st.calls}]" ++ s, d')
          | .panic m st w' =>
            let (s, d') := fin st (d.setWorld w')
            (s!"panic:{panicClass m} [{joinWith "|" st.calls}]" ++ s, d')
          | .ub m => ubOut m
    else if cmd == "forge" then
      -- forge <var> any <key> <ver> | forge <var> ent <arch> <key> <ver> | forge <var> dir <arch> <dvar>
      let nv := _lvl
      match a with
      | "any" =>
        (match fromRaw (natOf var) (natOf (rowToks.getD 0 "0")) with
         | some k => ("ok", d.setH nv ⟨.ent, (selectArch d.ids k.archId).getD 0, k⟩)
         | none => ("err:InvalidRawEntity", d))
      | "ent" =>
        let b := natOf var
        (match fromRaw (natOf (rowToks.getD 0 "0")) (natOf (rowToks.getD 1 "0")) with
         | some k =>
           (match fromAnyUnchecked d.cfg (d.ids.getD b ID_RANGE) k with
            | some _ => ("ok", d.setH nv ⟨.ent, b, k⟩)
            | none => ("panic DebugAssert", d))
         | none => ("err:InvalidRawEntity", d))
      | "dir" =>
        let b := natOf var
        (match d.getH (rowToks.getD 0 "") with
         | some h =>
           if h.kind.isDirect then
             (match fromAnyUnchecked d.cfg (d.ids.getD b ID_RANGE) h.key with
              | some _ => ("ok", d.setH nv ⟨.dir, b, h.key⟩)
              | none => ("panic DebugAssert", d))
           else ("undef", d)
         | none => ("undef", d))
      | _ => ("bad-op", d)
    else if cmd == "preset" then
      -- preset <a> <sv> <av>   (here: _lvl a var = a sv av)
      let ai := natOf _lvl
      match d.world with
      | none => noWorld
      | some w =>
        match presetVersions (w.archs.getD ai (emptyStorage 0)) (natOf a) (natOf var) with
        | some s' => ("ok", d.setWorld (w.setArch ai s'))
        | none => ("refused", d)
    else ("bad-op", d)
  | _ => ("bad-op", d)

/-- Ops with fewer than five tokens, or with key=value tails. -/
def stepShort (d : DS) (op : List String) (implObs implSum : String) : String × DS :=
  let noWorld : String × DS := ("no-world", d)
  let ubOut (m : String) : String × DS := ("MODEL-UB " ++ m, { d with ub := d.ub + 1 })
  match op with
  | ["probe", hv] =>
    (match d.getH hv, d.world with
     | none, _ => ("undef", d)
     | _, none => noWorld
     | some h, some w =>
       let (s, u) := probe d w h
       (s, if u then { d with ub := d.ub + 1 } else d))
  | ["rows", a] =>
    (match d.world with
     | none => noWorld
     | some w =>
       let ai := natOf a
       let s := w.archs.getD ai (emptyStorage 0)
       let id := d.ids.getD ai 0
       let rows := (List.range s.len).map (fun i =>
         let e := s.ents.getD i ⟨0, 0⟩
         s!"{fmtKey (mkKey e.slot id e.ver)}:{fmtRow (s.cols.filterMap (fun c => c[i]?))}")
       (s!"rows {joinWith "|" rows} paths=ok", d))
  | cmd :: qn :: kvs =>
    if cmd == "iter" || cmd == "iterb" || cmd == "iterd" || cmd == "iterds" then
      match d.world, d.queries.find? (·.1 == qn) with
      | none, _ => noWorld
      | _, none => ("no-such-query", d)
      | some w, some (_, q) =>
        let brk := (kvGet kvs "brk").map natOf
        let pan := (kvGet kvs "pan").map natOf
        let add := ((kvGet kvs "add").map natOf).getD 0
        -- `iterds`: ecs_iter_destroy! with a closure returning plain `EcsStep` (converted by
        -- `From<EcsStep> for EcsStepDestroy`): Continue … Continue, Break at call `brk`
        let dec := if cmd == "iterds" then (match brk with | some k => List.replicate k 'c' ++ ['b'] | none => [])
                   else ((kvGet kvs "dec").getD "").toList
        let save := kvGet kvs "save"
        let before := worldVals w
        let res : QOut ScriptSt Val :=
          if cmd == "iterd" || cmd == "iterds" then iterDestroyQuery d.cfg (destroyClosure dec pan add) q {} w
          else iterQuery d.cfg (iterClosure brk pan add) q {} w
        let fin (st : ScriptSt) (w' : World Val) (endS : String) : String × DS :=
          let d1 := d.setWorld w'
          let (sv, d2) : String × DS :=
            match save with
            | none => ("", d1)
            | some v =>
              match st.lastDir with
              | some k => (" saved=1", d1.setH v ⟨.dir, (selectArch d.ids k.archId).getD 0, k⟩)
              | none => (" saved=0", d1)
          let after := worldVals w'
          -- values that left the world during the op were dropped inside gecs
          let gone := before.filter (fun v => v.tok ≠ 0 ∧ ¬ after.any (fun x => x.tok == v.tok))
          let zgone := (before.filter (·.tok = 0)).length - (after.filter (·.tok = 0)).length
          (s!"n={st.calls.length} [{joinWith "|" st.calls}] end={endS}" ++ sv ++
             dropsSuffix (gone ++ List.replicate zgone ⟨0, 0⟩), d2)
        match res with
        | .ok st w' => fin st w' "ok"
        | .panic m st w' => fin st w' ("panic:" ++ panicClass m)
        | .ub m => ubOut m
    else if cmd == "clone" then
      match d.world with
      | none => noWorld
      | some w =>
        -- witness: the src>dst pairs reported by the implementation
        let mapStr := ((words implObs).find? (·.startsWith "map=")).getD "map="
        let pairs := ((mapStr.drop 4).toString.splitOn ",").filter (· ≠ "") |>.map (parsePair ">")
        let expected := (cloneOrder w).filter (·.tok ≠ 0) |>.map (·.tok)
        let zc := ((cloneOrder w).filter (·.tok = 0)).length
        let srcs := pairs.map (·.1)
        let dsts := pairs.map (·.2)
        let allToks := d.worlds.flatMap (fun ow => match ow with | some x => (worldVals x).map (·.tok) | none => [])
        let valid := sortNat srcs == sortNat expected ∧ dsts.Nodup ∧ dsts.all (fun t => t ≠ 0 ∧ ¬ allToks.contains t)
        let fault := (kvGet (qn :: kvs) "fault").map natOf
        let faulted : Bool := match fault with | some k => decide (k < expected.length) | none => false
        if faulted then
          -- the k-th Clone::clone panics: clones happen archetype by archetype, entity-major,
          -- column-minor; archetypes cloned completely before are dropped during the unwind,
          -- the partially built one is leaked; the source world is untouched
          let k := fault.getD 0
          -- which clones were made and then dropped / leaked: Model/Faults.lean (`cloneFault`,
          -- theorems in Lemmas/Faults.lean: every clone made is dropped or leaked exactly once, in order)
          let isZV : Val → Bool := fun v => decide (v.tok = 0)
          let (dT, dZ, pT, pZ) := match cloneFault isZV w.clonePerArch k with
            | some o => (nzCount isZV o.dropped, zCount isZV o.dropped, nzCount isZV o.leaked, zCount isZV o.leaked)
            | none => (expected.length, zc, 0, 0)
          let okPairs := pairs.length == dT + pT ∧ srcs == expected.take (dT + pT) ∧ dsts.Nodup
          let dropped := (dsts.take dT).map (fun t => (⟨t, 0⟩ : Val)) ++ List.replicate dZ ⟨0, 0⟩
          let mapS := if okPairs then mapStr else s!"map=EXPECTED-SRCS:{joinWith "," ((expected.take (dT + pT)).map toString)}"
          (s!"panic Injected {mapS} zclones={dZ + pZ}" ++ dropsSuffix dropped,
            { d with leaked := d.leaked + pT, zleaked := d.zleaked + pZ })
        else if valid then
          let cl : Val → Val := fun v =>
            if v.tok = 0 then v else ⟨((pairs.find? (·.1 == v.tok)).map (·.2)).getD 0, v.val⟩
          match w.clone cl with
          | .ok w' _ =>
            (s!"w{d.worlds.length} {mapStr} zclones={zc}", { d with worlds := d.worlds ++ [some w'] })
          | .panic m _ => ("panic " ++ panicClass m, d)
          | .ub m => ubOut m
        else
          (s!"w{d.worlds.length} map=EXPECTED-SRCS:{joinWith "," (expected.map toString)} zclones={zc}", d)
    else if cmd == "switch" then
      let i := natOf qn
      match d.worlds.getD i none with
      | some _ => ("ok", { d with cur := i })
      | none => ("no-world", d)
    else if cmd == "drop" then
      let i := natOf qn
      match d.worlds.getD i none with
      | none => ("no-world", d)
      | some w =>
        let fault := (kvGet kvs "fault").map natOf
        match w.drop with
        | .ok vals _ =>
          let nd := (vals.filter (·.tok ≠ 0)).length
          let faulted : Bool := match fault with | some k => decide (k < nd) | none => false
          if faulted then
            -- the k-th Drop::drop panics inside one storage's drop: the rest of that storage's
            -- cells are leaked, the other archetypes are still dropped during the unwind
            let k := fault.getD 0
            -- Model/Faults.lean (`dropFault`; Lemmas/Faults.lean: dropped ++ leaked is a permutation of
            -- everything owned, nothing dropped twice, the leak is the rest of ONE archetype)
            let isZV : Val → Bool := fun v => decide (v.tok = 0)
            let (dropped, lT, lZ) := match dropFault isZV w.dropPerArch k with
              | some o => (o.dropped, nzCount isZV o.leaked, zCount isZV o.leaked)
              | none => (vals, 0, 0)
            ("panic Injected" ++ dropsSuffix dropped,
              { d with worlds := d.worlds.set i none, leaked := d.leaked + lT, zleaked := d.zleaked + lZ })
          else ("ok" ++ dropsSuffix vals, { d with worlds := d.worlds.set i none })
        | .panic m _ => ("panic " ++ panicClass m, d)
        | .ub m => ubOut m
    else if cmd == "clear" then
      if d.cfg.events then
        match d.world with
        | none => noWorld
        | some w =>
          let ai := natOf qn
          ("ok", d.setWorld (w.setArch ai (clearEvents (w.archs.getD ai (emptyStorage 0)))))
      else ("no-events", d)
    else if cmd == "dump" then
      match d.world with
      | none => noWorld
      | some w =>
        let ai := natOf qn
        (dumpStr (d.ids.getD ai 0) (w.archs.getD ai (emptyStorage 0)), d)
    else if cmd == "cmp" then
      match d.getH qn, d.getH (kvs.getD 0 "_") with
      | some h1, some h2 => (cmpStr d h1 h2, d)
      | _, _ => ("undef", d)
    else if cmd == "conv" then
      match d.getH qn with
      | none => ("undef", d)
      | some h => (convStr d h, d)
    else if cmd == "wbcreate" then
      -- witness: words of a handle of the foreign world
      match words implObs with
      | ["e", kv] =>
        let (k, v) := parsePair "." kv
        let key : Key := ⟨k, v⟩
        let nv := kvs.getD 0 "_"
        ("e " ++ kv, d.setH nv ⟨.ent, (selectArch d.ids key.archId).getD 0, key⟩)
      | _ => ("bad-witness", d)
    else if cmd == "wbdirect" then
      match words implObs with
      | ["d", kv] =>
        let (k, v) := parsePair "." kv
        let key : Key := ⟨k, v⟩
        let nv := kvs.getD 0 "_"
        ("d " ++ kv, d.setH nv ⟨.dir, (selectArch d.ids key.archId).getD 0, key⟩)
      | ["none"] => ("none", d)
      | _ => ("bad-witness", d)
    else ("bad-op", d)
  | ["end"] =>
    let alive := d.worlds.flatMap (fun ow => match ow with | some x => worldVals x | none => [])
    (s!"live={d.leaked + (alive.filter (·.tok ≠ 0)).length} zlive={d.zleaked + (alive.filter (·.tok = 0)).length}", d)
  | ["events"] =>
    if d.cfg.events then
      match d.world with
      | none => noWorld
      | some w => (eventsStr d w, d)
    else ("no-events", d)
  | ["clear"] =>
    if d.cfg.events then
      match d.world with
      | none => noWorld
      | some w => ("ok", d.setWorld w.clearEvents)
    else ("no-events", d)
  | _ => ("bad-op", d)


/-! ### C11: nested runtime-borrowed accesses -/

/-- Parsed access tree, before the world-dependent facts are resolved. -/
inductive PNode where
  | bs (a col : Nat) (m : Bool) (kids : List PNode)
  | bc (a : Nat) (var : String) (col : Nat) (m : Bool) (kids : List PNode)
  | fb (q : String) (var : String) (kids : List PNode)
  | ib (q : String) (kids : List PNode)
  | cl

/-- Recursive-descent parser over the token list (`fuel` bounds the recursion). -/
def parseNodes : Nat → List String → Option (List PNode × List String)
  | 0, _ => none
  | fuel + 1, toks =>
    match toks with
    | "(" :: kind :: rest =>
      let args := rest.takeWhile (fun t => t != "(" && t != ")")
      let rest' := rest.dropWhile (fun t => t != "(" && t != ")")
      match parseNodes fuel rest' with
      | none => none
      | some (kids, rest'') =>
        match rest'' with
        | ")" :: rest3 =>
          let node : Option PNode :=
            match kind, args with
            | "bs", [a, c, m] => some (.bs (natOf a) (natOf c) (m == "m") kids)
            | "bc", [a, v, c, m] => some (.bc (natOf a) v (natOf c) (m == "m") kids)
            | "fb", [q, v] => some (.fb q v kids)
            | "ib", [q] => some (.ib q kids)
            | "cl", [] => some .cl
            | _, _ => none
          match node, parseNodes fuel rest3 with
          | some n, some (more, rest4) => some (n :: more, rest4)
          | _, _ => none
        | _ => none
    | _ => some ([], toks)

def guardsOf (a : Nat) (ps : List Param) : List (Borrow.CellId × Bool) :=
  ps.filterMap (fun p => match p with | .comp c m => some ((a, c), m) | _ => none)

mutual
def resolveNode (d : DS) (w : World Val) : PNode → Borrow.Node
  | .bs a col m kids => .bs a col m (resolveNodes d w kids)
  | .bc a var col m kids =>
    let found : Bool :=
      match d.getH var with
      | some h =>
        -- an entity variable, or a dynamically typed DIRECT key (`borrow(EntityDirectAny)`)
        let dir := h.kind.isDirect
        (match w.contains d.cfg (routeArch d.ids a ⟨kindOf false dir, a, h.key⟩) dir with
         | .ok (some _) _ => true
         | _ => false)
      | none => false
    .bc a col m found (resolveNodes d w kids)
  | .fb qn var kids =>
    let gs : Option (List (Borrow.CellId × Bool)) :=
      match d.getH var, d.queries.find? (·.1 == qn) with
      | some h, some (_, q) =>
        let dir := h.kind.isDirect
        (match routeWorld d.cfg d.ids ⟨kindOf false dir, h.a, h.key⟩ with
         | .arch a k =>
           (match q.find? (fun qa => qa.a == a), w.archs[a]? with
            | some qa, some s =>
              (match storageResolve d.cfg s dir k with
               | .ok (some _) _ => some (guardsOf a qa.params)
               | _ => none)
            | _, _ => none)
         | _ => none)
      | _, _ => none
    .fb gs (resolveNodes d w kids)
  | .ib qn kids =>
    let calls : List (List (Borrow.CellId × Bool)) :=
      match d.queries.find? (·.1 == qn) with
      | some (_, q) => q.flatMap (fun qa =>
          List.replicate ((w.archs.getD qa.a (emptyStorage 0)).len) (guardsOf qa.a qa.params))
      | none => []
    .ib calls (resolveNodes d w kids)
  | .cl => .cl (((List.range w.archs.length).zip w.archs).map (fun (a, s) => (List.range s.cols.length).map (fun c => (a, c))))
def resolveNodes (d : DS) (w : World Val) : List PNode → List Borrow.Node
  | [] => []
  | n :: rest => resolveNode d w n :: resolveNodes d w rest
end

def nestOp (d : DS) (toks : List String) : String :=
  match d.world with
  | none => "no-world"
  | some w =>
    match parseNodes (toks.length + 1) toks with
    | some (pn, []) =>
      let r := Borrow.run (resolveNodes d w pn)
      let endS := match r.panic with
        | none => "ok"
        | some .borrowError => "panic:BorrowError"
        | some .borrowMutError => "panic:BorrowMutError"
      s!"[{joinWith " " r.trace}] end={endS} sweep={if r.cells.idle then "ok" else "BAD"}"
    | _ => "bad-op"

def dispatchOp (d : DS) (op : List String) (implObs implSum : String) : String × DS :=
  match op with
  | c :: _ =>
    if ["new", "create", "createw", "todirect", "destroy", "write", "find", "findb", "forge", "preset"].contains c
    then step d op implObs implSum
    else if c == "nest" then (nestOp d (op.drop 1), d)
    else if op == ["clone"] then stepShort d ["clone", "-"] implObs implSum
    else stepShort d op implObs implSum
  | [] => ("bad-op", d)

end Gecs.Driver
