import Gecs.Model.Storage
import Gecs.Model.World
import Gecs.Model.Query
import Gecs.Model.Macro
import Gecs.Model.Check
import Gecs.Driver
