import Gecs.Model.Storage
import Gecs.Model.World
import Gecs.Model.Query
import Gecs.Model.Macro
import Gecs.Model.Check
import Gecs.Model.History
import Gecs.Driver
import Gecs.Lemmas.Inv
