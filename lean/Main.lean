/-
gecs-model: line-protocol driver.
  gecs-model rt      < trace     replay a harness/rt trace against the L1 model
Prints one `MISMATCH …` line per disagreement, `INVFAIL …` when the representation
invariant is false on a state dumped from the implementation, and a final `SUMMARY …`.
-/
import Gecs.Driver
import Gecs.MacDriver

open Gecs Gecs.Driver

structure RAcc where
  d : DS := {}
  seq : String := "-"
  lineNo : Nat := 0
  ops : Nat := 0
  seqs : Nat := 0
  mismatches : Nat := 0
  invfails : Nat := 0
  dumps : Nat := 0
  kinds : List (String × Nat) := []

def bump (l : List (String × Nat)) (k : String) : List (String × Nat) :=
  if l.any (·.1 == k) then l.map (fun (a, n) => if a == k then (a, n + 1) else (a, n)) else l ++ [(k, 1)]

/-- Decode an implementation dump line into a storage (no component data). -/
def parseDump (obs : String) : Option (Storage Val) :=
  let ws := words obs
  let get (k : String) : Option String :=
    (ws.find? (fun s => s.startsWith (k ++ "="))).map (fun s => (s.drop (k.length + 1)).toString)
  match get "v", get "len", get "cap", get "fh", get "slots", get "ents" with
  | some v, some len, some cap, some fh, some slots, some ents =>
    let inner (s : String) : List String :=
      (((s.drop 1).toString.dropEnd 1).toString.splitOn ",").filter (· ≠ "")
    let sl : List Slot := (inner slots).map (fun x => let (i, v) := parsePair "." x; ⟨decodeIdx i, v⟩)
    let en : List Ent := (inner ents).map (fun x => let (k, v) := parsePair "." x; ⟨k / 256, v⟩)
    some ⟨natOf v, natOf len, natOf cap, decodeIdx (natOf fh), sl, en, [], [], []⟩
  | _, _, _, _, _, _ => none

def processLine (acc : RAcc) (line : String) : RAcc × List String :=
  let acc := { acc with lineNo := acc.lineNo + 1 }
  if line.startsWith "cfg " then
    ({ acc with d := headerLine { acc.d with decl := ⟨"Wa", []⟩, zst := [], queries := [], queryErrs := [] } line }, [])
  else if line.startsWith "arch " || line.startsWith "query " then
    let d' := headerLine acc.d line
    let out := if d'.queryErrs.length > acc.d.queryErrs.length then
      [s!"MISMATCH seq=header line={acc.lineNo} op={line} impl=compiles model=bind-error:{d'.queryErrs.getLast?.getD ""}"] else []
    ({ acc with d := d', mismatches := acc.mismatches + out.length }, out)
  else if line.startsWith "seq " then
    ({ acc with seq := (words line).getD 1 "?", seqs := acc.seqs + 1,
                d := { acc.d with worlds := [some ⟨acc.d.ids, (acc.d.ncols.map (fun n => emptyStorage n))⟩], cur := 0, hs := [], leaked := 0, zleaked := 0 } }, [])
  else if line.isEmpty then (acc, [])
  else
    match line.splitOn " => " with
    | [opS, rest] =>
      let (implObs, implSum) : String × String :=
        match rest.splitOn " # " with
        | [o, s] => (o, s)
        | _ => (rest, "")
      let op := words opS
      let (mObs, d') := dispatchOp acc.d op implObs implSum
      let mSum := summary d'
      let kinds := bump acc.kinds (op.getD 0 "?")
      let bad := mObs != implObs || mSum != implSum
      let out1 := if bad then
        [s!"MISMATCH seq={acc.seq} line={acc.lineNo} op={opS} impl={implObs} # {implSum} model={mObs} # {mSum}"] else []
      let isDump := op.getD 0 "" == "dump"
      let out2 : List String :=
        if isDump then
          match parseDump implObs with
          | some s =>
            if !(invCheck d'.cfg s) then [s!"INVFAIL seq={acc.seq} line={acc.lineNo} op={opS} impl={implObs}"] else []
          | none => [s!"INVFAIL seq={acc.seq} line={acc.lineNo} op={opS} unparsable-dump"]
        else []
      ({ acc with d := d', ops := acc.ops + 1, mismatches := acc.mismatches + out1.length,
                  invfails := acc.invfails + out2.length, dumps := acc.dumps + (if isDump then 1 else 0),
                  kinds := kinds }, out1 ++ out2)
    | _ => (acc, [])

partial def loop (h : IO.FS.Stream) (acc : RAcc) : IO RAcc := do
  let line ← h.getLine
  if line.isEmpty then return acc
  let (acc', out) := processLine acc (line.trimAscii.toString)
  for o in out do IO.println o
  loop h acc'

partial def macLoop (h : IO.FS.Stream) : IO Unit := do
  let line ← h.getLine
  if line.isEmpty then return ()
  match Gecs.MacDriver.caseLine line.trimAscii.toString with
  | some out => IO.println out
  | none => pure ()
  macLoop h

def main (args : List String) : IO UInt32 := do
  match args with
  | ["rt"] =>
    let acc ← loop (← IO.getStdin) {}
    let kinds := joinWith "," (acc.kinds.map (fun (k, n) => s!"{k}:{n}"))
    IO.println s!"SUMMARY seqs={acc.seqs} ops={acc.ops} mismatches={acc.mismatches} invfails={acc.invfails} dumps={acc.dumps} model_ub={acc.d.ub} growths={acc.d.growths} growth_diag={acc.d.growthDiag} kinds={kinds}"
    return (if acc.mismatches == 0 && acc.invfails == 0 && acc.d.ub == 0 then 0 else 1)
  | ["mac"] =>
    macLoop (← IO.getStdin)
    return 0
  | _ =>
    IO.eprintln "usage: gecs-model rt < trace | gecs-model mac < cases"
    return 2
