//! Checking global allocator, a crate of its own so that harness/rt itself stays
//! `#![forbid(unsafe_code)]` (a `GlobalAlloc` cannot be written without `unsafe`).  Every block carries a 16-byte header with the
//! size and alignment it was allocated with; a `realloc` / `dealloc` whose layout differs from
//! the block's own — undefined behaviour by the `GlobalAlloc` contract, silent under glibc — is
//! COUNTED, and the call is carried out with the block's real layout so that the process stays
//! well-defined and the op line that caused it can be reported.  gecs allocates its slot array,
//! entity array and component columns by hand from `capacity`; a capacity that no longer matches
//! the arrays (for instance after a panic in the middle of `grow`) shows up here.

use std::alloc::{GlobalAlloc, Layout, System};
use std::sync::atomic::{AtomicU64, Ordering};

const HDR: usize = 16;
static MISMATCHES: AtomicU64 = AtomicU64::new(0);
static LAST: [AtomicU64; 4] = [AtomicU64::new(0), AtomicU64::new(0), AtomicU64::new(0), AtomicU64::new(0)];

pub struct Checking;

fn note(block_size: usize, block_align: usize, l: Layout) {
    MISMATCHES.fetch_add(1, Ordering::SeqCst);
    LAST[0].store(block_size as u64, Ordering::SeqCst);
    LAST[1].store(block_align as u64, Ordering::SeqCst);
    LAST[2].store(l.size() as u64, Ordering::SeqCst);
    LAST[3].store(l.align() as u64, Ordering::SeqCst);
}

unsafe impl GlobalAlloc for Checking {
    unsafe fn alloc(&self, layout: Layout) -> *mut u8 {
        if layout.align() > HDR {
            return System.alloc(layout);
        }
        let base = System.alloc(Layout::from_size_align_unchecked(layout.size() + HDR, HDR));
        if base.is_null() {
            return base;
        }
        (base as *mut usize).write(layout.size());
        (base as *mut usize).add(1).write(layout.align());
        base.add(HDR)
    }

    unsafe fn dealloc(&self, ptr: *mut u8, layout: Layout) {
        if layout.align() > HDR {
            return System.dealloc(ptr, layout);
        }
        let base = ptr.sub(HDR);
        let size = (base as *mut usize).read();
        let align = (base as *mut usize).add(1).read();
        if size != layout.size() || align != layout.align() {
            note(size, align, layout);
        }
        System.dealloc(base, Layout::from_size_align_unchecked(size + HDR, HDR));
    }

    unsafe fn realloc(&self, ptr: *mut u8, layout: Layout, new_size: usize) -> *mut u8 {
        if layout.align() > HDR {
            return System.realloc(ptr, layout, new_size);
        }
        let base = ptr.sub(HDR);
        let size = (base as *mut usize).read();
        let align = (base as *mut usize).add(1).read();
        if size != layout.size() || align != layout.align() {
            note(size, align, layout);
        }
        let nb = System.realloc(base, Layout::from_size_align_unchecked(size + HDR, HDR), new_size + HDR);
        if nb.is_null() {
            return nb;
        }
        (nb as *mut usize).write(new_size);
        (nb as *mut usize).add(1).write(align);
        nb.add(HDR)
    }
}

/// Number of layout mismatches since the last call, with the last one described.
pub fn take() -> Option<String> {
    let n = MISMATCHES.swap(0, Ordering::SeqCst);
    if n == 0 {
        None
    } else {
        Some(format!(
            "{} realloc/dealloc call(s) with a layout that is not the block's own; last: block size={} align={}, called with size={} align={}",
            n,
            LAST[0].load(Ordering::SeqCst),
            LAST[1].load(Ordering::SeqCst),
            LAST[2].load(Ordering::SeqCst),
            LAST[3].load(Ordering::SeqCst)
        ))
    }
}
