//! mac: drives the REAL macro-crate internals (macros/src/{data,parse,generate}, included by
//! path, so edits to /repo recompile) as a library: parse a declaration with the real
//! `ParseEcsWorld`, recover the predicate order from the emitted `macro_rules!` chain,
//! feed the booleans back through the real `ParseCfgDecorated`, build the `DataWorld`, run
//! the real query generators and recover the matched archetypes and bound parameter types
//! from the emitted tokens.
//!
//!   mac run <cases-file>      one output line per case
#![allow(dead_code)]
#![allow(unused_imports)]

#[path = "/repo/macros/src/data.rs"]
mod data;
#[path = "/repo/macros/src/generate/mod.rs"]
mod generate;
#[path = "/repo/macros/src/parse/mod.rs"]
mod parse;

use data::DataWorld;
use generate::FetchMode;
use parse::*;
use proc_macro2::TokenStream;
use std::collections::HashMap;
use std::str::FromStr;

fn cfg_attrs(cfgs: &str) -> String {
    cfgs.split('+').filter(|s| !s.is_empty()).map(|p| format!("#[cfg({})] ", p)).collect()
}

/// Render the neutral declaration format as the token text a user would write.
fn render_world(name: &str, archs: &str) -> String {
    let mut s = format!("ecs_name!({});\n", name);
    for a in archs.split('|').filter(|x| !x.is_empty()) {
        let f: Vec<&str> = a.split(':').collect();
        let (cfgs, id, aname, comps) = (f[0], f[1], f[2], f.get(3).copied().unwrap_or(""));
        s.push_str(&cfg_attrs(cfgs));
        if id != "-" {
            s.push_str(&format!("#[archetype_id({})] ", id));
        }
        let cs: Vec<String> = comps
            .split(',')
            .filter(|x| !x.is_empty())
            .map(|c| {
                let g: Vec<&str> = c.split('/').collect();
                format!("{}{}{}", cfg_attrs(g[0]), if g[1] != "-" { format!("#[component_id({})] ", g[1]) } else { String::new() }, g[2])
            })
            .collect();
        s.push_str(&format!("ecs_archetype!({}, {});\n", aname, cs.join(", ")));
    }
    s
}

fn render_params(params: &str) -> String {
    let mut out = Vec::new();
    for (i, p) in params.split('|').filter(|x| !x.is_empty()).enumerate() {
        let f: Vec<&str> = p.split(':').collect();
        let (cfgs, m, ty) = (f[0], f[1] == "1", f[2]);
        let t: Vec<&str> = ty.split('.').collect();
        let tys = match t[0] {
            "C" => t[1].to_string(),
            "E" => format!("Entity<{}>", t[1]),
            "EA" => "EntityAny".to_string(),
            "D" => format!("EntityDirect<{}>", t[1]),
            "DA" => "EntityDirectAny".to_string(),
            "O" => format!("OneOf<{}>", t[1..].join(", ")),
            "X" => format!("{}<{}>", t[1], t[2]), // reserved keywords: Option / With / Without
            _ => "Bad".to_string(),
        };
        out.push(format!("{}p{}: &{}{}", cfg_attrs(cfgs), i, if m { "mut " } else { "" }, tys));
    }
    out.join(", ")
}

/// Predicate order as emitted in the `#[cfg(p)] macro_rules! __cfg_ecs_<name>_<i>` chain.
fn preds_from_chain(tokens: &TokenStream, name: &str) -> Vec<String> {
    let s = tokens.to_string();
    let mut found: Vec<(usize, String)> = Vec::new();
    // pattern: `# [cfg (PRED)] # [doc (hidden)] macro_rules ! __cfg_ecs_NAME_I`
    let marker = format!("__cfg_ecs_{}_", name);
    let mut pos = 0;
    while let Some(i) = s[pos..].find("# [cfg (") {
        let start = pos + i + "# [cfg (".len();
        // find the matching close of this attribute: the text up to `)] # [doc (hidden)] macro_rules !`
        if let Some(j) = s[start..].find(")] # [doc (hidden)] macro_rules ! ") {
            let pred = s[start..start + j].trim().to_string();
            let after = start + j + ")] # [doc (hidden)] macro_rules ! ".len();
            if s[after..].starts_with(&marker) {
                let idx: String = s[after + marker.len()..].chars().take_while(|c| c.is_ascii_digit()).collect();
                if let Ok(k) = idx.parse::<usize>() {
                    if !pred.starts_with("not (") && !found.iter().any(|(kk, _)| *kk == k) {
                        found.push((k, pred));
                    }
                }
            }
            pos = start;
        } else {
            break;
        }
    }
    found.sort();
    found.into_iter().map(|(_, p)| p).collect()
}

fn err_class(e: &syn::Error) -> String {
    let m = e.to_string();
    if m.contains("is already assigned to") {
        // "attribute id N is already assigned to PREV" — the error is attributed to the later item
        let n: String = m.split_whitespace().nth(2).unwrap_or("?").to_string();
        let prev = m.rsplit(' ').next().unwrap_or("?").to_string();
        format!("duplicate:{}:{}", n, prev)
    } else if m.contains("may not exceed 255") {
        "exceeds".to_string()
    } else if m.contains("OneOf parameter is ambiguous") {
        // "OneOf parameter is ambiguous for ARCH, matching both A and B"
        let w: Vec<&str> = m.split_whitespace().collect();
        let arch = w[5].trim_end_matches(',');
        format!("ambiguous:{}:{}:{}", arch, w[8], w[10])
    } else if m.contains("cfg attributes not currently supported on OneOf") {
        "cfgOnOneOf".to_string()
    } else if m.contains("matched no archetypes") {
        "noMatch".to_string()
    } else if m.contains("mut entity access is forbidden") {
        "parse:mut-entity".to_string()
    } else if m.contains("not yet implemented") {
        "parse:reserved".to_string()
    } else if m.contains("illegal component name") {
        "parse:illegal-name".to_string()
    } else if m.contains("number too large") || m.contains("invalid digit") || m.contains("out of range") {
        "parse:id-range".to_string()
    } else if m.contains("at least one archetype") {
        "parse:no-archetype".to_string()
    } else {
        format!("parse:other:{}", m.replace(' ', "_"))
    }
}

fn rho_of(s: &str) -> HashMap<String, bool> {
    s.split(',').filter(|x| !x.is_empty()).map(|kv| {
        let mut p = kv.split('=');
        (p.next().unwrap().to_string(), p.next().unwrap() == "1")
    }).collect()
}

fn states_text(preds: &[String], rho: &HashMap<String, bool>) -> String {
    // what rustc's evaluation of the chain yields: one boolean per predicate, in chain order
    preds.iter().map(|p| if *rho.get(p).unwrap_or(&false) { "true" } else { "false" }).collect::<Vec<_>>().join(", ")
}

fn fmt_world(w: &DataWorld) -> String {
    let archs: Vec<String> = w.archetypes.iter().map(|a| {
        format!("{}={}[{}]", a.name, a.id, a.components.iter().map(|c| format!("{}={}", c.name, c.id)).collect::<Vec<_>>().join(","))
    }).collect();
    format!("{}:{}", w.name, archs.join(";"))
}

fn build_world(name: &str, archs: &str, rho: &HashMap<String, bool>) -> (Vec<String>, Result<DataWorld, String>) {
    let text = render_world(name, archs);
    let raw = match TokenStream::from_str(&text) {
        Ok(t) => t,
        Err(e) => return (vec![], Err(format!("parse:lex:{}", e))),
    };
    let parsed: ParseEcsWorld = match syn::parse2(raw.clone()) {
        Ok(p) => p,
        Err(e) => return (vec![], Err(err_class(&e))),
    };
    let chain = generate::generate_cfg_checks_outer("world", &parsed, raw.clone());
    let preds = preds_from_chain(&chain, "world");
    let decorated = format!("({}), {{ {} }}", states_text(&preds, rho), text);
    let dec: ParseCfgDecorated<ParseEcsWorld> = match syn::parse_str(&decorated) {
        Ok(d) => d,
        Err(e) => return (preds, Err(err_class(&e))),
    };
    match DataWorld::new(dec) {
        Ok(w) => (preds, Ok(w)),
        Err(e) => (preds, Err(err_class(&e))),
    }
}

/// Recover `Arch[p0:&T;p1:&mut U]` per emitted block from the generator output.
fn matched_from_tokens(tokens: &TokenStream) -> Vec<String> {
    let s = tokens.to_string();
    let mut out: Vec<String> = Vec::new();
    let mut pos = 0;
    while let Some(i) = s[pos..].find("type MatchedArchetype = ") {
        let st = pos + i + "type MatchedArchetype = ".len();
        let end = st + s[st..].find(' ').unwrap_or(0);
        let arch = s[st..end].to_string();
        // closure params: between `let mut closure = |` and the next `|`
        let mut params = String::new();
        if let Some(c) = s[end..].find("let mut closure = |") {
            let ps = end + c + "let mut closure = |".len();
            if let Some(pe) = s[ps..].find('|') {
                params = s[ps..ps + pe].split(',').map(|p| p.replace(' ', "")).filter(|p| !p.is_empty()).collect::<Vec<_>>().join(";");
            }
        }
        let entry = format!("{}[{}]", arch, params);
        // ecs_find emits two arms per archetype (Entity and EntityDirect): keep one
        if out.last() != Some(&entry) {
            out.push(entry);
        }
        pos = end;
    }
    out
}

fn run_query(world: &DataWorld, kind: &str, params: &str, rho: &HashMap<String, bool>) -> (Vec<String>, String) {
    let b64 = world.to_base64();
    let ptext = render_params(params);
    let (text, name) = match kind {
        "find" | "find_borrow" => (format!("\"{}\", world, entity, |{}| {{ }}", b64, ptext), kind),
        _ => (format!("\"{}\", world, |{}| {{ }}", b64, ptext), kind),
    };
    let raw = match TokenStream::from_str(&text) {
        Ok(t) => t,
        Err(e) => return (vec![], format!("err parse:lex:{}", e)),
    };
    macro_rules! go {
        ($P:ty, $gen:expr) => {{
            let parsed: $P = match syn::parse2(raw.clone()) {
                Ok(p) => p,
                Err(e) => return (vec![], format!("err {}", err_class(&e))),
            };
            let chain = generate::generate_cfg_checks_inner(name, &parsed, raw.clone());
            let preds = preds_from_chain(&chain, name);
            let decorated = format!("({}), {{ {} }}", states_text(&preds, rho), text);
            let dec: ParseCfgDecorated<$P> = match syn::parse_str(&decorated) {
                Ok(d) => d,
                Err(e) => return (preds, format!("err {}", err_class(&e))),
            };
            match $gen(dec) {
                Ok(tokens) => {
                    let ts = tokens.to_string();
                    let mut flag = String::new();
                    for bad in ["unsafe", "no_mangle", "export_name", "link_section", "unsafe_code", "transmute"] {
                        if ts.split(|c: char| !(c.is_alphanumeric() || c == '_')).any(|t| t == bad) {
                            flag = format!("UNSAFE:{}", bad);
                        }
                    }
                    (preds, format!("ok {}{}", matched_from_tokens(&tokens).join(","), flag))
                }
                Err(e) => (preds, format!("err {}", err_class(&e))),
            }
        }};
    }
    match kind {
        "find" => go!(ParseQueryFind, |d| generate::generate_query_find(FetchMode::Mut, d)),
        "find_borrow" => go!(ParseQueryFind, |d| generate::generate_query_find(FetchMode::Borrow, d)),
        "iter" => go!(ParseQueryIter, |d| generate::generate_query_iter(FetchMode::Mut, d)),
        "iter_borrow" => go!(ParseQueryIter, |d| generate::generate_query_iter(FetchMode::Borrow, d)),
        _ => go!(ParseQueryIterDestroy, |d| generate::generate_query_iter_destroy(FetchMode::Mut, d)),
    }
}

fn main() {
    std::panic::set_hook(Box::new(|_| {}));
    let args: Vec<String> = std::env::args().collect();
    if args.get(1).map(|s| s.as_str()) != Some("run") {
        eprintln!("usage: mac run <cases>");
        std::process::exit(2);
    }
    let text = std::fs::read_to_string(&args[2]).expect("cases file");
    for line in text.lines() {
        let t: Vec<&str> = line.split_whitespace().collect();
        if t.first() != Some(&"case") {
            continue;
        }
        // case <id> world <Name> <archs> rho <assign> [query <kind> <params>]
        let id = t[1];
        let name = t[3];
        let archs = t[4];
        let rho = rho_of(t.get(6).copied().unwrap_or("").trim_matches('-'));
        let r = std::panic::catch_unwind(|| {
            let (preds, w) = build_world(name, archs, &rho);
            let mut out = format!("case {} wpreds={} ", id, preds.join(","));
            match &w {
                Ok(w) => {
                    out.push_str(&format!("world=ok:{}", fmt_world(w)));
                    // C18(a): everything the world generator emits is scanned for forbidden tokens
                    let toks = generate::generate_world(w, archs).to_string();
                    for bad in ["unsafe", "no_mangle", "export_name", "link_section", "unsafe_code", "transmute"] {
                        if toks.split(|c: char| !(c.is_alphanumeric() || c == '_')).any(|t| t == bad) {
                            out.push_str(&format!("UNSAFE:{}", bad));
                        }
                    }
                }
                Err(e) => out.push_str(&format!("world=err:{}", e)),
            }
            if let (Ok(w), Some(&"query")) = (&w, t.get(7)) {
                let params = t.get(9).copied().unwrap_or("");
                let kinds: Vec<&str> = if t[8] == "all" { vec!["find", "find_borrow", "iter", "iter_borrow", "iter_destroy"] } else { vec![t[8]] };
                let mut results: Vec<(Vec<String>, String)> = Vec::new();
                for k in &kinds {
                    results.push(run_query(w, k, params, &rho));
                }
                let first = results[0].clone();
                let same = results.iter().all(|r| *r == first);
                out.push_str(&format!(" qpreds={} query={}{}", first.0.join(","), first.1, if same { "" } else { " GENERATORS-DISAGREE" }));
                if !same {
                    for (k, r) in kinds.iter().zip(results.iter()) {
                        out.push_str(&format!(" [{}: {}]", k, r.1));
                    }
                }
            }
            out
        });
        match r {
            Ok(s) => println!("{}", s),
            Err(_) => println!("case {} PANIC", id),
        }
    }
}
