#![forbid(unsafe_code)]
//! rt: interpreter of operation lines over the REAL gecs API (in-process), plus the
//! sequence generator.  Output is a trace `op => observation`, canonical (no addresses,
//! no hash order), deterministic in the seed.
//!
//!   rt gen <seed> <nseq> <maxops> [profile]   generate + execute sequences
//!   rt run <file>                             execute the op lines of a trace / ops file
//!   rt header                                 print only the header (declaration + query menu)

#[cfg(all(feature = "events", debug_assertions))]
mod big256;
mod boundary;
mod comps;
mod gen;
mod nest;
mod queries;
mod shapes;
mod world;

// every allocation of the process (gecs' hand-made arrays included) goes through the checking
// allocator; Miri checks layouts itself
#[cfg(not(miri))]
#[global_allocator]
static ALLOC: alloc_check::Checking = alloc_check::Checking;

use comps::*;
use gecs::prelude::*;
use queries::*;
use std::collections::HashMap;
use std::panic::{catch_unwind, AssertUnwindSafe};
use world::*;

#[derive(Clone, Copy)]
pub enum H {
    Ent { a: usize, any: EntityAny },
    Dir { a: usize, any: EntityDirectAny },
}

pub struct St {
    pub worlds: Vec<Option<Wa>>,
    pub cur: usize,
    pub hs: HashMap<String, H>,
    pub wb: other::Wb,
    /// implementation-side information lines printed after the op line (ignored by the model)
    pub info: Vec<String>,
}

fn classify(msg: &str) -> &'static str {
    if msg.contains("slot version overflow") {
        "SlotOverflow"
    } else if msg.contains("arch version overflow") {
        "ArchOverflow"
    } else if msg.contains("capacity overflow") {
        "CapacityOverflow"
    } else if msg.contains("capacity may not exceed") {
        "CapacityExceeds"
    } else if msg.contains("invalid entity type") {
        "InvalidEntityType"
    } else if msg.contains("invalid entity conversion") {
        "InvalidConversion"
    } else if msg.contains("already mutably borrowed") {
        "BorrowError"
    } else if msg.contains("already borrowed") {
        "BorrowMutError"
    } else if msg.contains("injected") {
        "Injected"
    } else if msg.contains("assertion") || msg.contains("invalid entity handle") {
        "DebugAssert"
    } else if msg.contains("index out of bounds") {
        "IndexOob"
    } else if msg.contains("harness:") {
        "HARNESS"
    } else {
        "Other"
    }
}

thread_local! {
    static GUARD_DEPTH: std::cell::Cell<usize> = std::cell::Cell::new(0);
}

pub fn guard<R>(f: impl FnOnce() -> R) -> Result<R, &'static str> {
    GUARD_DEPTH.with(|d| d.set(d.get() + 1));
    let r = catch_unwind(AssertUnwindSafe(f));
    GUARD_DEPTH.with(|d| d.set(d.get() - 1));
    match r {
        Ok(r) => Ok(r),
        Err(p) => {
            let msg = if let Some(s) = p.downcast_ref::<&str>() {
                s.to_string()
            } else if let Some(s) = p.downcast_ref::<String>() {
                s.clone()
            } else {
                "unknown".to_string()
            };
            let c = classify(&msg);
            if c == "Other" || c == "HARNESS" {
                eprintln!("unclassified panic: {}", msg);
            }
            Err(c)
        }
    }
}

fn fmt_row(r: &Row) -> String {
    r.iter().map(|(t, v)| format!("{}.{}", t, v)).collect::<Vec<_>>().join(",")
}

fn parse_row(toks: &[&str]) -> Row {
    toks.iter()
        .map(|t| {
            let mut p = t.split(':');
            (p.next().unwrap().parse().unwrap(), p.next().unwrap().parse().unwrap())
        })
        .collect()
}

/// Move everything the registry logged so far into the "inside gecs" buffer.  Called right
/// after a gecs call returns (or after it panicked); drops that happen later in the same op
/// are the harness dropping values it was handed back, and are not reported.
pub fn seal() {
    REG.with(|r| {
        let mut r = r.borrow_mut();
        let d = std::mem::take(&mut r.drops);
        r.internal.extend(d);
        r.zinternal += std::mem::take(&mut r.zdrops);
    })
}

fn reg_clear() {
    REG.with(|r| {
        let mut r = r.borrow_mut();
        r.drops.clear();
        r.zdrops = 0;
        r.internal.clear();
        r.zinternal = 0;
        r.clones.clear();
        r.zclones = 0;
    })
}

fn take_clones() -> (Vec<(u64, u64)>, u64) {
    REG.with(|r| {
        let mut r = r.borrow_mut();
        (std::mem::take(&mut r.clones), std::mem::take(&mut r.zclones))
    })
}

/// The sealed (inside-gecs) drops of this op, canonically sorted.
fn reg_suffix() -> String {
    let (mut d, z) = REG.with(|r| {
        let mut r = r.borrow_mut();
        (std::mem::take(&mut r.internal), std::mem::take(&mut r.zinternal))
    });
    d.sort();
    let mut s = String::new();
    if !d.is_empty() {
        s.push_str(&format!(" drops={}", d.iter().map(|x| x.to_string()).collect::<Vec<_>>().join(",")));
    }
    if z > 0 {
        s.push_str(&format!(" zdrops={}", z));
    }
    s
}

fn arch_version<A: ArchX>(a: &A) -> u64 {
    // ArchetypeVersion's accessor is crate-private: parse the Debug form.
    let s = format!("{:?}", a.version());
    s.chars().filter(|c| c.is_ascii_digit()).collect::<String>().parse().unwrap()
}

fn summary(w: &Wa) -> String {
    let mut parts = Vec::new();
    for a in 0..NARCH {
        let p = dispatch!(a, A => {
            let x = <A as ArchX>::of(w);
            let ok = x.is_empty() == (x.len() == 0) && x.entities().len() == x.len();
            format!("{}/{}/{}{}", x.len(), x.capacity(), arch_version(x), if ok { "" } else { "!" })
        });
        parts.push(p);
    }
    parts.join(" ")
}

fn opt<T>(r: Result<Option<T>, &'static str>, f: impl FnOnce(T) -> String) -> String {
    match r {
        Ok(Some(x)) => f(x),
        Ok(None) => "-".to_string(),
        Err(c) => format!("!{}", c),
    }
}

fn typed_ent<A: ArchX>(any: EntityAny) -> Entity<A> {
    Entity::<A>::from_any_unchecked(any)
}
fn typed_dir<A: ArchX>(any: EntityDirectAny) -> EntityDirect<A> {
    EntityDirect::<A>::from_any_unchecked(any)
}

fn arch_of_id(id: u8) -> Option<usize> {
    for a in 0..NARCH {
        let i = dispatch!(a, A => <A as Archetype>::ARCHETYPE_ID);
        if i == id {
            return Some(a);
        }
    }
    None
}

macro_rules! probe_key {
    // $k: key expression (Copy), typed flag decides which world-level paths exist
    ($out:ident, $w:ident, $A:ident, $pre:expr, $k:expr, typed) => {{
        let k = $k;
        $out.push(format!("{}c={}", $pre, match guard(|| <$A as ArchX>::of($w).contains(k)) { Ok(b) => (b as u8).to_string(), Err(c) => format!("!{}", c) }));
        $out.push(format!("{}r={}", $pre, opt(guard(|| <$A as ArchX>::of($w).resolve(k)), |i| i.to_string())));
        $out.push(format!("{}d={}", $pre, opt(guard(|| <$A as ArchX>::of($w).to_direct(k)), |d| fmt_dir(d.into()))));
        $out.push(format!("{}v={}", $pre, opt(guard(|| <$A as ArchX>::of_mut($w).view(k).map(|v| (fmt_any((*v.entity).into()), v.index(), <$A as ArchX>::view_row(&v)))), |(e, i, r)| format!("{}@{}:{}", e, i, fmt_row(&r)))));
        $out.push(format!("{}b={}", $pre, opt(guard(|| <$A as ArchX>::of($w).borrow(k).map(|b| (fmt_any((*b.entity()).into()), b.index(), <$A as ArchX>::borrow_row(&b)))), |(e, i, r)| format!("{}@{}:{}", e, i, fmt_row(&r)))));
        $out.push(format!("{}wc={}", $pre, match guard(|| $w.contains(k)) { Ok(b) => (b as u8).to_string(), Err(c) => format!("!{}", c) }));
        $out.push(format!("{}wd={}", $pre, opt(guard(|| $w.to_direct(k)), |d| fmt_dir(d.into()))));
        $out.push(format!("{}wv={}", $pre, opt(guard(|| $w.view::<$A, _>(k).map(|v| (fmt_any((*v.entity).into()), v.index(), <$A as ArchX>::view_row(&v)))), |(e, i, r)| format!("{}@{}:{}", e, i, fmt_row(&r)))));
        $out.push(format!("{}wb={}", $pre, opt(guard(|| $w.borrow::<$A, _>(k).map(|b| (fmt_any((*b.entity()).into()), b.index(), <$A as ArchX>::borrow_row(&b)))), |(e, i, r)| format!("{}@{}:{}", e, i, fmt_row(&r)))));
    }};
    ($out:ident, $w:ident, $A:ident, $pre:expr, $k:expr, dynamic) => {{
        let k = $k;
        $out.push(format!("{}c={}", $pre, match guard(|| <$A as ArchX>::of($w).contains(k)) { Ok(b) => (b as u8).to_string(), Err(c) => format!("!{}", c) }));
        $out.push(format!("{}r={}", $pre, opt(guard(|| <$A as ArchX>::of($w).resolve(k)), |i| i.to_string())));
        $out.push(format!("{}d={}", $pre, opt(guard(|| <$A as ArchX>::of($w).to_direct(k)), |d| fmt_dir(d))));
        $out.push(format!("{}v={}", $pre, opt(guard(|| <$A as ArchX>::of_mut($w).view(k).map(|v| (fmt_any((*v.entity).into()), v.index(), <$A as ArchX>::view_row(&v)))), |(e, i, r)| format!("{}@{}:{}", e, i, fmt_row(&r)))));
        $out.push(format!("{}b={}", $pre, opt(guard(|| <$A as ArchX>::of($w).borrow(k).map(|b| (fmt_any((*b.entity()).into()), b.index(), <$A as ArchX>::borrow_row(&b)))), |(e, i, r)| format!("{}@{}:{}", e, i, fmt_row(&r)))));
        $out.push(format!("{}wc={}", $pre, match guard(|| $w.contains(k)) { Ok(b) => (b as u8).to_string(), Err(c) => format!("!{}", c) }));
        $out.push(format!("{}wd={}", $pre, opt(guard(|| $w.to_direct(k)), |d| fmt_dir(d))));
    }};
}

/// every archetype-level dynamic path of ANOTHER archetype than the key's own
macro_rules! probe_other {
    ($out:ident, $w:ident, $B:ident, $k:expr) => {{
        let k = $k;
        $out.push(format!("oc={}", match guard(|| <$B as ArchX>::of($w).contains(k)) { Ok(b) => (b as u8).to_string(), Err(c) => format!("!{}", c) }));
        $out.push(format!("or={}", opt(guard(|| <$B as ArchX>::of($w).resolve(k)), |i| i.to_string())));
        $out.push(format!("od={}", opt(guard(|| <$B as ArchX>::of($w).to_direct(k)), |d| fmt_dir(d))));
        $out.push(format!("ov={}", opt(guard(|| <$B as ArchX>::of_mut($w).view(k).map(|v| (fmt_any((*v.entity).into()), v.index(), <$B as ArchX>::view_row(&v)))), |(e, i, r)| format!("{}@{}:{}", e, i, fmt_row(&r)))));
        $out.push(format!("ob={}", opt(guard(|| <$B as ArchX>::of($w).borrow(k).map(|b| (fmt_any((*b.entity()).into()), b.index(), <$B as ArchX>::borrow_row(&b)))), |(e, i, r)| format!("{}@{}:{}", e, i, fmt_row(&r)))));
    }};
}

impl St {
    pub fn new() -> St {
        St { worlds: vec![Some(Wa::new())], cur: 0, hs: HashMap::new(), wb: other::Wb::new(), info: Vec::new() }
    }

    fn w(&mut self) -> Option<&mut Wa> {
        self.worlds.get_mut(self.cur).and_then(|w| w.as_mut())
    }

    /// Execute one op line; returns the observation (without the state summary).
    pub fn exec(&mut self, line: &str) -> String {
        let t: Vec<&str> = line.split_whitespace().collect();
        if t.is_empty() {
            return "bad-op".into();
        }
        reg_clear();
        let obs = self.exec_inner(&t);
        let errs: Vec<String> = REG.with(|r| std::mem::take(&mut r.borrow_mut().errors));
        let mut obs = obs;
        if !errs.is_empty() {
            obs.push_str(&format!(" REGISTRY-ERROR[{}]", errs.join("; ")));
        }
        if let Some(m) = alloc_check::take() {
            obs.push_str(&format!(" ALLOC-ERROR[{}]", m));
        }
        let mut out = match self.w() {
            Some(w) => format!("{} # {}", obs, summary(w)),
            None => format!("{} # dropped", obs),
        };
        for l in self.info.drain(..) {
            out.push('\n');
            out.push_str(&l);
        }
        out
    }

    fn get_h(&self, name: &str) -> Option<H> {
        self.hs.get(name).copied()
    }

    fn exec_inner(&mut self, t: &[&str]) -> String {
        let cur = self.cur;
        match t[0] {
            "new" => {
                let mut caps: Vec<usize> = t[1..].iter().map(|x| x.parse().unwrap()).collect();
                caps.resize(NARCH.max(caps.len()), 0); // an ops file generated under another arity
                let r = guard(|| {
                    Wa::with_capacity(WaCapacity {
                        aa: caps[0],
                        ab: caps[1],
                        ac: caps[2],
                        ad: caps[3],
                        ae: caps[4],
                        #[cfg(feature = "32_components")]
                        af: caps[5],
                    })
                });
                match r {
                    Ok(w) => {
                        self.worlds = vec![Some(w)];
                        self.cur = 0;
                        self.hs.clear();
                        "ok".into()
                    }
                    Err(c) => format!("panic {}", c),
                }
            }
            "create" | "createw" => {
                // create <w|a> <arch> <var> t:v...
                let world_level = t[1] == "w";
                let a: usize = t[2].parse().unwrap();
                let var = t[3].to_string();
                let row = parse_row(&t[4..]);
                let within = t[0] == "createw";
                let Some(w) = self.w() else { return "no-world".into() };
                let r: Result<Result<EntityAny, Row>, &'static str> = dispatch!(a, A => {
                    guard(|| {
                        let comps = <A as ArchX>::make(&row);
                        if within {
                            let r = if world_level { w.create_within_capacity::<A>(comps) } else { <A as ArchX>::of_mut(w).create_within_capacity(comps) };
                            seal();
                            match r {
                                Ok(e) => Ok(e.into_any()),
                                Err(c) => Err(<A as ArchX>::comps_row(c)),
                            }
                        } else {
                            let e = if world_level { w.create::<A>(comps) } else { <A as ArchX>::of_mut(w).create(comps) };
                            seal();
                            Ok(e.into_any())
                        }
                    })
                });
                match r {
                    Ok(Ok(e)) => {
                        let s = format!("e {}{}", fmt_any(e), reg_suffix());
                        self.hs.insert(var, H::Ent { a, any: e });
                        s
                    }
                    // the returned components were dropped by the harness after the seal: not gecs drops
                    Ok(Err(row)) => format!("full {}{}", fmt_row(&row), reg_suffix()),
                    Err(c) => { seal(); format!("panic {}{}", c, reg_suffix()) }
                }
            }
            "destroy" => {
                // destroy <w|a> <t|y> <var> [@arch]
                let world_level = t[1] == "w";
                let typed = t[2] == "t";
                let Some(h) = self.get_h(t[3]) else { return "undef".into() };
                let mut at: Option<usize> = None;
                let mut fault: Option<u64> = None;
                for x in &t[4..] {
                    if let Some(v) = x.strip_prefix('@') {
                        at = Some(v.parse().unwrap());
                    } else if let Some(v) = x.strip_prefix("fault=") {
                        fault = Some(v.parse().unwrap());
                    }
                }
                let Some(w) = self.w() else { return "no-world".into() };
                REG.with(|r| r.borrow_mut().drop_fault = fault);
                // Result: Ok(Some(Some(row))) = components returned; Ok(Some(None)) = destroyed, dropped inside
                let r: Result<Option<Option<Row>>, &'static str> = match h {
                    H::Ent { a, any } => {
                        let b = at.unwrap_or(a);
                        dispatch!(b, A => guard(|| {
                            if typed {
                                let k = typed_ent::<A>(any);
                                let r = if world_level { w.destroy(k) } else { <A as ArchX>::of_mut(w).destroy(k) };
                                seal();
                                r.map(|c| Some(<A as ArchX>::comps_row(c)))
                            } else if world_level {
                                let r = w.destroy(any).map(|_| None);
                                seal();
                                r
                            } else {
                                let r = <A as ArchX>::of_mut(w).destroy(any);
                                seal();
                                r.map(|c| Some(<A as ArchX>::comps_row(c)))
                            }
                        }))
                    }
                    H::Dir { a, any } => {
                        let b = at.unwrap_or(a);
                        dispatch!(b, A => guard(|| {
                            if typed {
                                let k = typed_dir::<A>(any);
                                let r = if world_level { w.destroy(k) } else { <A as ArchX>::of_mut(w).destroy(k) };
                                seal();
                                r.map(|c| Some(<A as ArchX>::comps_row(c)))
                            } else if world_level {
                                let r = w.destroy(any).map(|_| None);
                                seal();
                                r
                            } else {
                                let r = <A as ArchX>::of_mut(w).destroy(any);
                                seal();
                                r.map(|c| Some(<A as ArchX>::comps_row(c)))
                            }
                        }))
                    }
                };
                REG.with(|r| r.borrow_mut().drop_fault = None);
                match r {
                    // returned components were read and then dropped by the harness (after the seal)
                    Ok(Some(Some(row))) => format!("some {}{}", fmt_row(&row), reg_suffix()),
                    Ok(Some(None)) => format!("some{}", reg_suffix()),
                    Ok(None) => format!("none{}", reg_suffix()),
                    Err(c) => { seal(); format!("panic {}{}", c, reg_suffix()) }
                }
            }
            "todirect" => {
                // todirect <w|a> <t|y> <var> <newvar> [@arch]
                let world_level = t[1] == "w";
                let typed = t[2] == "t";
                let Some(h) = self.get_h(t[3]) else { return "undef".into() };
                let var = t[4].to_string();
                let at: Option<usize> = t.get(5).map(|x| x[1..].parse().unwrap());
                let Some(w) = self.w() else { return "no-world".into() };
                let r: Result<Option<(usize, EntityDirectAny)>, &'static str> = match h {
                    H::Ent { a, any } => {
                        let b = at.unwrap_or(a);
                        dispatch!(b, A => guard(|| {
                            if typed {
                                let k = typed_ent::<A>(any);
                                let r = if world_level { w.to_direct(k) } else { <A as ArchX>::of(w).to_direct(k) };
                                r.map(|d| (b, d.into_any()))
                            } else if world_level {
                                w.to_direct(any).map(|d| (arch_of_id(d.archetype_id()).unwrap_or(b), d))
                            } else {
                                <A as ArchX>::of(w).to_direct(any).map(|d| (b, d))
                            }
                        }))
                    }
                    H::Dir { a, any } => {
                        let b = at.unwrap_or(a);
                        dispatch!(b, A => guard(|| {
                            if typed {
                                let k = typed_dir::<A>(any);
                                let r = if world_level { w.to_direct(k) } else { <A as ArchX>::of(w).to_direct(k) };
                                r.map(|d| (b, d.into_any()))
                            } else if world_level {
                                w.to_direct(any).map(|d| (arch_of_id(d.archetype_id()).unwrap_or(b), d))
                            } else {
                                <A as ArchX>::of(w).to_direct(any).map(|d| (b, d))
                            }
                        }))
                    }
                };
                match r {
                    Ok(Some((a, d))) => {
                        self.hs.insert(var, H::Dir { a, any: d });
                        format!("d {}", fmt_dir(d))
                    }
                    Ok(None) => "none".into(),
                    Err(c) => format!("panic {}", c),
                }
            }
            "probe" => {
                let Some(h) = self.get_h(t[1]) else { return "undef".into() };
                let Some(w) = self.w() else { return "no-world".into() };
                let mut out: Vec<String> = Vec::new();
                match h {
                    H::Ent { a, any } => {
                        let other = (a + 1) % NARCH;
                        dispatch!(a, A => {
                            match guard(|| typed_ent::<A>(any)) {
                                Ok(k) => probe_key!(out, w, A, "t", k, typed),
                                Err(c) => out.push(format!("t!{}", c)),
                            }
                            probe_key!(out, w, A, "y", any, dynamic);
                        });
                        dispatch!(other, B => probe_other!(out, w, B, any));
                    }
                    H::Dir { a, any } => {
                        let other = (a + 1) % NARCH;
                        dispatch!(a, A => {
                            match guard(|| typed_dir::<A>(any)) {
                                Ok(k) => probe_key!(out, w, A, "t", k, typed),
                                Err(c) => out.push(format!("t!{}", c)),
                            }
                            probe_key!(out, w, A, "y", any, dynamic);
                        });
                        dispatch!(other, B => probe_other!(out, w, B, any));
                    }
                }
                out.join(" ")
            }
            "write" => {
                // write <path> <var> <col> <val>   path: v b V B s S i A
                let path = t[1];
                let Some(h) = self.get_h(t[2]) else { return "undef".into() };
                let col: usize = t[3].parse().unwrap();
                let val: u64 = t[4].parse().unwrap();
                let Some(w) = self.w() else { return "no-world".into() };
                macro_rules! do_write {
                    ($A:ident, $k:expr) => {{
                        guard(|| { let k = $k; match path {
                            "v" => <$A as ArchX>::of_mut(w).view(k).map(|mut v| <$A as ArchX>::view_set(&mut v, col, val)).is_some(),
                            "b" => <$A as ArchX>::of(w).borrow(k).map(|b| <$A as ArchX>::borrow_set(&b, col, val)).is_some(),
                            "V" => w.view::<$A, _>(k).map(|mut v| <$A as ArchX>::view_set(&mut v, col, val)).is_some(),
                            "B" => w.borrow::<$A, _>(k).map(|b| <$A as ArchX>::borrow_set(&b, col, val)).is_some(),
                            "s" => match <$A as ArchX>::of(w).resolve(k) { Some(i) => <$A as ArchX>::set_get_slice_mut(<$A as ArchX>::of_mut(w), i, col, val), None => false },
                            "S" => match <$A as ArchX>::of(w).resolve(k) { Some(i) => <$A as ArchX>::set_borrow_slice_mut(<$A as ArchX>::of(w), i, col, val), None => false },
                            "i" => match <$A as ArchX>::of(w).resolve(k) { Some(i) => { <$A as ArchX>::rows_iter_mut(<$A as ArchX>::of_mut(w), Some((i, col, val))); true } None => false },
                            "A" => match <$A as ArchX>::of(w).resolve(k) { Some(i) => { <$A as ArchX>::rows_all_slices(<$A as ArchX>::of_mut(w), Some((i, col, val))); true } None => false },
                            _ => panic!("harness: bad write path"),
                        }})
                    }};
                }
                let r = match h {
                    H::Ent { a, any } => dispatch!(a, A => do_write!(A, typed_ent::<A>(any))),
                    H::Dir { a, any } => dispatch!(a, A => do_write!(A, typed_dir::<A>(any))),
                };
                match r {
                    Ok(true) => "ok".into(),
                    Ok(false) => "none".into(),
                    Err(c) => format!("panic {}", c),
                }
            }
            "rows" => {
                let a: usize = t[1].parse().unwrap();
                let Some(w) = self.w() else { return "no-world".into() };
                dispatch!(a, A => {
                    let x = <A as ArchX>::of_mut(w);
                    let ents: Vec<EntityAny> = x.entities().iter().map(|e| (*e).into_any()).collect();
                    let ncols = <A as ArchX>::comps().len();
                    let cols: Vec<Vec<(u64, u64)>> = (0..ncols).map(|c| <A as ArchX>::col_get_slice(x, c)).collect();
                    let mut rows: Vec<(EntityAny, Row)> = Vec::new();
                    let mut diff: Vec<&str> = Vec::new();
                    for (i, e) in ents.iter().enumerate() {
                        let mut r = Row::new();
                        for c in 0..ncols {
                            match cols[c].get(i) { Some(x) => r.push(*x), None => { diff.push("get_slice-len"); } }
                        }
                        rows.push((*e, r));
                    }
                    for c in 0..ncols {
                        if cols[c].len() != ents.len() { diff.push("get_slice-len"); }
                        if <A as ArchX>::col_borrow_slice(x, c) != cols[c] { diff.push("borrow_slice"); }
                        let (gm, bm) = <A as ArchX>::col_mut_lens(x, c);
                        if gm != ents.len() { diff.push("get_slice_mut-len"); }
                        if bm != ents.len() { diff.push("borrow_slice_mut-len"); }
                    }
                    let same = |o: &Vec<(EntityAny, Row)>| o.len() == rows.len() && o.iter().zip(rows.iter()).all(|(p, q)| p.0 == q.0 && p.1 == q.1);
                    if !same(&<A as ArchX>::rows_iter(x)) { diff.push("iter"); }
                    if !same(&<A as ArchX>::rows_iter_mut(x, None)) { diff.push("iter_mut"); }
                    if !same(&<A as ArchX>::rows_all_slices(x, None)) { diff.push("get_all_slices_mut"); }
                    if x.len() != rows.len() { diff.push("len"); }
                    for b in <A as ArchX>::iter_laws(x) { diff.push(b); }
                    diff.dedup();
                    format!("rows {} paths={}", rows.iter().map(|(e, r)| format!("{}:{}", fmt_any(*e), fmt_row(r))).collect::<Vec<_>>().join("|"),
                        if diff.is_empty() { "ok".to_string() } else { format!("DIFF:{}", diff.join("+")) })
                })
            }
            "iter" | "iterb" | "iterd" | "iterds" => {
                // iter <q> [brk=k] [pan=k] [add=n] [dec=cdbx..] [save=var]
                let qi: usize = t[1][1..].parse().unwrap();
                let q = &MENU[qi];
                let mut cx = Ctx::default();
                let mut save: Option<String> = None;
                for kv in &t[2..] {
                    let mut p = kv.splitn(2, '=');
                    let (k, v) = (p.next().unwrap(), p.next().unwrap_or(""));
                    match k {
                        "brk" => cx.brk = Some(v.parse().unwrap()),
                        "pan" => cx.pan = Some(v.parse().unwrap()),
                        "add" => cx.add = v.parse().unwrap(),
                        "dec" => cx.decisions = v.as_bytes().to_vec(),
                        "save" => save = Some(v.to_string()),
                        "fault" => REG.with(|r| r.borrow_mut().drop_fault = Some(v.parse().unwrap())),
                        _ => return "bad-op".into(),
                    }
                }
                let Some(w) = self.w() else { return "no-world".into() };
                let r = guard(|| match t[0] {
                    "iter" => (q.iter)(w, &mut cx),
                    "iterb" => (q.iterb)(w, &mut cx),
                    "iterds" => (q.iterds)(w, &mut cx),
                    _ => (q.iterd)(w, &mut cx),
                });
                REG.with(|r| r.borrow_mut().drop_fault = None);
                let mut s = format!("n={} [{}] end={}", cx.calls.len(), cx.calls.join("|"), match r { Ok(()) => "ok".to_string(), Err(c) => format!("panic:{}", c) });
                if r.is_ok() && !cx.after {
                    // the statement after the query macro never ran: the query left the enclosing function
                    s.push_str(" AFTER-SKIPPED");
                }
                if let Some(var) = save {
                    if let Some(d) = cx.last_dir {
                        let a = arch_of_id(d.archetype_id()).unwrap();
                        self.hs.insert(var, H::Dir { a, any: d });
                        s.push_str(" saved=1");
                    } else {
                        s.push_str(" saved=0");
                    }
                }
                seal();
                s.push_str(&reg_suffix());
                s
            }
            "find" | "findb" => {
                // find <q> <t|y> <var> [add=n] [pan=0] [save=var]
                let qi: usize = t[1][1..].parse().unwrap();
                let q = &MENU[qi];
                let typed = t[2] == "t";
                let Some(h) = self.get_h(t[3]) else { return "undef".into() };
                let mut cx = Ctx::default();
                let mut save: Option<String> = None;
                for kv in &t[4..] {
                    let mut p = kv.splitn(2, '=');
                    let (k, v) = (p.next().unwrap(), p.next().unwrap_or(""));
                    match k {
                        "pan" => cx.pan = Some(v.parse().unwrap()),
                        "add" => cx.add = v.parse().unwrap(),
                        "save" => save = Some(v.to_string()),
                        _ => return "bad-op".into(),
                    }
                }
                let borrow = t[0] == "findb";
                let Some(w) = self.w() else { return "no-world".into() };
                let r = guard(|| match (h, typed, borrow) {
                    (H::Ent { a, any }, true, false) => (q.find_ent)(w, a, any, &mut cx),
                    (H::Ent { any, .. }, false, false) => (q.find_any)(w, any, &mut cx),
                    (H::Dir { a, any }, true, false) => (q.find_dir)(w, a, any, &mut cx),
                    (H::Dir { any, .. }, false, false) => (q.find_dirany)(w, any, &mut cx),
                    (H::Ent { a, any }, true, true) => (q.findb_ent)(w, a, any, &mut cx),
                    (H::Ent { any, .. }, false, true) => (q.findb_any)(w, any, &mut cx),
                    (H::Dir { a, any }, true, true) => (q.findb_dir)(w, a, any, &mut cx),
                    (H::Dir { any, .. }, false, true) => (q.findb_dirany)(w, any, &mut cx),
                });
                let mut s = match r {
                    Ok(Some(())) => format!("some [{}]", cx.calls.join("|")),
                    Ok(None) => format!("none [{}]", cx.calls.join("|")),
                    Err(c) => format!("panic:{} [{}]", c, cx.calls.join("|")),
                };
                if let Some(var) = save {
                    if let Some(d) = cx.last_dir {
                        let a = arch_of_id(d.archetype_id()).unwrap();
                        self.hs.insert(var, H::Dir { a, any: d });
                        s.push_str(" saved=1");
                    } else {
                        s.push_str(" saved=0");
                    }
                }
                s
            }
            "clone" => {
                // clone [fault=k]
                let mut fault: Option<u64> = None;
                for kv in &t[1..] {
                    if let Some(v) = kv.strip_prefix("fault=") {
                        fault = Some(v.parse().unwrap());
                    }
                }
                let Some(w) = self.w() else { return "no-world".into() };
                REG.with(|r| r.borrow_mut().clone_fault = fault);
                let r = guard(|| w.clone());
                REG.with(|r| r.borrow_mut().clone_fault = None);
                seal();
                let (c, zc) = take_clones();
                let map = c.iter().map(|(s, t)| format!("{}>{}", s, t)).collect::<Vec<_>>().join(",");
                let extra = reg_suffix();
                match r {
                    Ok(nw) => {
                        self.worlds.push(Some(nw));
                        format!("w{} map={} zclones={}{}", self.worlds.len() - 1, map, zc, extra)
                    }
                    Err(cl) => format!("panic {} map={} zclones={}{}", cl, map, zc, extra),
                }
            }
            "switch" => {
                let i: usize = t[1].parse().unwrap();
                if i < self.worlds.len() && self.worlds[i].is_some() {
                    self.cur = i;
                    "ok".into()
                } else {
                    "no-world".into()
                }
            }
            "drop" => {
                // drop <i> [fault=k]
                let i: usize = t[1].parse().unwrap();
                let mut fault: Option<u64> = None;
                for kv in &t[2..] {
                    if let Some(v) = kv.strip_prefix("fault=") {
                        fault = Some(v.parse().unwrap());
                    }
                }
                if i >= self.worlds.len() || self.worlds[i].is_none() {
                    return "no-world".into();
                }
                let w = self.worlds[i].take().unwrap();
                REG.with(|r| r.borrow_mut().drop_fault = fault);
                let r = guard(move || drop(w));
                REG.with(|r| r.borrow_mut().drop_fault = None);
                seal();
                match r {
                    Ok(()) => format!("ok{}", reg_suffix()),
                    Err(c) => format!("panic {}{}", c, reg_suffix()),
                }
            }
            "events" => {
                #[cfg(feature = "events")]
                {
                    let Some(w) = self.w() else { return "no-world".into() };
                    let mut parts = Vec::new();
                    for a in 0..NARCH {
                        let (c, d) = dispatch!(a, A => (<A as ArchX>::ev_created(<A as ArchX>::of(w)), <A as ArchX>::ev_destroyed(<A as ArchX>::of(w))));
                        parts.push(format!("c{}=[{}] d{}=[{}]", a, c.iter().map(|e| fmt_any(*e)).collect::<Vec<_>>().join(","), a, d.iter().map(|e| fmt_any(*e)).collect::<Vec<_>>().join(",")));
                    }
                    fn walk<'a>(mut it: impl Iterator<Item = &'a EntityAny>) -> (Vec<String>, Vec<String>) {
                        let mut items = Vec::new();
                        let mut hints = Vec::new();
                        loop {
                            let (lo, hi) = it.size_hint();
                            hints.push(match hi { Some(h) if h == lo => lo.to_string(), Some(h) => format!("{}..{}", lo, h), None => format!("{}..", lo) });
                            match it.next() {
                                Some(e) => items.push(fmt_any(*e)),
                                None => break,
                            }
                        }
                        (items, hints)
                    }
                    let (ci, ch) = walk(w.iter_created());
                    let (di, dh) = walk(w.iter_destroyed());
                    parts.push(format!("wc=[{}] wch=[{}] wd=[{}] wdh=[{}]", ci.join(","), ch.join(","), di.join(","), dh.join(",")));
                    parts.join(" ")
                }
                #[cfg(not(feature = "events"))]
                {
                    "no-events".into()
                }
            }
            "clear" => {
                #[cfg(feature = "events")]
                {
                    let Some(w) = self.w() else { return "no-world".into() };
                    match t.get(1) {
                        Some(a) => {
                            let a: usize = a.parse().unwrap();
                            dispatch!(a, A => <A as ArchX>::ev_clear(<A as ArchX>::of_mut(w)));
                        }
                        None => w.clear_events(),
                    }
                    "ok".into()
                }
                #[cfg(not(feature = "events"))]
                {
                    "no-events".into()
                }
            }
            "forge" => {
                // forge <var> any <key> <ver>   |   forge <var> ent <arch> <key> <ver>
                let var = t[1].to_string();
                match t[2] {
                    "any" => {
                        let key: u32 = t[3].parse().unwrap();
                        let ver: u32 = t[4].parse().unwrap();
                        match EntityAny::from_raw((key, ver)) {
                            Ok(any) => {
                                let a = arch_of_id(any.archetype_id()).unwrap_or(0);
                                self.hs.insert(var, H::Ent { a, any });
                                "ok".into()
                            }
                            Err(e) => format!("err:{:?}", e),
                        }
                    }
                    "ent" => {
                        let a: usize = t[3].parse().unwrap();
                        let key: u32 = t[4].parse().unwrap();
                        let ver: u32 = t[5].parse().unwrap();
                        match EntityAny::from_raw((key, ver)) {
                            Ok(any) => match dispatch!(a, A => guard(|| { typed_ent::<A>(any); })) {
                                Ok(()) => {
                                    self.hs.insert(var, H::Ent { a, any });
                                    "ok".into()
                                }
                                Err(c) => format!("panic {}", c),
                            },
                            Err(e) => format!("err:{:?}", e),
                        }
                    }
                    "dir" => {
                        // forge <var> dir <arch> <dirvar>: unchecked conversion of a direct handle
                        let a: usize = t[3].parse().unwrap();
                        let Some(H::Dir { any, .. }) = self.get_h(t[4]) else { return "undef".into() };
                        match dispatch!(a, A => guard(|| { typed_dir::<A>(any); })) {
                            Ok(()) => {
                                self.hs.insert(var, H::Dir { a, any });
                                "ok".into()
                            }
                            Err(c) => format!("panic {}", c),
                        }
                    }
                    _ => "bad-op".into(),
                }
            }
            "wbcreate" => {
                // wbcreate <b> <var>: an entity of the unrelated world Wb; its handle used as a dynamic key
                let b: usize = t[1].parse().unwrap();
                let var = t[2].to_string();
                let n = 900_000_000u64 + self.hs.len() as u64 * 4;
                let any: EntityAny = match b {
                    0 => self.wb.create::<other::Ba>((Ca::make(n, 1), Cw::make(n + 1, 1))).into_any(),
                    1 => self.wb.create::<other::Bb>((Cp::make(n, 1),)).into_any(),
                    _ => self.wb.create::<other::Bc>((Ch::make(n, 1),)).into_any(),
                };
                let a = arch_of_id(any.archetype_id()).unwrap_or(0);
                self.hs.insert(var, H::Ent { a, any });
                format!("e {}", fmt_any(any))
            }
            "wbdirect" => {
                // wbdirect <var> <newvar>: direct handle of a Wb entity
                let Some(H::Ent { any, .. }) = self.get_h(t[1]) else { return "undef".into() };
                let var = t[2].to_string();
                match self.wb.to_direct(any) {
                    Some(d) => {
                        let a = arch_of_id(d.archetype_id()).unwrap_or(0);
                        self.hs.insert(var, H::Dir { a, any: d });
                        format!("d {}", fmt_dir(d))
                    }
                    None => "none".into(),
                }
            }
            "preset" => {
                let a: usize = t[1].parse().unwrap();
                let sv: u32 = t[2].parse().unwrap();
                let av: u32 = t[3].parse().unwrap();
                let Some(w) = self.w() else { return "no-world".into() };
                match dispatch!(a, A => guard(|| <A as ArchX>::preset(<A as ArchX>::of_mut(w), sv, av))) {
                    Ok(()) => "ok".into(),
                    Err(_) => "refused".into(),
                }
            }
            "dump" => {
                let a: usize = t[1].parse().unwrap();
                let _ = cur;
                let Some(w) = self.w() else { return "no-world".into() };
                let d = dispatch!(a, A => <A as ArchX>::dump(<A as ArchX>::of(w)));
                format!(
                    "dump v={} len={} cap={} fh={} slots=[{}] ents=[{}]",
                    d.version,
                    d.len,
                    d.capacity,
                    d.free_head,
                    d.slots.iter().map(|(i, v)| format!("{}.{}", i, v)).collect::<Vec<_>>().join(","),
                    d.entities.iter().map(|(k, v)| format!("{}.{}", k, v)).collect::<Vec<_>>().join(",")
                )
            }
            "conv" => {
                let Some(h) = self.get_h(t[1]) else { return "undef".into() };
                conv(h)
            }
            "cmp" => {
                let (Some(h1), Some(h2)) = (self.get_h(t[1]), self.get_h(t[2])) else { return "undef".into() };
                cmp(h1, h2)
            }
            "end" => {
                // registry balance: tokens still alive that do not belong to the foreign world Wb
                let (live, zlive) = REG.with(|r| {
                    let r = r.borrow();
                    (r.live.iter().filter(|t| **t < 900_000_000).count(), r.zlive)
                });
                format!("live={} zlive={}", live, zlive)
            }
            "nest" => {
                let Some(nodes) = nest::parse(&t[1..]) else { return "bad-op".into() };
                let hs = self.hs.clone();
                let Some(w) = self.w() else { return "no-world".into() };
                let w: &Wa = w;
                let tr = std::cell::RefCell::new(Vec::<String>::new());
                let ev = std::cell::RefCell::new(Vec::<String>::new());
                let r = guard(|| nest::exec_nodes(&hs, w, &nodes, &tr, &ev));
                let sweep = nest::sweep(w);
                let out = format!("[{}] end={} sweep={}", tr.borrow().join(" "), match r { Ok(()) => "ok".to_string(), Err(c) => format!("panic:{}", c) }, if sweep { "ok" } else { "BAD" });
                self.info.push(format!("#nest {}", ev.borrow().join(" | ")));
                out
            }
            _ => "bad-op".into(),
        }
    }
}

/// C14: every conversion of one handle, printed canonically.
fn conv(h: H) -> String {
    use std::collections::hash_map::DefaultHasher;
    use std::collections::HashSet;
    use std::hash::{Hash, Hasher};
    fn hash_of<T: Hash>(t: &T) -> u64 {
        let mut s = DefaultHasher::new();
        t.hash(&mut s);
        s.finish()
    }
    let mut out: Vec<String> = Vec::new();
    match h {
        H::Ent { any, .. } => {
            let (k, v) = any.raw();
            out.push(format!("raw={}.{}", k, v));
            out.push(format!("id={}", any.archetype_id()));
            out.push(format!("rt={}", match EntityAny::from_raw(any.raw()) { Ok(e) => (e == any) as u8, Err(_) => 2 }));
            out.push(format!("hashraw={}", (hash_of(&any) == hash_of(&(((k as u64) << 32) | v as u64))) as u8));
            let mut tf = Vec::new();
            for a in 0..NARCH {
                let s = dispatch!(a, A => {
                    let tf: Result<Entity<A>, _> = Entity::<A>::try_from(any);
                    let fa = guard(|| Entity::<A>::from_any(any));
                    let r = match tf {
                        Ok(e) => {
                            let back: EntityAny = e.into();
                            let mut hs: HashSet<EntityAny> = HashSet::new();
                            hs.insert(back);
                            format!("ok:{}:{}:{}:{}:{}", fmt_any(back), (back == any) as u8, e.archetype_id(), (hash_of(&e) == hash_of(&any)) as u8, hs.contains(&any) as u8)
                        }
                        Err(e) => format!("err:{:?}", e),
                    };
                    format!("{}/{}", r, match fa { Ok(e) => format!("ok:{}", fmt_any(e.into_any())), Err(c) => format!("!{}", c) })
                });
                tf.push(s);
            }
            out.push(format!("tf=[{}]", tf.join(" ")));
            let sel = match SelectEntity::try_from(any) {
                Ok(s) => {
                    let (a, e): (usize, EntityAny) = match s {
                        SelectEntity::Aa(e) => (0, e.into()),
                        SelectEntity::Ab(e) => (1, e.into()),
                        SelectEntity::Ac(e) => (2, e.into()),
                        SelectEntity::Ad(e) => (3, e.into()),
                        SelectEntity::Ae(e) => (4, e.into()),
                        #[cfg(feature = "32_components")]
                        SelectEntity::Af(e) => (5, e.into()),
                    };
                    format!("{}:{}", a, fmt_any(e))
                }
                Err(e) => format!("err:{:?}", e),
            };
            out.push(format!("sel={}", sel));
            let sa = match SelectArchetype::try_from(any) {
                Ok(s) => format!("{}", s.archetype_id()),
                Err(e) => format!("err:{:?}", e),
            };
            let sa2 = match SelectArchetype::try_from(any.archetype_id()) {
                Ok(s) => format!("{}", s.archetype_id()),
                Err(e) => format!("err:{:?}", e),
            };
            out.push(format!("sa={}/{}", sa, sa2));
        }
        H::Dir { any, .. } => {
            let (k, v) = dir_words(any);
            out.push(format!("raw={}.{}", k, v));
            out.push(format!("id={}", any.archetype_id()));
            out.push(format!("hashraw={}", (hash_of(&any) == hash_of(&(((k as u64) << 32) | v as u64))) as u8));
            let mut tf = Vec::new();
            for a in 0..NARCH {
                let s = dispatch!(a, A => {
                    let tf: Result<EntityDirect<A>, _> = EntityDirect::<A>::try_from(any);
                    let fa = guard(|| EntityDirect::<A>::from_any(any));
                    let r = match tf {
                        Ok(e) => {
                            let back: EntityDirectAny = e.into();
                            format!("ok:{}:{}:{}:{}", fmt_dir(back), (back == any) as u8, e.archetype_id(), (hash_of(&e) == hash_of(&any)) as u8)
                        }
                        Err(e) => format!("err:{:?}", e),
                    };
                    format!("{}/{}", r, match fa { Ok(e) => format!("ok:{}", fmt_dir(e.into_any())), Err(c) => format!("!{}", c) })
                });
                tf.push(s);
            }
            out.push(format!("tf=[{}]", tf.join(" ")));
            let sel = match SelectEntityDirect::try_from(any) {
                Ok(s) => {
                    let (a, e): (usize, EntityDirectAny) = match s {
                        SelectEntityDirect::Aa(e) => (0, e.into()),
                        SelectEntityDirect::Ab(e) => (1, e.into()),
                        SelectEntityDirect::Ac(e) => (2, e.into()),
                        SelectEntityDirect::Ad(e) => (3, e.into()),
                        SelectEntityDirect::Ae(e) => (4, e.into()),
                        #[cfg(feature = "32_components")]
                        SelectEntityDirect::Af(e) => (5, e.into()),
                    };
                    format!("{}:{}", a, fmt_dir(e))
                }
                Err(e) => format!("err:{:?}", e),
            };
            out.push(format!("sel={}", sel));
        }
    }
    out.join(" ")
}

/// C14: Eq / Hash of a PAIR of handles, dynamically typed and typed for every archetype
/// both convert to.  Per comparison three characters: `==`, `!=`, and (only when equal)
/// whether the hashes agree.
fn cmp(h1: H, h2: H) -> String {
    use std::collections::hash_map::DefaultHasher;
    use std::hash::{Hash, Hasher};
    fn hash_of<T: Hash>(t: &T) -> u64 {
        let mut s = DefaultHasher::new();
        t.hash(&mut s);
        s.finish()
    }
    fn tri<T: PartialEq + Hash>(x: &T, y: &T) -> String {
        let eq = x == y;
        #[allow(clippy::nonminimal_bool)]
        let ne = x != y;
        format!("{}{}{}", eq as u8, ne as u8, if eq { ((hash_of(x) == hash_of(y)) as u8).to_string() } else { "-".to_string() })
    }
    match (h1, h2) {
        (H::Ent { any: x, .. }, H::Ent { any: y, .. }) => {
            let mut ty = Vec::new();
            for a in 0..NARCH {
                ty.push(dispatch!(a, A => {
                    match (Entity::<A>::try_from(x), Entity::<A>::try_from(y)) {
                        (Ok(p), Ok(q)) => tri(&p, &q),
                        _ => "-".to_string(),
                    }
                }));
            }
            format!("k=e a={} b={} any={} t=[{}]", fmt_any(x), fmt_any(y), tri(&x, &y), ty.join(" "))
        }
        (H::Dir { any: x, .. }, H::Dir { any: y, .. }) => {
            let mut ty = Vec::new();
            for a in 0..NARCH {
                ty.push(dispatch!(a, A => {
                    match (EntityDirect::<A>::try_from(x), EntityDirect::<A>::try_from(y)) {
                        (Ok(p), Ok(q)) => tri(&p, &q),
                        _ => "-".to_string(),
                    }
                }));
            }
            format!("k=d a={} b={} any={} t=[{}]", fmt_dir(x), fmt_dir(y), tri(&x, &y), ty.join(" "))
        }
        _ => "k=x".to_string(),
    }
}

pub fn header() -> String {
    let mut s = String::new();
    let feats = [
        (cfg!(feature = "events"), "events"),
        (cfg!(feature = "wrapping_version"), "wrapping_version"),
        (cfg!(feature = "32_components"), "32_components"),
    ];
    s.push_str(&format!(
        "cfg debug={} events={} wrapping={} c32={}\n",
        cfg!(debug_assertions) as u8,
        feats[0].0 as u8,
        feats[1].0 as u8,
        feats[2].0 as u8
    ));
    for a in 0..NARCH {
        let line = dispatch!(a, A => {
            format!("arch {} {} {} {}", a, <A as ArchX>::NAME, <A as Archetype>::ARCHETYPE_ID,
                <A as ArchX>::comps().iter().map(|(n, i, z)| format!("{}:{}{}", n, i, if *z { ":z" } else { "" })).collect::<Vec<_>>().join(" "))
        });
        s.push_str(&line);
        s.push('\n');
    }
    for q in MENU {
        s.push_str(&format!("query {} {}\n", q.name, q.params));
    }
    s
}

/// Worlds still alive at the end of a sequence are dropped with the interpreter state; a layout
/// mismatch in THAT drop is reported as a line of its own (unknown to the model: only ever printed
/// on a violation).
fn drop_state(st: Option<St>) {
    let had = st.is_some();
    drop(st);
    if had {
        if let Some(m) = alloc_check::take() {
            println!("alloc-check => ALLOC-ERROR[{}] # dropped", m);
        }
    }
}

fn main() {
    std::panic::set_hook(Box::new(|info| {
        if GUARD_DEPTH.with(|d| d.get()) == 0 {
            eprintln!("HARNESS PANIC outside guard: {}", info);
        }
    }));
    let args: Vec<String> = std::env::args().collect();
    match args.get(1).map(|s| s.as_str()) {
        Some("header") => print!("{}", header()),
        Some("boundary") => boundary::run(),
        Some("cycles") => boundary::cycles(),
        Some("shapes") => shapes::run(),
        Some("smallworlds") => shapes::ev::run(),
        Some("run") => {
            let text = std::fs::read_to_string(&args[2]).expect("read ops file");
            print!("{}", header());
            let mut st: Option<St> = None;
            for line in text.lines() {
                let line = line.trim();
                if line.is_empty() || line.starts_with("cfg ") || line.starts_with("arch ") || line.starts_with("query ") || line.starts_with('#') {
                    continue;
                }
                if line.starts_with("seq ") {
                    drop_state(st.take());
                    reg_reset();
                    st = Some(St::new());
                    println!("{}", line);
                    continue;
                }
                if st.is_none() {
                    reg_reset();
                    st = Some(St::new());
                    println!("seq 0");
                }
                let op = line.split(" => ").next().unwrap();
                {
                    use std::io::Write;
                    print!("{} => ", op);
                    let _ = std::io::stdout().flush();
                }
                let obs = st.as_mut().unwrap().exec(op);
                println!("{}", obs);
            }
            drop_state(st.take());
        }
        Some("decs") => {
            // C07: EVERY decision string over {c,d,b,x} up to length nmax, on one archetype (family A,
            // query q7 = Entity<Aa> + &mut Ca) and across two matched archetypes (family B, query q2 =
            // EntityAny + &mut Cw on Ab and Ac), each followed by the full read-back battery.
            let nmax: usize = args.get(2).and_then(|s| s.parse().ok()).unwrap_or(4);
            print!("{}", header());
            let ncols: Vec<usize> = (0..NARCH).map(|a| dispatch!(a, A => <A as ArchX>::comps().len())).collect();
            let mut seqno = 0usize;
            let mut run_one = |plan: &[(usize, usize)], q: &str, dec: &str| {
                reg_reset();
                let mut st = St::new();
                println!("seq {} decs plan={:?} q={} dec={}", seqno, plan, q, dec);
                seqno += 1;
                let mut ops: Vec<String> = Vec::new();
                let caps: Vec<String> = (0..NARCH).map(|a| plan.iter().find(|(x, _)| *x == a).map(|(_, n)| n.to_string()).unwrap_or("0".into())).collect();
                ops.push(format!("new {}", caps.join(" ")));
                let mut tok = 0u64;
                let mut hs: Vec<String> = Vec::new();
                for (a, n) in plan {
                    for _ in 0..*n {
                        let row: Vec<String> = (0..ncols[*a]).map(|_| { tok += 1; format!("{}:{}", tok, tok % 97) }).collect();
                        let h = format!("h{}", hs.len() + 1);
                        ops.push(format!("create a {} {} {}", a, h, row.join(" ")));
                        hs.push(h);
                    }
                }
                ops.push(format!("iterd {} dec={} add=3 save=d1", q, dec));
                for (a, _) in plan {
                    ops.push(format!("rows {}", a));
                    ops.push(format!("dump {}", a));
                }
                for h in &hs {
                    ops.push(format!("probe {}", h));
                }
                ops.push("probe d1".to_string());
                ops.push("events".to_string());
                ops.push("drop 0".to_string());
                ops.push("end".to_string());
                for op in ops {
                    {
                        use std::io::Write;
                        print!("{} => ", op);
                        let _ = std::io::stdout().flush();
                    }
                    let obs = st.exec(&op);
                    println!("{}", obs);
                }
                drop_state(Some(st));
            };
            fn strings(n: usize) -> Vec<String> {
                let mut out = vec![String::new()];
                for _ in 0..n {
                    let mut nx = Vec::new();
                    for s in &out {
                        for c in ['c', 'd', 'b', 'x'] {
                            nx.push(format!("{}{}", s, c));
                        }
                    }
                    out = nx;
                }
                out
            }
            for n in 0..=nmax {
                for dec in strings(n) {
                    run_one(&[(0, n)], "q7", &dec);
                }
            }
            for n in 2..=nmax.min(4) {
                for n1 in 1..n {
                    for dec in strings(n) {
                        run_one(&[(1, n1), (2, n - n1)], "q2", &dec);
                    }
                }
            }
        }
        Some("gen") => {
            let seed: u64 = args[2].parse().unwrap();
            let nseq: usize = args[3].parse().unwrap();
            let maxops: usize = args[4].parse().unwrap();
            let profile = args.get(5).map(|s| s.as_str()).unwrap_or("mix");
            print!("{}", header());
            for i in 0..nseq {
                reg_reset();
                let mut st = St::new();
                let s = seed.wrapping_mul(0x9E3779B97F4A7C15).wrapping_add(i as u64);
                println!("seq {} seed={} profile={}", i, s, profile);
                gen::run_sequence(&mut st, s, maxops, profile);
                drop_state(Some(st));
            }
        }
        _ => {
            eprintln!("usage: rt gen <seed> <nseq> <maxops> [profile] | rt run <file> | rt header");
            std::process::exit(2);
        }
    }
}
