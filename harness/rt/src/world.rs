//! The world family the interpreter runs on, declared with the real `ecs_world!`, and a
//! per-archetype accessor trait so the interpreter can be written once.

#![allow(non_snake_case)]

use crate::comps::*;
use gecs::__internal::VerifDump;
use gecs::prelude::*;

ecs_world! {
    ecs_name!(Wa);

    #[archetype_id(0)]
    ecs_archetype!(Aa, Ca);

    #[archetype_id(3)]
    ecs_archetype!(Ab, #[component_id(7)] Cp, Cw);

    // implicit id 4
    ecs_archetype!(Ac, Cz, Ch, #[component_id(9)] Cw);

    #[archetype_id(200)]
    ecs_archetype!(Ad, Ca, Cp, Ch, Cb, Da);

    #[archetype_id(254)]
    ecs_archetype!(Ae, Ca, Cb, Cp, Ch, Cw, Db, Dc, Dd, De, Df, Dg, Dh, Di, Dj, Dk, Dl);

    #[cfg(feature = "32_components")]
    #[archetype_id(255)]
    ecs_archetype!(Af, Ca, Cb, Cp, Ch, Cw, Db, Dc, Dd, De, Df, Dg, Dh, Di, Dj, Dk, Dl,
        Ga, Gb, Gc, Gd, Ge, Gf, Gg, Gh, Gi, Gj, Gk, Gl, Gm, Gn, Go, Gp);
}

pub mod other {
    //! A second, unrelated world type (cross-world handles).
    use crate::comps::*;
    use gecs::prelude::*;
    ecs_world! {
        ecs_name!(Wb);
        ecs_archetype!(Ba, Ca, Cw);
        #[archetype_id(3)]
        ecs_archetype!(Bb, Cp);
        #[archetype_id(77)]
        ecs_archetype!(Bc, Ch);
    }
}

pub type Row = Vec<(u64, u64)>;

#[cfg(not(feature = "32_components"))]
pub const NARCH: usize = 5;
#[cfg(feature = "32_components")]
pub const NARCH: usize = 6;

pub trait ArchX: Archetype + Sized + 'static {
    const IDX: usize;
    const NAME: &'static str;
    fn comps() -> Vec<(&'static str, u8, bool)>;
    fn of(w: &Wa) -> &Self;
    fn of_mut(w: &mut Wa) -> &mut Self;
    fn make(row: &[(u64, u64)]) -> Self::Components;
    /// the row of a components struct handed back by gecs, read through `Components::get`,
    /// `get_mut` and `into_tuple`; if the three disagree every value is poisoned (u64::MAX)
    fn comps_row(c: Self::Components) -> Row;
    /// `Iterator` laws of `Archetype::iter()` / `iter_mut()` against a plain `for` pass: `count`,
    /// `last`, `nth`, `skip`, `step_by`, `size_hint` (labels of the ones that fail)
    fn iter_laws(a: &mut Self) -> Vec<&'static str>;
    fn view_row(v: &Self::View<'_>) -> Row;
    fn view_set(v: &mut Self::View<'_>, col: usize, val: u64);
    fn borrow_row(b: &Self::Borrow<'_>) -> Row;
    fn borrow_set(b: &Self::Borrow<'_>, col: usize, val: u64);
    fn col_get_slice(a: &mut Self, col: usize) -> Vec<(u64, u64)>;
    fn col_borrow_slice(a: &Self, col: usize) -> Vec<(u64, u64)>;
    /// lengths of the MUTABLE slice accessors of column `col`: (get_slice_mut, borrow_slice_mut)
    fn col_mut_lens(a: &mut Self, col: usize) -> (usize, usize);
    fn set_get_slice_mut(a: &mut Self, idx: usize, col: usize, val: u64) -> bool;
    fn set_borrow_slice_mut(a: &Self, idx: usize, col: usize, val: u64) -> bool;
    fn rows_iter(a: &mut Self) -> Vec<(EntityAny, Row)>;
    fn rows_iter_mut(a: &mut Self, set: Option<(usize, usize, u64)>) -> Vec<(EntityAny, Row)>;
    fn rows_all_slices(a: &mut Self, set: Option<(usize, usize, u64)>) -> Vec<(EntityAny, Row)>;
    /// run `f` while holding `borrow_slice::<C>()` / `borrow_slice_mut::<C>()` of column `col`
    fn with_borrow_slice(a: &Self, col: usize, m: bool, f: &mut dyn FnMut());
    /// run `f` while holding `component::<C>()` / `component_mut::<C>()` of column `col`
    fn with_borrow_comp(b: &Self::Borrow<'_>, col: usize, m: bool, f: &mut dyn FnMut());
    fn dump(a: &Self) -> VerifDump;
    fn preset(a: &mut Self, sv: u32, av: u32);
    #[cfg(feature = "events")]
    fn ev_created(a: &Self) -> Vec<EntityAny>;
    #[cfg(feature = "events")]
    fn ev_destroyed(a: &Self) -> Vec<EntityAny>;
    #[cfg(feature = "events")]
    fn ev_clear(a: &mut Self);
}

fn tv<C: Comp>(c: &C) -> (u64, u64) {
    (c.id(), c.val())
}

macro_rules! impl_archx {
    ($A:ident, $field:ident, $idx:expr, [$(($C:ident, $v:ident)),*]) => {
        impl ArchX for $A {
            const IDX: usize = $idx;
            const NAME: &'static str = stringify!($A);
            fn comps() -> Vec<(&'static str, u8, bool)> {
                vec![$((stringify!($C), <$A as ArchetypeHas<$C>>::COMPONENT_ID, <$C as Comp>::ZST)),*]
            }
            fn of(w: &Wa) -> &Self { &w.$field }
            fn of_mut(w: &mut Wa) -> &mut Self { &mut w.$field }
            fn make(row: &[(u64, u64)]) -> Self::Components {
                let mut it = row.iter();
                ($({ let (i, v) = *it.next().expect("row too short"); <$C as Comp>::make(i, v) },)*).into()
            }
            fn comps_row(mut c: Self::Components) -> Row {
                let r1: Row = vec![$(tv(c.get::<$C>())),*];
                let r2: Row = vec![$(tv(&*c.get_mut::<$C>())),*];
                // the tuple is dropped as a whole at the end (fields in order, like the struct)
                let t = c.into_tuple();
                let r3: Row = { let ($(ref $v,)*) = t; vec![$(tv($v)),*] };
                if r1 != r2 || r1 != r3 {
                    return r1.iter().map(|(i, _)| (*i, u64::MAX)).collect();
                }
                r1
            }
            fn iter_laws(a: &mut Self) -> Vec<&'static str> {
                let mut bad: Vec<&'static str> = Vec::new();
                let plain: Vec<(EntityAny, Row)> = Self::rows_iter(a);
                let n = plain.len();
                let ks = [0usize, 1, n / 2, n.saturating_sub(1), n, n + 3];
                {
                    let conv = |(e, $($v),*): (&Entity<$A>, $(&$C),*)| ((*e).into_any(), vec![$(tv($v)),*]);
                    if a.iter().count() != n { bad.push("law:iter.count"); }
                    if a.iter().last().map(conv) != plain.last().cloned() { bad.push("law:iter.last"); }
                    for &k in &ks {
                        let mut it = a.iter();
                        let x = it.nth(k).map(conv);
                        let rest: Vec<(EntityAny, Row)> = it.map(conv).collect();
                        if x != plain.get(k).cloned() || rest[..] != plain[(k + 1).min(n)..] { bad.push("law:iter.nth"); }
                        let sk: Vec<(EntityAny, Row)> = a.iter().skip(k).map(conv).collect();
                        if sk[..] != plain[k.min(n)..] { bad.push("law:iter.skip"); }
                    }
                    for st in [1usize, 2, 3] {
                        let got: Vec<(EntityAny, Row)> = a.iter().step_by(st).map(conv).collect();
                        let exp: Vec<(EntityAny, Row)> = plain.iter().step_by(st).cloned().collect();
                        if got != exp { bad.push("law:iter.step_by"); }
                    }
                    let mut it = a.iter();
                    let mut left = n;
                    loop {
                        let (lo, hi) = it.size_hint();
                        if lo > left || hi.map_or(false, |h| h < left) { bad.push("law:iter.size_hint"); }
                        if it.next().is_none() { break; }
                        left = left.saturating_sub(1);
                    }
                }
                {
                    let conv = |(e, $($v),*): (&Entity<$A>, $(&mut $C),*)| ((*e).into_any(), vec![$(tv(&*$v)),*]);
                    if a.iter_mut().count() != n { bad.push("law:iter_mut.count"); }
                    if a.iter_mut().last().map(conv) != plain.last().cloned() { bad.push("law:iter_mut.last"); }
                    for &k in &ks {
                        let mut it = a.iter_mut();
                        let x = it.nth(k).map(conv);
                        let rest: Vec<(EntityAny, Row)> = it.map(conv).collect();
                        if x != plain.get(k).cloned() || rest[..] != plain[(k + 1).min(n)..] { bad.push("law:iter_mut.nth"); }
                        let sk: Vec<(EntityAny, Row)> = a.iter_mut().skip(k).map(conv).collect();
                        if sk[..] != plain[k.min(n)..] { bad.push("law:iter_mut.skip"); }
                    }
                    for st in [1usize, 2, 3] {
                        let got: Vec<(EntityAny, Row)> = a.iter_mut().step_by(st).map(conv).collect();
                        let exp: Vec<(EntityAny, Row)> = plain.iter().step_by(st).cloned().collect();
                        if got != exp { bad.push("law:iter_mut.step_by"); }
                    }
                    let mut it = a.iter_mut();
                    let mut left = n;
                    loop {
                        let (lo, hi) = it.size_hint();
                        if lo > left || hi.map_or(false, |h| h < left) { bad.push("law:iter_mut.size_hint"); }
                        if it.next().is_none() { break; }
                        left = left.saturating_sub(1);
                    }
                }
                let mut uniq: Vec<&'static str> = Vec::new();
                for b in bad { if !uniq.contains(&b) { uniq.push(b); } }
                uniq
            }
            fn view_row(v: &Self::View<'_>) -> Row {
                vec![$(tv(v.component::<$C>())),*]
            }
            fn view_set(v: &mut Self::View<'_>, col: usize, val: u64) {
                let mut i = 0usize;
                $( if i == col { v.component_mut::<$C>().set_val(val); } i += 1; )*
                let _ = i;
            }
            fn borrow_row(b: &Self::Borrow<'_>) -> Row {
                vec![$(tv(&*b.component::<$C>())),*]
            }
            fn borrow_set(b: &Self::Borrow<'_>, col: usize, val: u64) {
                let mut i = 0usize;
                $( if i == col { b.component_mut::<$C>().set_val(val); } i += 1; )*
                let _ = i;
            }
            fn col_get_slice(a: &mut Self, col: usize) -> Vec<(u64, u64)> {
                let mut i = 0usize;
                $( if i == col { return a.get_slice::<$C>().iter().map(tv).collect(); } i += 1; )*
                let _ = i;
                panic!("bad column")
            }
            fn col_borrow_slice(a: &Self, col: usize) -> Vec<(u64, u64)> {
                let mut i = 0usize;
                $( if i == col { return a.borrow_slice::<$C>().iter().map(tv).collect(); } i += 1; )*
                let _ = i;
                panic!("bad column")
            }
            fn col_mut_lens(a: &mut Self, col: usize) -> (usize, usize) {
                let mut i = 0usize;
                $( if i == col {
                    let g = a.get_slice_mut::<$C>().len();
                    let b = a.borrow_slice_mut::<$C>().len();
                    return (g, b);
                } i += 1; )*
                let _ = i;
                panic!("bad column")
            }
            fn set_get_slice_mut(a: &mut Self, idx: usize, col: usize, val: u64) -> bool {
                let mut i = 0usize;
                $( if i == col {
                    return match a.get_slice_mut::<$C>().get_mut(idx) { Some(x) => { x.set_val(val); true } None => false };
                } i += 1; )*
                let _ = i;
                panic!("bad column")
            }
            fn set_borrow_slice_mut(a: &Self, idx: usize, col: usize, val: u64) -> bool {
                let mut i = 0usize;
                $( if i == col {
                    return match a.borrow_slice_mut::<$C>().get_mut(idx) { Some(x) => { x.set_val(val); true } None => false };
                } i += 1; )*
                let _ = i;
                panic!("bad column")
            }
            fn rows_iter(a: &mut Self) -> Vec<(EntityAny, Row)> {
                let mut out = Vec::new();
                for (e, $($v),*) in a.iter() {
                    out.push(((*e).into_any(), vec![$(tv($v)),*]));
                }
                out
            }
            fn rows_iter_mut(a: &mut Self, set: Option<(usize, usize, u64)>) -> Vec<(EntityAny, Row)> {
                let mut out = Vec::new();
                for (n, (e, $($v),*)) in a.iter_mut().enumerate() {
                    if let Some((idx, col, val)) = set {
                        if idx == n {
                            let mut i = 0usize;
                            $( if i == col { $v.set_val(val); } i += 1; )*
                            let _ = i;
                        }
                    }
                    out.push(((*e).into_any(), vec![$(tv(&*$v)),*]));
                }
                out
            }
            fn rows_all_slices(a: &mut Self, set: Option<(usize, usize, u64)>) -> Vec<(EntityAny, Row)> {
                let s = a.get_all_slices_mut();
                let mut out = Vec::new();
                for n in 0..s.entity.len() {
                    if let Some((idx, col, val)) = set {
                        if idx == n {
                            let mut i = 0usize;
                            $( if i == col { s.$v[n].set_val(val); } i += 1; )*
                            let _ = i;
                        }
                    }
                    out.push((s.entity[n].into_any(), vec![$(tv(&s.$v[n])),*]));
                }
                out
            }
            fn with_borrow_slice(a: &Self, col: usize, m: bool, f: &mut dyn FnMut()) {
                let mut i = 0usize;
                $( if i == col {
                    if m { let _g = a.borrow_slice_mut::<$C>(); f(); } else { let _g = a.borrow_slice::<$C>(); f(); }
                    return;
                } i += 1; )*
                let _ = i;
                panic!("harness: bad column")
            }
            fn with_borrow_comp(b: &Self::Borrow<'_>, col: usize, m: bool, f: &mut dyn FnMut()) {
                let mut i = 0usize;
                $( if i == col {
                    if m { let _g = b.component_mut::<$C>(); f(); } else { let _g = b.component::<$C>(); f(); }
                    return;
                } i += 1; )*
                let _ = i;
                panic!("harness: bad column")
            }
            fn dump(a: &Self) -> VerifDump { a.data.verif_dump() }
            fn preset(a: &mut Self, sv: u32, av: u32) { a.data.verif_preset_versions(sv, av) }
            #[cfg(feature = "events")]
            fn ev_created(a: &Self) -> Vec<EntityAny> { a.iter_created().map(|e| (*e).into_any()).collect() }
            #[cfg(feature = "events")]
            fn ev_destroyed(a: &Self) -> Vec<EntityAny> { a.iter_destroyed().map(|e| (*e).into_any()).collect() }
            #[cfg(feature = "events")]
            fn ev_clear(a: &mut Self) { a.clear_events() }
        }
    };
}

impl_archx!(Aa, aa, 0, [(Ca, ca)]);
impl_archx!(Ab, ab, 1, [(Cp, cp), (Cw, cw)]);
impl_archx!(Ac, ac, 2, [(Cz, cz), (Ch, ch), (Cw, cw)]);
impl_archx!(Ad, ad, 3, [(Ca, ca), (Cp, cp), (Ch, ch), (Cb, cb), (Da, da)]);
impl_archx!(Ae, ae, 4, [(Ca, ca), (Cb, cb), (Cp, cp), (Ch, ch), (Cw, cw), (Db, db), (Dc, dc),
    (Dd, dd), (De, de), (Df, df), (Dg, dg), (Dh, dh), (Di, di), (Dj, dj), (Dk, dk), (Dl, dl)]);
#[cfg(feature = "32_components")]
impl_archx!(Af, af, 5, [(Ca, ca), (Cb, cb), (Cp, cp), (Ch, ch), (Cw, cw), (Db, db), (Dc, dc),
    (Dd, dd), (De, de), (Df, df), (Dg, dg), (Dh, dh), (Di, di), (Dj, dj), (Dk, dk), (Dl, dl),
    (Ga, ga), (Gb, gb), (Gc, gc), (Gd, gd), (Ge, ge), (Gf, gf), (Gg, gg), (Gh, gh),
    (Gi, gi), (Gj, gj), (Gk, gk), (Gl, gl), (Gm, gm), (Gn, gn), (Go, go), (Gp, gp)]);

/// Run `$body` with the type alias `$A` bound to the archetype with run-time index `$a`.
#[macro_export]
macro_rules! dispatch {
    ($a:expr, $A:ident => $body:expr) => {
        match $a {
            0 => { type $A = $crate::world::Aa; $body }
            1 => { type $A = $crate::world::Ab; $body }
            2 => { type $A = $crate::world::Ac; $body }
            3 => { type $A = $crate::world::Ad; $body }
            4 => { type $A = $crate::world::Ae; $body }
            #[cfg(feature = "32_components")]
            5 => { type $A = $crate::world::Af; $body }
            _ => panic!("harness: bad archetype index"),
        }
    };
}
