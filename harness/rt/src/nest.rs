//! C11: nested runtime-borrowed accesses.  A run-time tree is walked by an interpreter that
//! at each node invokes one statically compiled REAL access (borrow_slice(_mut),
//! Borrow::component(_mut), ecs_find_borrow!, ecs_iter_borrow!, clone) and recurses inside
//! the guard scope / closure call.

use crate::queries::*;
use crate::world::*;
use crate::{guard, H};
use gecs::prelude::*;
use std::cell::RefCell;
use std::collections::HashMap;

pub enum Node {
    Bs { a: usize, col: usize, m: bool, kids: Vec<Node> },
    Bc { a: usize, var: String, col: usize, m: bool, kids: Vec<Node> },
    Fb { q: usize, var: String, kids: Vec<Node> },
    Ib { q: usize, kids: Vec<Node> },
    Cl,
}

pub fn parse(tokens: &[&str]) -> Option<Vec<Node>> {
    let mut pos = 0;
    let r = parse_list(tokens, &mut pos)?;
    if pos == tokens.len() {
        Some(r)
    } else {
        None
    }
}

fn parse_list(t: &[&str], pos: &mut usize) -> Option<Vec<Node>> {
    let mut out = Vec::new();
    while *pos < t.len() && t[*pos] == "(" {
        *pos += 1;
        let kind = *t.get(*pos)?;
        *pos += 1;
        let mut args = Vec::new();
        while *pos < t.len() && t[*pos] != "(" && t[*pos] != ")" {
            args.push(t[*pos]);
            *pos += 1;
        }
        let kids = parse_list(t, pos)?;
        if t.get(*pos) != Some(&")") {
            return None;
        }
        *pos += 1;
        let node = match (kind, args.as_slice()) {
            ("bs", [a, c, m]) => Node::Bs { a: a.parse().ok()?, col: c.parse().ok()?, m: *m == "m", kids },
            ("bc", [a, v, c, m]) => Node::Bc { a: a.parse().ok()?, var: v.to_string(), col: c.parse().ok()?, m: *m == "m", kids },
            ("fb", [q, v]) => Node::Fb { q: q[1..].parse().ok()?, var: v.to_string(), kids },
            ("ib", [q]) => Node::Ib { q: q[1..].parse().ok()?, kids },
            ("cl", []) => Node::Cl,
            _ => return None,
        };
        out.push(node);
    }
    Some(out)
}

/// `ev` is an implementation-side event log for the C11 oracle (not compared with the model):
/// `A <node>` an access is attempted, `+<args>` it was granted and its body starts, `X` the
/// node is left.  After a panic the log simply stops.
pub fn exec_nodes(hs: &HashMap<String, H>, w: &Wa, nodes: &[Node], tr: &RefCell<Vec<String>>, ev: &RefCell<Vec<String>>) {
    for n in nodes {
        match n {
            Node::Bs { a, col, m, kids } => {
                ev.borrow_mut().push(format!("A bs:{}:{}:{}", a, col, if *m { "m" } else { "s" }));
                crate::dispatch!(*a, A => {
                    <A as ArchX>::with_borrow_slice(<A as ArchX>::of(w), *col, *m, &mut || {
                        tr.borrow_mut().push("bs+".to_string());
                        ev.borrow_mut().push("+".to_string());
                        exec_nodes(hs, w, kids, tr, ev);
                    })
                });
                ev.borrow_mut().push("X".to_string());
            }
            Node::Bc { a, var, col, m, kids } => {
                let key = hs.get(var).copied();
                ev.borrow_mut().push(format!("A bc:{}:{}:{}:{}", a, var, col, if *m { "m" } else { "s" }));
                crate::dispatch!(*a, A => {
                    let got = match key {
                        Some(H::Ent { any, .. }) => <A as ArchX>::of(w).borrow(any),
                        // a dynamically typed DIRECT key: the lookup itself must not care about guards
                        Some(H::Dir { any, .. }) => <A as ArchX>::of(w).borrow(any),
                        None => None,
                    };
                    match got {
                        Some(b) => <A as ArchX>::with_borrow_comp(&b, *col, *m, &mut || {
                            tr.borrow_mut().push("bc+".to_string());
                            ev.borrow_mut().push("+".to_string());
                            exec_nodes(hs, w, kids, tr, ev);
                        }),
                        None => tr.borrow_mut().push("bc-".to_string()),
                    }
                });
                ev.borrow_mut().push("X".to_string());
            }
            Node::Fb { q, var, kids } => {
                let key = hs.get(var).copied();
                let mut ran = false;
                ev.borrow_mut().push(format!("A fb:q{}:{}", q, var));
                if let Some(k) = key {
                    let mut hook = |args: &str| {
                        ran = true;
                        tr.borrow_mut().push("fb+".to_string());
                        ev.borrow_mut().push(format!("+{}", args));
                        exec_nodes(hs, w, kids, tr, ev);
                    };
                    let mut cx = Ctx::default();
                    cx.hook = Some(&mut hook);
                    let _ = match k {
                        H::Ent { any, .. } => (MENU[*q].findb_any)(w, any, &mut cx),
                        H::Dir { any, .. } => (MENU[*q].findb_dirany)(w, any, &mut cx),
                    };
                }
                if !ran {
                    tr.borrow_mut().push("fb-".to_string());
                }
                ev.borrow_mut().push("X".to_string());
            }
            Node::Ib { q, kids } => {
                ev.borrow_mut().push(format!("A ib:q{}", q));
                let mut hook = |args: &str| {
                    tr.borrow_mut().push("ib+".to_string());
                    ev.borrow_mut().push(format!("+{}", args));
                    exec_nodes(hs, w, kids, tr, ev);
                    ev.borrow_mut().push("-".to_string());
                };
                let mut cx = Ctx::default();
                cx.hook = Some(&mut hook);
                (MENU[*q].iterb)(w, &mut cx);
                ev.borrow_mut().push("X".to_string());
            }
            Node::Cl => {
                ev.borrow_mut().push("A cl".to_string());
                let c = w.clone();
                tr.borrow_mut().push("cl+".to_string());
                drop(c);
                ev.borrow_mut().push("X".to_string());
            }
        }
    }
}

/// After the tree: every column of every archetype must be mutably borrowable again.
pub fn sweep(w: &Wa) -> bool {
    let mut ok = true;
    for a in 0..NARCH {
        let n = crate::dispatch!(a, A => <A as ArchX>::comps().len());
        for c in 0..n {
            let r = crate::dispatch!(a, A => guard(|| <A as ArchX>::with_borrow_slice(<A as ArchX>::of(w), c, true, &mut || {})));
            if r.is_err() {
                ok = false;
            }
        }
    }
    ok
}
