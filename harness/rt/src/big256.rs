//! C17 at the documented maximum of 256 archetypes (ids 0..=255): the world-level event iterators must
//! end with `None` (and stay finished) like for any other world.  Compiled only with the `events`
//! feature in builds with debug assertions (arithmetic overflow is checked there).  GENERATED list.
use crate::shapes::P1;
use gecs::prelude::*;

ecs_world! {
    ecs_name!(W256);
    ecs_archetype!(Z000, P1);
    ecs_archetype!(Z001, P1);
    ecs_archetype!(Z002, P1);
    ecs_archetype!(Z003, P1);
    ecs_archetype!(Z004, P1);
    ecs_archetype!(Z005, P1);
    ecs_archetype!(Z006, P1);
    ecs_archetype!(Z007, P1);
    ecs_archetype!(Z008, P1);
    ecs_archetype!(Z009, P1);
    ecs_archetype!(Z010, P1);
    ecs_archetype!(Z011, P1);
    ecs_archetype!(Z012, P1);
    ecs_archetype!(Z013, P1);
    ecs_archetype!(Z014, P1);
    ecs_archetype!(Z015, P1);
    ecs_archetype!(Z016, P1);
    ecs_archetype!(Z017, P1);
    ecs_archetype!(Z018, P1);
    ecs_archetype!(Z019, P1);
    ecs_archetype!(Z020, P1);
    ecs_archetype!(Z021, P1);
    ecs_archetype!(Z022, P1);
    ecs_archetype!(Z023, P1);
    ecs_archetype!(Z024, P1);
    ecs_archetype!(Z025, P1);
    ecs_archetype!(Z026, P1);
    ecs_archetype!(Z027, P1);
    ecs_archetype!(Z028, P1);
    ecs_archetype!(Z029, P1);
    ecs_archetype!(Z030, P1);
    ecs_archetype!(Z031, P1);
    ecs_archetype!(Z032, P1);
    ecs_archetype!(Z033, P1);
    ecs_archetype!(Z034, P1);
    ecs_archetype!(Z035, P1);
    ecs_archetype!(Z036, P1);
    ecs_archetype!(Z037, P1);
    ecs_archetype!(Z038, P1);
    ecs_archetype!(Z039, P1);
    ecs_archetype!(Z040, P1);
    ecs_archetype!(Z041, P1);
    ecs_archetype!(Z042, P1);
    ecs_archetype!(Z043, P1);
    ecs_archetype!(Z044, P1);
    ecs_archetype!(Z045, P1);
    ecs_archetype!(Z046, P1);
    ecs_archetype!(Z047, P1);
    ecs_archetype!(Z048, P1);
    ecs_archetype!(Z049, P1);
    ecs_archetype!(Z050, P1);
    ecs_archetype!(Z051, P1);
    ecs_archetype!(Z052, P1);
    ecs_archetype!(Z053, P1);
    ecs_archetype!(Z054, P1);
    ecs_archetype!(Z055, P1);
    ecs_archetype!(Z056, P1);
    ecs_archetype!(Z057, P1);
    ecs_archetype!(Z058, P1);
    ecs_archetype!(Z059, P1);
    ecs_archetype!(Z060, P1);
    ecs_archetype!(Z061, P1);
    ecs_archetype!(Z062, P1);
    ecs_archetype!(Z063, P1);
    ecs_archetype!(Z064, P1);
    ecs_archetype!(Z065, P1);
    ecs_archetype!(Z066, P1);
    ecs_archetype!(Z067, P1);
    ecs_archetype!(Z068, P1);
    ecs_archetype!(Z069, P1);
    ecs_archetype!(Z070, P1);
    ecs_archetype!(Z071, P1);
    ecs_archetype!(Z072, P1);
    ecs_archetype!(Z073, P1);
    ecs_archetype!(Z074, P1);
    ecs_archetype!(Z075, P1);
    ecs_archetype!(Z076, P1);
    ecs_archetype!(Z077, P1);
    ecs_archetype!(Z078, P1);
    ecs_archetype!(Z079, P1);
    ecs_archetype!(Z080, P1);
    ecs_archetype!(Z081, P1);
    ecs_archetype!(Z082, P1);
    ecs_archetype!(Z083, P1);
    ecs_archetype!(Z084, P1);
    ecs_archetype!(Z085, P1);
    ecs_archetype!(Z086, P1);
    ecs_archetype!(Z087, P1);
    ecs_archetype!(Z088, P1);
    ecs_archetype!(Z089, P1);
    ecs_archetype!(Z090, P1);
    ecs_archetype!(Z091, P1);
    ecs_archetype!(Z092, P1);
    ecs_archetype!(Z093, P1);
    ecs_archetype!(Z094, P1);
    ecs_archetype!(Z095, P1);
    ecs_archetype!(Z096, P1);
    ecs_archetype!(Z097, P1);
    ecs_archetype!(Z098, P1);
    ecs_archetype!(Z099, P1);
    ecs_archetype!(Z100, P1);
    ecs_archetype!(Z101, P1);
    ecs_archetype!(Z102, P1);
    ecs_archetype!(Z103, P1);
    ecs_archetype!(Z104, P1);
    ecs_archetype!(Z105, P1);
    ecs_archetype!(Z106, P1);
    ecs_archetype!(Z107, P1);
    ecs_archetype!(Z108, P1);
    ecs_archetype!(Z109, P1);
    ecs_archetype!(Z110, P1);
    ecs_archetype!(Z111, P1);
    ecs_archetype!(Z112, P1);
    ecs_archetype!(Z113, P1);
    ecs_archetype!(Z114, P1);
    ecs_archetype!(Z115, P1);
    ecs_archetype!(Z116, P1);
    ecs_archetype!(Z117, P1);
    ecs_archetype!(Z118, P1);
    ecs_archetype!(Z119, P1);
    ecs_archetype!(Z120, P1);
    ecs_archetype!(Z121, P1);
    ecs_archetype!(Z122, P1);
    ecs_archetype!(Z123, P1);
    ecs_archetype!(Z124, P1);
    ecs_archetype!(Z125, P1);
    ecs_archetype!(Z126, P1);
    ecs_archetype!(Z127, P1);
    ecs_archetype!(Z128, P1);
    ecs_archetype!(Z129, P1);
    ecs_archetype!(Z130, P1);
    ecs_archetype!(Z131, P1);
    ecs_archetype!(Z132, P1);
    ecs_archetype!(Z133, P1);
    ecs_archetype!(Z134, P1);
    ecs_archetype!(Z135, P1);
    ecs_archetype!(Z136, P1);
    ecs_archetype!(Z137, P1);
    ecs_archetype!(Z138, P1);
    ecs_archetype!(Z139, P1);
    ecs_archetype!(Z140, P1);
    ecs_archetype!(Z141, P1);
    ecs_archetype!(Z142, P1);
    ecs_archetype!(Z143, P1);
    ecs_archetype!(Z144, P1);
    ecs_archetype!(Z145, P1);
    ecs_archetype!(Z146, P1);
    ecs_archetype!(Z147, P1);
    ecs_archetype!(Z148, P1);
    ecs_archetype!(Z149, P1);
    ecs_archetype!(Z150, P1);
    ecs_archetype!(Z151, P1);
    ecs_archetype!(Z152, P1);
    ecs_archetype!(Z153, P1);
    ecs_archetype!(Z154, P1);
    ecs_archetype!(Z155, P1);
    ecs_archetype!(Z156, P1);
    ecs_archetype!(Z157, P1);
    ecs_archetype!(Z158, P1);
    ecs_archetype!(Z159, P1);
    ecs_archetype!(Z160, P1);
    ecs_archetype!(Z161, P1);
    ecs_archetype!(Z162, P1);
    ecs_archetype!(Z163, P1);
    ecs_archetype!(Z164, P1);
    ecs_archetype!(Z165, P1);
    ecs_archetype!(Z166, P1);
    ecs_archetype!(Z167, P1);
    ecs_archetype!(Z168, P1);
    ecs_archetype!(Z169, P1);
    ecs_archetype!(Z170, P1);
    ecs_archetype!(Z171, P1);
    ecs_archetype!(Z172, P1);
    ecs_archetype!(Z173, P1);
    ecs_archetype!(Z174, P1);
    ecs_archetype!(Z175, P1);
    ecs_archetype!(Z176, P1);
    ecs_archetype!(Z177, P1);
    ecs_archetype!(Z178, P1);
    ecs_archetype!(Z179, P1);
    ecs_archetype!(Z180, P1);
    ecs_archetype!(Z181, P1);
    ecs_archetype!(Z182, P1);
    ecs_archetype!(Z183, P1);
    ecs_archetype!(Z184, P1);
    ecs_archetype!(Z185, P1);
    ecs_archetype!(Z186, P1);
    ecs_archetype!(Z187, P1);
    ecs_archetype!(Z188, P1);
    ecs_archetype!(Z189, P1);
    ecs_archetype!(Z190, P1);
    ecs_archetype!(Z191, P1);
    ecs_archetype!(Z192, P1);
    ecs_archetype!(Z193, P1);
    ecs_archetype!(Z194, P1);
    ecs_archetype!(Z195, P1);
    ecs_archetype!(Z196, P1);
    ecs_archetype!(Z197, P1);
    ecs_archetype!(Z198, P1);
    ecs_archetype!(Z199, P1);
    ecs_archetype!(Z200, P1);
    ecs_archetype!(Z201, P1);
    ecs_archetype!(Z202, P1);
    ecs_archetype!(Z203, P1);
    ecs_archetype!(Z204, P1);
    ecs_archetype!(Z205, P1);
    ecs_archetype!(Z206, P1);
    ecs_archetype!(Z207, P1);
    ecs_archetype!(Z208, P1);
    ecs_archetype!(Z209, P1);
    ecs_archetype!(Z210, P1);
    ecs_archetype!(Z211, P1);
    ecs_archetype!(Z212, P1);
    ecs_archetype!(Z213, P1);
    ecs_archetype!(Z214, P1);
    ecs_archetype!(Z215, P1);
    ecs_archetype!(Z216, P1);
    ecs_archetype!(Z217, P1);
    ecs_archetype!(Z218, P1);
    ecs_archetype!(Z219, P1);
    ecs_archetype!(Z220, P1);
    ecs_archetype!(Z221, P1);
    ecs_archetype!(Z222, P1);
    ecs_archetype!(Z223, P1);
    ecs_archetype!(Z224, P1);
    ecs_archetype!(Z225, P1);
    ecs_archetype!(Z226, P1);
    ecs_archetype!(Z227, P1);
    ecs_archetype!(Z228, P1);
    ecs_archetype!(Z229, P1);
    ecs_archetype!(Z230, P1);
    ecs_archetype!(Z231, P1);
    ecs_archetype!(Z232, P1);
    ecs_archetype!(Z233, P1);
    ecs_archetype!(Z234, P1);
    ecs_archetype!(Z235, P1);
    ecs_archetype!(Z236, P1);
    ecs_archetype!(Z237, P1);
    ecs_archetype!(Z238, P1);
    ecs_archetype!(Z239, P1);
    ecs_archetype!(Z240, P1);
    ecs_archetype!(Z241, P1);
    ecs_archetype!(Z242, P1);
    ecs_archetype!(Z243, P1);
    ecs_archetype!(Z244, P1);
    ecs_archetype!(Z245, P1);
    ecs_archetype!(Z246, P1);
    ecs_archetype!(Z247, P1);
    ecs_archetype!(Z248, P1);
    ecs_archetype!(Z249, P1);
    ecs_archetype!(Z250, P1);
    ecs_archetype!(Z251, P1);
    ecs_archetype!(Z252, P1);
    ecs_archetype!(Z253, P1);
    ecs_archetype!(Z254, P1);
    ecs_archetype!(Z255, P1);
}

fn drain<'a>(mut it: impl Iterator<Item = &'a EntityAny>) -> (usize, bool, bool) {
    let mut n = 0usize;
    let mut exact = true;
    loop {
        let (lo, hi) = it.size_hint();
        match it.next() {
            Some(_) => {
                if hi != Some(lo) { exact = false; }
                n += 1;
            }
            None => {
                if (lo, hi) != (0, Some(0)) { exact = false; }
                break;
            }
        }
    }
    // a finished iterator stays finished
    let stays = it.next().is_none() && it.next().is_none();
    (n, exact, stays)
}

pub fn run() {
    let r = crate::guard(|| {
        let mut w = W256::new();
        let a = w.create::<Z000>((P1(1),));
        let _b = w.create::<Z128>((P1(2),));
        let _c = w.create::<Z255>((P1(3),));
        w.destroy(a);
        let c = drain(w.iter_created());
        let d = drain(w.iter_destroyed());
        w.clear_events();
        let e = drain(w.iter_created());
        (c, d, e)
    });
    match r {
        Ok((c, d, e)) => println!("E5 n_arch={} created={} destroyed={} after_clear={} hints_exact={} finished_stays_finished={}", <W256 as World>::NUM_ARCHETYPES, c.0, d.0, e.0, (c.1 && d.1 && e.1) as u8, (c.2 && d.2 && e.2) as u8),
        Err(m) => println!("E5 panic {}", m),
    }
}
