//! Instrumented component types.  Every value carries a token id and a mutable payload;
//! `Clone` and `Drop` report to a thread-local registry, which is the oracle for
//! "dropped exactly once / cloned exactly once" (C04) independent of any model.

use std::cell::RefCell;
use std::collections::HashSet;

#[derive(Default)]
pub struct Reg {
    pub next_clone_id: u64,
    pub live: HashSet<u64>,
    pub drops: Vec<u64>,
    pub zdrops: u64,
    pub internal: Vec<u64>,
    pub zinternal: u64,
    pub clones: Vec<(u64, u64)>,
    pub zclones: u64,
    pub zlive: i64,
    /// registry-level failures (double drop, drop of unknown token, corrupted heap payload)
    pub errors: Vec<String>,
    /// panic at the k-th Clone::clone / Drop::drop from now (0 = next one)
    pub clone_fault: Option<u64>,
    pub drop_fault: Option<u64>,
}

thread_local! {
    pub static REG: RefCell<Reg> = RefCell::new(Reg { next_clone_id: 1_000_000, ..Default::default() });
}

pub fn reg_reset() {
    REG.with(|r| {
        *r.borrow_mut() = Reg {
            next_clone_id: 1_000_000,
            ..Default::default()
        }
    });
}

pub fn reg_make(id: u64) {
    REG.with(|r| {
        let mut r = r.borrow_mut();
        if !r.live.insert(id) {
            r.errors.push(format!("token {} made twice", id));
        }
    });
}

fn reg_clone(src: u64) -> u64 {
    let fault = REG.with(|r| {
        let mut r = r.borrow_mut();
        match r.clone_fault {
            Some(0) => {
                r.clone_fault = None;
                true
            }
            Some(k) => {
                r.clone_fault = Some(k - 1);
                false
            }
            None => false,
        }
    });
    if fault {
        panic!("injected clone fault");
    }
    REG.with(|r| {
        let mut r = r.borrow_mut();
        let id = r.next_clone_id;
        r.next_clone_id += 1;
        if !r.live.contains(&src) {
            r.errors.push(format!("clone of dead token {}", src));
        }
        r.live.insert(id);
        r.clones.push((src, id));
        id
    })
}

fn reg_drop(id: u64) {
    let fault = REG.with(|r| {
        let mut r = r.borrow_mut();
        if !r.live.remove(&id) {
            r.errors.push(format!("double drop or drop of unknown token {}", id));
        }
        r.drops.push(id);
        match r.drop_fault {
            Some(0) => {
                r.drop_fault = None;
                true
            }
            Some(k) => {
                r.drop_fault = Some(k - 1);
                false
            }
            None => false,
        }
    });
    if fault && !std::thread::panicking() {
        panic!("injected drop fault");
    }
}

pub fn reg_error(msg: String) {
    REG.with(|r| r.borrow_mut().errors.push(msg));
}

pub trait Comp: Sized {
    const ZST: bool = false;
    fn make(id: u64, val: u64) -> Self;
    fn id(&self) -> u64;
    fn val(&self) -> u64;
    fn set_val(&mut self, v: u64);
}

macro_rules! plain_comp {
    ($name:ident, $idty:ty, $(#[$attr:meta])*) => {
        $(#[$attr])*
        pub struct $name {
            id: $idty,
            val: u32,
        }
        impl Comp for $name {
            fn make(id: u64, val: u64) -> Self {
                reg_make(id);
                Self { id: id as $idty, val: val as u32 }
            }
            fn id(&self) -> u64 { self.id as u64 }
            fn val(&self) -> u64 { self.val as u64 }
            fn set_val(&mut self, v: u64) { self.val = v as u32; }
        }
        impl Clone for $name {
            fn clone(&self) -> Self {
                let id = reg_clone(self.id as u64);
                Self { id: id as $idty, val: self.val }
            }
        }
        impl Drop for $name {
            fn drop(&mut self) { reg_drop(self.id as u64); }
        }
    };
}

// align 4, size 8
plain_comp!(Ca, u32,);
// align 16
plain_comp!(Cw, u64, #[repr(align(16))]);
// align 8, size 16
plain_comp!(Da, u64,);
plain_comp!(Db, u64,);
plain_comp!(Dc, u64,);
plain_comp!(Dd, u64,);
plain_comp!(De, u64,);
plain_comp!(Df, u64,);
plain_comp!(Dg, u64,);
plain_comp!(Dh, u64,);
plain_comp!(Di, u64,);
plain_comp!(Dj, u64,);
plain_comp!(Dk, u64,);
plain_comp!(Dl, u64,);
#[cfg(feature = "32_components")]
mod more {
    use super::*;
    plain_comp!(Ga, u64,);
    plain_comp!(Gb, u64,);
    plain_comp!(Gc, u64,);
    plain_comp!(Gd, u64,);
    plain_comp!(Ge, u64,);
    plain_comp!(Gf, u64,);
    plain_comp!(Gg, u64,);
    plain_comp!(Gh, u64,);
    plain_comp!(Gi, u64,);
    plain_comp!(Gj, u64,);
    plain_comp!(Gk, u64,);
    plain_comp!(Gl, u64,);
    plain_comp!(Gm, u64,);
    plain_comp!(Gn, u64,);
    plain_comp!(Go, u64,);
    plain_comp!(Gp, u64,);
}
#[cfg(feature = "32_components")]
pub use more::*;

/// align 1, size 13
pub struct Cb {
    id: [u8; 8],
    val: [u8; 4],
    _b: u8,
}
impl Comp for Cb {
    fn make(id: u64, val: u64) -> Self {
        reg_make(id);
        Self { id: id.to_le_bytes(), val: (val as u32).to_le_bytes(), _b: 0xB }
    }
    fn id(&self) -> u64 { u64::from_le_bytes(self.id) }
    fn val(&self) -> u64 { u32::from_le_bytes(self.val) as u64 }
    fn set_val(&mut self, v: u64) { self.val = (v as u32).to_le_bytes(); }
}
impl Clone for Cb {
    fn clone(&self) -> Self {
        let id = reg_clone(self.id());
        Self { id: id.to_le_bytes(), val: self.val, _b: 0xB }
    }
}
impl Drop for Cb {
    fn drop(&mut self) { reg_drop(self.id()); }
}

/// align 1, size 5 (u32 token ids only)
pub struct Cp {
    id: [u8; 4],
    val: u8,
}
impl Comp for Cp {
    fn make(id: u64, val: u64) -> Self {
        reg_make(id);
        Self { id: (id as u32).to_le_bytes(), val: val as u8 }
    }
    fn id(&self) -> u64 { u32::from_le_bytes(self.id) as u64 }
    fn val(&self) -> u64 { self.val as u64 }
    fn set_val(&mut self, v: u64) { self.val = v as u8; }
}
impl Clone for Cp {
    fn clone(&self) -> Self {
        let id = reg_clone(self.id());
        Self { id: (id as u32).to_le_bytes(), val: self.val }
    }
}
impl Drop for Cp {
    fn drop(&mut self) { reg_drop(self.id()); }
}

/// heap-owning: the payload must still say which token it belongs to when it is dropped
pub struct Ch {
    id: u64,
    val: u32,
    s: String,
    b: Box<u64>,
}
impl Comp for Ch {
    fn make(id: u64, val: u64) -> Self {
        reg_make(id);
        Self { id, val: val as u32, s: format!("tok{}", id), b: Box::new(id ^ 0x5a5a) }
    }
    fn id(&self) -> u64 {
        if self.s != format!("tok{}", self.id) || *self.b != self.id ^ 0x5a5a {
            reg_error(format!("heap payload of token {} corrupted", self.id));
        }
        self.id
    }
    fn val(&self) -> u64 { self.val as u64 }
    fn set_val(&mut self, v: u64) { self.val = v as u32; }
}
impl Clone for Ch {
    fn clone(&self) -> Self {
        let id = reg_clone(self.id());
        Self { id, val: self.val, s: format!("tok{}", id), b: Box::new(id ^ 0x5a5a) }
    }
}
impl Drop for Ch {
    fn drop(&mut self) {
        let id = self.id();
        reg_drop(id);
    }
}

/// zero-sized with Drop: only counts
pub struct Cz;
impl Comp for Cz {
    const ZST: bool = true;
    fn make(_id: u64, _val: u64) -> Self {
        REG.with(|r| r.borrow_mut().zlive += 1);
        Cz
    }
    fn id(&self) -> u64 { 0 }
    fn val(&self) -> u64 { 0 }
    fn set_val(&mut self, _v: u64) {}
}
impl Clone for Cz {
    fn clone(&self) -> Self {
        REG.with(|r| {
            let mut r = r.borrow_mut();
            r.zclones += 1;
            r.zlive += 1;
        });
        Cz
    }
}
impl Drop for Cz {
    fn drop(&mut self) {
        REG.with(|r| {
            let mut r = r.borrow_mut();
            r.zdrops += 1;
            r.zlive -= 1;
            if r.zlive < 0 {
                r.errors.push("more zero-sized drops than values".to_string());
            }
        });
    }
}
