//! The query menu: statically compiled invocations of the five real query macros with
//! scripted, logging closures.  Each entry also carries the textual parameter list that
//! the model binds with its own `bindQueryParams` (so a wrong match set shows as a
//! different call log).

#![allow(unused_variables)]

use crate::comps::*;
use crate::world::*;
use gecs::prelude::*;

pub const MOD: u64 = 251;

#[derive(Default)]
pub struct Ctx<'h> {
    /// called at the end of every closure call, while the call's arguments are still held
    pub hook: Option<&'h mut dyn FnMut(&str)>,
    pub calls: Vec<String>,
    cur: Vec<String>,
    pub n: usize,
    pub brk: Option<usize>,
    pub pan: Option<usize>,
    pub add: u64,
    pub decisions: Vec<u8>,
    pub last_dir: Option<EntityDirectAny>,
    pub dirs: Vec<EntityDirectAny>,
    /// set by the statement that FOLLOWS the query macro in the same function: a query that ends
    /// (Break included) must give control back to its caller, not leave the enclosing function
    pub after: bool,
}

pub fn fmt_any(e: EntityAny) -> String {
    let (k, v) = e.raw();
    format!("{}.{}", k, v)
}

/// EntityDirectAny has no raw(): recover the words from its Display form "(id, Didx, ver)".
pub fn dir_words(d: EntityDirectAny) -> (u64, u64) {
    let s = format!("{}", d);
    let t: Vec<&str> = s.trim_matches(|c| c == '(' || c == ')').split(", ").collect();
    let id: u64 = t[0].parse().unwrap();
    let idx: u64 = t[1][1..].parse().unwrap();
    let ver: u64 = t[2].parse().unwrap();
    ((idx << 8) | id, ver)
}

pub fn fmt_dir(d: EntityDirectAny) -> String {
    let (k, v) = dir_words(d);
    format!("{}.{}", k, v)
}

impl<'h> Ctx<'h> {
    pub fn begin(&mut self) {
        self.cur.clear();
    }
    /// shared component parameter
    pub fn c<C: Comp>(&mut self, x: &C) {
        self.cur.push(format!("c{}.{}", x.id(), x.val()));
    }
    /// mutable component parameter: log what was received, then write
    pub fn m<C: Comp>(&mut self, x: &mut C) {
        self.cur.push(format!("c{}.{}", x.id(), x.val()));
        if self.add > 0 && !C::ZST {
            x.set_val((x.val() + self.add) % MOD);
        }
    }
    pub fn e<E: Into<EntityAny> + Copy>(&mut self, e: &E) {
        self.cur.push(format!("e{}", fmt_any((*e).into())));
    }
    pub fn d<D: Into<EntityDirectAny> + Copy>(&mut self, d: &D) {
        let d: EntityDirectAny = (*d).into();
        self.last_dir = Some(d);
        self.dirs.push(d);
        self.cur.push(format!("d{}", fmt_dir(d)));
    }
    fn end(&mut self) -> usize {
        self.calls.push(self.cur.join(","));
        let k = self.n;
        self.n += 1;
        if let Some(h) = self.hook.as_mut() {
            let last = self.calls.last().cloned().unwrap_or_default();
            (*h)(&last);
        }
        if self.pan == Some(k) {
            panic!("injected closure fault");
        }
        k
    }
    pub fn step(&mut self) -> EcsStep {
        let k = self.end();
        if self.brk == Some(k) {
            EcsStep::Break
        } else {
            EcsStep::Continue
        }
    }
    pub fn step4(&mut self) -> EcsStepDestroy {
        let k = self.end();
        match self.decisions.get(k).copied().unwrap_or(b'c') {
            b'b' => EcsStepDestroy::Break,
            b'd' => EcsStepDestroy::ContinueDestroy,
            b'x' => EcsStepDestroy::BreakDestroy,
            _ => EcsStepDestroy::Continue,
        }
    }
    pub fn unit(&mut self) {
        self.end();
    }
}

pub struct QDesc {
    pub name: &'static str,
    pub params: &'static str,
    pub iter: fn(&mut Wa, &mut Ctx),
    pub iterb: fn(&Wa, &mut Ctx),
    pub iterd: fn(&mut Wa, &mut Ctx),
    pub iterds: fn(&mut Wa, &mut Ctx),
    pub find_any: fn(&mut Wa, EntityAny, &mut Ctx) -> Option<()>,
    pub find_dirany: fn(&mut Wa, EntityDirectAny, &mut Ctx) -> Option<()>,
    pub find_ent: fn(&mut Wa, usize, EntityAny, &mut Ctx) -> Option<()>,
    pub find_dir: fn(&mut Wa, usize, EntityDirectAny, &mut Ctx) -> Option<()>,
    pub findb_any: fn(&Wa, EntityAny, &mut Ctx) -> Option<()>,
    pub findb_dirany: fn(&Wa, EntityDirectAny, &mut Ctx) -> Option<()>,
    pub findb_ent: fn(&Wa, usize, EntityAny, &mut Ctx) -> Option<()>,
    pub findb_dir: fn(&Wa, usize, EntityDirectAny, &mut Ctx) -> Option<()>,
}

macro_rules! defq {
    ($name:ident, $desc:expr, $ctx:ident, ($($params:tt)*), $body:block) => {
        pub mod $name {
            use super::*;
            pub fn iter(w: &mut Wa, $ctx: &mut Ctx) {
                ecs_iter!(w, |$($params)*| { $ctx.begin(); $body; $ctx.step() });
                $ctx.after = true;
            }
            pub fn iterb(w: &Wa, $ctx: &mut Ctx) {
                ecs_iter_borrow!(w, |$($params)*| { $ctx.begin(); $body; $ctx.step() });
                $ctx.after = true;
            }
            pub fn iterd(w: &mut Wa, $ctx: &mut Ctx) {
                ecs_iter_destroy!(w, |$($params)*| { $ctx.begin(); $body; $ctx.step4() });
                $ctx.after = true;
            }
            /// ecs_iter_destroy! with a closure whose return type is plain `EcsStep`
            pub fn iterds(w: &mut Wa, $ctx: &mut Ctx) {
                ecs_iter_destroy!(w, |$($params)*| { $ctx.begin(); $body; $ctx.step() });
                $ctx.after = true;
            }
            pub fn find_any(w: &mut Wa, k: EntityAny, $ctx: &mut Ctx) -> Option<()> {
                ecs_find!(w, k, |$($params)*| { $ctx.begin(); $body; $ctx.unit() })
            }
            pub fn find_dirany(w: &mut Wa, k: EntityDirectAny, $ctx: &mut Ctx) -> Option<()> {
                ecs_find!(w, k, |$($params)*| { $ctx.begin(); $body; $ctx.unit() })
            }
            pub fn find_ent(w: &mut Wa, a: usize, k: EntityAny, $ctx: &mut Ctx) -> Option<()> {
                crate::dispatch!(a, A => {
                    let k = Entity::<A>::from_any_unchecked(k);
                    ecs_find!(w, k, |$($params)*| { $ctx.begin(); $body; $ctx.unit() })
                })
            }
            pub fn find_dir(w: &mut Wa, a: usize, k: EntityDirectAny, $ctx: &mut Ctx) -> Option<()> {
                crate::dispatch!(a, A => {
                    let k = EntityDirect::<A>::from_any_unchecked(k);
                    ecs_find!(w, k, |$($params)*| { $ctx.begin(); $body; $ctx.unit() })
                })
            }
            pub fn findb_any(w: &Wa, k: EntityAny, $ctx: &mut Ctx) -> Option<()> {
                ecs_find_borrow!(w, k, |$($params)*| { $ctx.begin(); $body; $ctx.unit() })
            }
            pub fn findb_dirany(w: &Wa, k: EntityDirectAny, $ctx: &mut Ctx) -> Option<()> {
                ecs_find_borrow!(w, k, |$($params)*| { $ctx.begin(); $body; $ctx.unit() })
            }
            pub fn findb_ent(w: &Wa, a: usize, k: EntityAny, $ctx: &mut Ctx) -> Option<()> {
                crate::dispatch!(a, A => {
                    let k = Entity::<A>::from_any_unchecked(k);
                    ecs_find_borrow!(w, k, |$($params)*| { $ctx.begin(); $body; $ctx.unit() })
                })
            }
            pub fn findb_dir(w: &Wa, a: usize, k: EntityDirectAny, $ctx: &mut Ctx) -> Option<()> {
                crate::dispatch!(a, A => {
                    let k = EntityDirect::<A>::from_any_unchecked(k);
                    ecs_find_borrow!(w, k, |$($params)*| { $ctx.begin(); $body; $ctx.unit() })
                })
            }
            pub const DESC: QDesc = QDesc {
                name: stringify!($name), params: $desc,
                iter, iterb, iterd, iterds, find_any, find_dirany, find_ent, find_dir,
                findb_any, findb_dirany, findb_ent, findb_dir,
            };
        }
    };
}

// Parameter descriptors: C:<Comp> shared, M:<Comp> mutable, E:<Arch> / E:_ / EA,
// D:<Arch> / D:_ / DA, O:<c1>,<c2>.. OneOf shared, OM:.. OneOf mutable.
defq!(q0, "C:Ca", cx, (ca: &Ca), { cx.c(ca) });
defq!(q1, "M:Ca;E:_", cx, (ca: &mut Ca, e: &Entity<_>), { cx.m(ca); cx.e(e) });
defq!(q2, "EA;M:Cw", cx, (e: &EntityAny, cw: &mut Cw), { cx.e(e); cx.m(cw) });
defq!(q3, "D:_;C:Cp;M:Ch", cx, (d: &EntityDirect<_>, cp: &Cp, ch: &mut Ch), { cx.d(d); cx.c(cp); cx.m(ch) });
defq!(q4, "E:Ac;C:Ch;D:Ac", cx, (e: &Entity<Ac>, ch: &Ch, d: &EntityDirect<Ac>), { cx.e(e); cx.c(ch); cx.d(d) });
defq!(q5, "DA;O:Cb,Cz", cx, (d: &EntityDirectAny, o: &OneOf<Cb, Cz>), { cx.d(d); cx.c(o) });
defq!(q6, "OM:Cw,Da;EA", cx, (o: &mut OneOf<Cw, Da>, e: &EntityAny), { cx.m(o); cx.e(e) });
defq!(q7, "E:Aa;M:Ca", cx, (e: &Entity<Aa>, ca: &mut Ca), { cx.e(e); cx.m(ca) });
defq!(q8, "D:Ae;M:Dk;C:Cb", cx, (d: &EntityDirect<Ae>, dk: &mut Dk, cb: &Cb), { cx.d(d); cx.m(dk); cx.c(cb) });
defq!(q9, "E:_;D:_", cx, (e: &Entity<_>, d: &EntityDirect<_>), { cx.e(e); cx.d(d) });

pub const MENU: &[QDesc] = &[
    q0::DESC, q1::DESC, q2::DESC, q3::DESC, q4::DESC, q5::DESC, q6::DESC, q7::DESC, q8::DESC, q9::DESC,
];
