//! C12: the real 2^24 boundary on the implementation alone (the list model is not run at
//! 2^24 elements); the observations are compared with the closed-form predictions of the
//! C12 theorems by tools/engine.py.

use crate::guard;
use gecs::prelude::*;

pub struct Plain(pub u32);

ecs_world! {
    ecs_name!(Wc);
    ecs_archetype!(Big, Plain);
}

const MAX: usize = 1 << 24;

pub fn run() {
    // B1: with_capacity beyond the limit panics
    let r = guard(|| Wc::with_capacity(WcCapacity { big: MAX + 1 }));
    println!("B1 {}", match r { Ok(_) => "ok".to_string(), Err(c) => format!("panic {}", c) });
    // B2: with_capacity(n) permits n creations without reallocation, then refuses
    let half = MAX / 2;
    let mut w = Wc::with_capacity(WcCapacity { big: half });
    let mut filled = 0usize;
    let mut cap_changed = false;
    for i in 0..half {
        match w.big.create_within_capacity((Plain(i as u32),)) {
            Ok(_) => filled += 1,
            Err(_) => break,
        }
        if w.big.capacity() != half {
            cap_changed = true;
        }
    }
    let extra = w.big.create_within_capacity((Plain(7),)).is_err();
    println!("B2 filled={} cap={} cap_changed={} extra_refused={}", filled, w.big.capacity(), cap_changed as u8, extra as u8);
    // B3: create below the limit succeeds and grows strictly, within the limit
    let before = w.big.capacity();
    let r = guard(|| w.big.create((Plain(8),)));
    println!("B3 {} grew={} within={} len={}", if r.is_ok() { "ok" } else { "panic" }, (w.big.capacity() > before) as u8, (w.big.capacity() <= MAX) as u8, w.big.len());
    // B4: create always succeeds below 2^24; capacity monotone and >= len
    let mut monotone = true;
    let mut failed_at: i64 = -1;
    let mut last_cap = w.big.capacity();
    let mut mid: Option<Entity<Big>> = None;
    while w.big.len() < MAX {
        let n = w.big.len();
        match guard(|| w.big.create((Plain(n as u32),))) {
            Ok(e) => {
                if n == MAX - 1000 {
                    mid = Some(e);
                }
            }
            Err(_) => {
                failed_at = n as i64;
                break;
            }
        }
        if w.big.capacity() < last_cap || w.big.capacity() < w.big.len() {
            monotone = false;
        }
        last_cap = w.big.capacity();
    }
    println!("B4 len={} cap={} monotone={} failed_at={}", w.big.len(), w.big.capacity(), monotone as u8, failed_at);
    // B5: at the limit create panics without corrupting anything
    let (l0, c0) = (w.big.len(), w.big.capacity());
    let r = guard(|| w.big.create((Plain(9),)));
    println!("B5 {} len_same={} cap_same={}", match r { Ok(_) => "ok".to_string(), Err(c) => format!("panic {}", c) }, (w.big.len() == l0) as u8, (w.big.capacity() == c0) as u8);
    // B6: a freed position is reusable at the limit
    let mut reuse = "skipped".to_string();
    if let Some(e) = mid {
        let d = w.big.destroy(e).is_some();
        let l1 = w.big.len();
        let c = w.big.create_within_capacity((Plain(10),)).is_ok();
        reuse = format!("destroyed={} len_after_destroy={} refilled={} len={} contains_old={}", d as u8, l1, c as u8, w.big.len(), w.big.contains(e) as u8);
    }
    println!("B6 {}", reuse);
    drop(w);
    // B7: growth from the default (empty) world all the way to the limit
    let mut w = Wc::new();
    let mut failed_at: i64 = -1;
    let mut monotone = true;
    let mut last_cap = 0usize;
    let mut growths = 0usize;
    while w.big.len() < MAX {
        let n = w.big.len();
        if guard(|| w.big.create((Plain(n as u32),))).is_err() {
            failed_at = n as i64;
            break;
        }
        if w.big.capacity() < last_cap || w.big.capacity() < w.big.len() || w.big.capacity() > MAX {
            monotone = false;
        }
        if w.big.capacity() != last_cap {
            growths += 1;
        }
        last_cap = w.big.capacity();
    }
    println!("B7 len={} cap={} monotone={} failed_at={} growths_ge1={}", w.big.len(), w.big.capacity(), monotone as u8, failed_at, (growths >= 1) as u8);
}
