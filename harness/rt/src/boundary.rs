//! C12: the real 2^24 boundary on the implementation alone (the list model is not run at
//! 2^24 elements); the observations are compared with the closed-form predictions of the
//! C12 theorems by tools/engine.py.

use crate::guard;
use gecs::prelude::*;

pub struct Plain(pub u32);

ecs_world! {
    ecs_name!(Wc);
    ecs_archetype!(Big, Plain);
}

const MAX: usize = 1 << 24;

pub fn run() {
    // B1: with_capacity beyond the limit panics
    let r = guard(|| Wc::with_capacity(WcCapacity { big: MAX + 1 }));
    println!("B1 {}", match r { Ok(_) => "ok".to_string(), Err(c) => format!("panic {}", c) });
    // B2: with_capacity(n) permits n creations without reallocation, then refuses
    let half = MAX / 2;
    let mut w = Wc::with_capacity(WcCapacity { big: half });
    let mut filled = 0usize;
    let mut cap_changed = false;
    for i in 0..half {
        match w.big.create_within_capacity((Plain(i as u32),)) {
            Ok(_) => filled += 1,
            Err(_) => break,
        }
        if w.big.capacity() != half {
            cap_changed = true;
        }
    }
    let extra = w.big.create_within_capacity((Plain(7),)).is_err();
    println!("B2 filled={} cap={} cap_changed={} extra_refused={}", filled, w.big.capacity(), cap_changed as u8, extra as u8);
    // B3: create below the limit succeeds and grows strictly, within the limit
    let before = w.big.capacity();
    let r = guard(|| w.big.create((Plain(8),)));
    println!("B3 {} grew={} within={} len={}", if r.is_ok() { "ok" } else { "panic" }, (w.big.capacity() > before) as u8, (w.big.capacity() <= MAX) as u8, w.big.len());
    // B4: create always succeeds below 2^24; capacity monotone and >= len
    let mut monotone = true;
    let mut failed_at: i64 = -1;
    let mut last_cap = w.big.capacity();
    let mut mid: Option<Entity<Big>> = None;
    while w.big.len() < MAX {
        let n = w.big.len();
        match guard(|| w.big.create((Plain(n as u32),))) {
            Ok(e) => {
                if n == MAX - 1000 {
                    mid = Some(e);
                }
            }
            Err(_) => {
                failed_at = n as i64;
                break;
            }
        }
        if w.big.capacity() < last_cap || w.big.capacity() < w.big.len() {
            monotone = false;
        }
        last_cap = w.big.capacity();
    }
    println!("B4 len={} cap={} monotone={} failed_at={}", w.big.len(), w.big.capacity(), monotone as u8, failed_at);
    // B5: at the limit create panics without corrupting anything
    let (l0, c0) = (w.big.len(), w.big.capacity());
    let first5 = w.big.entities().first().copied();
    let r = guard(|| w.big.create((Plain(9),)));
    println!("B5 {} len_same={} cap_same={}", match r { Ok(e) => format!("ok dup_of_first={}", (Some(e) == first5) as u8), Err(c) => format!("panic {}", c) }, (w.big.len() == l0) as u8, (w.big.capacity() == c0) as u8);
    // B8 (C08): whatever the extra create does, it must not hand out a handle that is already alive
    let first = w.big.entities().first().copied();
    let extra = guard(|| w.big.create((Plain(11),)));
    match (extra, first) {
        (Ok(e), Some(f)) => println!("B8 extra_create=ok dup_of_first={} len={}", (e == f) as u8, w.big.len()),
        (Ok(_), None) => println!("B8 extra_create=ok dup_of_first=0 len={}", w.big.len()),
        (Err(c), _) => println!("B8 extra_create=panic:{} dup_of_first=0 len={}", c, w.big.len()),
    }
    // B6: a freed position is reusable at the limit
    let mut reuse = "skipped".to_string();
    if let Some(e) = mid {
        let d = w.big.destroy(e).is_some();
        let l1 = w.big.len();
        let c = w.big.create_within_capacity((Plain(10),)).is_ok();
        reuse = format!("destroyed={} len_after_destroy={} refilled={} len={} contains_old={}", d as u8, l1, c as u8, w.big.len(), w.big.contains(e) as u8);
    }
    println!("B6 {}", reuse);
    drop(w);
    // B9: an initial capacity of exactly 2^24 is legal
    let r = guard(|| Wc::with_capacity(WcCapacity { big: MAX }));
    match r {
        Ok(mut w9) => {
            let ok = w9.big.create_within_capacity((Plain(1),)).is_ok();
            println!("B9 ok cap={} within={}", w9.big.capacity(), ok as u8);
        }
        Err(c) => println!("B9 panic {}", c),
    }
    // B10: "from all initial capacities": worlds created just below the limit (and at an odd
    // capacity no doubling step ever produces) are filled, must still grow to exactly 2^24
    // entities, and only then refuse
    for (i, c0) in [MAX - 1, MAX - 2, MAX - 7, 3 * (MAX / 4) + 1].into_iter().enumerate() {
        let r = guard(|| Wc::with_capacity(WcCapacity { big: c0 }));
        match r {
            Ok(mut w) => {
                let mut failed_at: i64 = -1;
                let mut within_ok = true;
                while w.big.len() < MAX {
                    let n = w.big.len();
                    if n < c0 {
                        if w.big.create_within_capacity((Plain(n as u32),)).is_err() {
                            within_ok = false;
                            break;
                        }
                    } else if guard(|| w.big.create((Plain(n as u32),))).is_err() {
                        failed_at = n as i64;
                        break;
                    }
                }
                let extra = guard(|| w.big.create((Plain(1),)));
                println!("B10.{} cap0_below_max={} within_ok={} len={} cap={} failed_at={} extra={}", i, MAX - c0, within_ok as u8, w.big.len(), w.big.capacity(), failed_at,
                    match extra { Ok(_) => "ok".to_string(), Err(c) => format!("panic:{}", c) });
            }
            Err(c) => println!("B10.{} cap0_below_max={} with_capacity panic {}", i, MAX - c0, c),
        }
    }
    // B7: growth from the default (empty) world all the way to the limit
    let mut w = Wc::new();
    let mut failed_at: i64 = -1;
    let mut monotone = true;
    let mut last_cap = 0usize;
    let mut growths = 0usize;
    let mut issued: Vec<u64> = Vec::with_capacity(MAX);
    while w.big.len() < MAX {
        let n = w.big.len();
        match guard(|| w.big.create((Plain(n as u32),))) {
            Ok(e) => {
                let (k, v) = e.into_any().raw();
                issued.push(((k as u64) << 32) | v as u64);
            }
            Err(_) => {
                failed_at = n as i64;
                break;
            }
        }
        if w.big.capacity() < last_cap || w.big.capacity() < w.big.len() || w.big.capacity() > MAX {
            monotone = false;
        }
        if w.big.capacity() != last_cap {
            growths += 1;
        }
        last_cap = w.big.capacity();
    }
    println!("B7 len={} cap={} monotone={} failed_at={} growths_ge1={}", w.big.len(), w.big.capacity(), monotone as u8, failed_at, (growths >= 1) as u8);
    // B12 (C08): the 2^24 handles issued on the way are pairwise distinct, and a handle from the
    // upper half of the range leads to its own entity
    let n_issued = issued.len();
    let probe_ok = {
        let mut ok = true;
        for &i in &[0usize, 1, 65_535, 65_536, 65_537, (1 << 20) + 3, (1 << 23) + 1, MAX - 1] {
            if i < n_issued {
                let raw = issued[i];
                if let Ok(e) = EntityAny::from_raw(((raw >> 32) as u32, raw as u32)) {
                    if w.big.view(e).map(|v| v.component::<Plain>().0) != Some(i as u32) {
                        ok = false;
                    }
                } else {
                    ok = false;
                }
            }
        }
        ok
    };
    issued.sort_unstable();
    let dups = issued.windows(2).filter(|p| p[0] == p[1]).count();
    let first_dup = issued.windows(2).find(|p| p[0] == p[1]).map(|p| format!("{}.{}", p[0] >> 32, p[0] & 0xffff_ffff)).unwrap_or("-".into());
    drop(issued);
    println!("B12 issued={} duplicates={} first={} own_entity={}", n_issued, dups, first_dup, probe_ok as u8);
    drop(w);
    // B11: every world of this run has been dropped; no array was resized or released with a
    // layout that is not its own (harness/alloc_check), whatever panicked on the way
    println!("B11 alloc={}", match alloc_check::take() { None => "0".to_string(), Some(m) => format!("1 {}", m) });
}

/// C08 / C10 / C19: the generation boundary reached with 2^32 - 1 REAL create/destroy cycles on one
/// position (no hook).  Lines Y1..Y3 are compared by tools/engine.py with what the theorems
/// predict for the build's `wrapping_version` setting.
pub fn cycles() {
    let wrapping = cfg!(feature = "wrapping_version");
    let mut w = Wc::with_capacity(WcCapacity { big: 1 });
    let first = w.big.create((Plain(0),));
    let mut e = first;
    let mut monotone = true;
    let mut same_key = true;
    let mut cycles: u64 = 0;
    // generations 1 .. 2^32-1: 2^32-2 destroys that must neither panic nor wrap
    while e.into_any().raw().1 != u32::MAX {
        let v = e.into_any().raw().1;
        if w.big.destroy(e).is_none() {
            monotone = false;
            break;
        }
        let n = w.big.create((Plain(v),));
        if n.into_any().raw().1 != v + 1 {
            monotone = false;
        }
        if n.into_any().raw().0 != first.into_any().raw().0 {
            same_key = false;
        }
        e = n;
        cycles += 1;
    }
    println!("Y1 cycles={} last_version={} monotone={} same_position={} first_dead={}", cycles, e.into_any().raw().1, monotone as u8, same_key as u8, (!w.big.contains(first)) as u8);
    // the destroy at generation 2^32-1
    let r = guard(|| w.big.destroy(e).is_some());
    let (len, alive) = (w.big.len(), w.big.contains(e));
    println!("Y2 {} len={} still_alive={} wrapping={}", match r { Ok(b) => format!("ok destroyed={}", b as u8), Err(c) => format!("panic {}", c) }, len, alive as u8, wrapping as u8);
    // afterwards the world is usable: without wrapping the entity is simply still there; with
    // wrapping the next handle on this position carries the start generation again
    if alive {
        let v = w.big.view(e).map(|v| v.component::<Plain>().0);
        println!("Y3 view={:?} iter_count={}", v, w.big.iter().count());
    } else {
        let n = w.big.create((Plain(5),));
        println!("Y3 next_version={} equals_first={} old_max_dead={} len={}", n.into_any().raw().1, (n == first) as u8, (!w.big.contains(e)) as u8, w.big.len());
    }
}
