//! C04 on archetype SHAPES the main world does not have: components WITHOUT drop glue (plain
//! `Copy` data) mixed, in every order, with drop-tracked ones and with a zero-sized `Drop`
//! type.  A fixed scenario per shape (growth, removal by every path, a failed
//! `create_within_capacity`, `ecs_iter_destroy!`, clone, dropping clone and original while
//! entities are alive) is run on the real implementation only; the registry balance is compared
//! by tools/engine.py with what the C04 theorems predict (every value made or cloned is dropped
//! exactly once, nothing is dropped twice, nothing is left alive).

use crate::comps::*;
use crate::guard;
use gecs::prelude::*;

#[derive(Clone, Copy)]
pub struct P1(pub u64);
#[derive(Clone, Copy)]
pub struct P2(pub u32);

ecs_world! {
    ecs_name!(Ws);
    ecs_archetype!(S1, Ca, P1);
    ecs_archetype!(S2, P1, Ca);
    ecs_archetype!(S3, P1, Ca, Cz);
    ecs_archetype!(S4, Ca, Da);
    ecs_archetype!(S5, P1, P2);
    ecs_archetype!(S6, Cz, P1);
    ecs_archetype!(S7, P2, Ch, P1, Cw);
}

/// 1 when a realloc / dealloc since the last call used a layout that was not the block's own
/// (harness/alloc_check); the scenario's worlds have been dropped by then
fn alloc_bad() -> u8 {
    alloc_check::take().is_some() as u8
}

fn balance(tag: &str, made: u64) {
    let (live, zlive, drops, zdrops, clones, errs) = REG.with(|r| {
        let r = r.borrow();
        (r.live.len(), r.zlive, r.drops.len(), r.zdrops, r.clones.len(), r.errors.len())
    });
    println!("{} made={} cloned={} dropped={} live={} zlive={} zbalance={} errors={} alloc={}", tag, made, clones, drops, live, zlive, (zdrops > 0) as u8, errs, alloc_bad());
}

macro_rules! scenario {
    ($tag:expr, $A:ident, $field:ident, $mk:expr, $tracked_per_row:expr) => {{
        reg_reset();
        let mut tok: u64 = 0;
        let mut made: u64 = 0;
        let mut mk = |tok: &mut u64, made: &mut u64| {
            *tok += 10;
            *made += $tracked_per_row;
            $mk(*tok)
        };
        let r = guard(|| {
            let mut w = Ws::new();
            // growth: 0 -> .. -> 8 by doubling, 6 entities
            let mut hs = Vec::new();
            for _ in 0..6 {
                let row = mk(&mut tok, &mut made);
                hs.push(w.$field.create(row));
            }
            // removal in the middle (typed key), at the tail (dynamic key), by direct key
            drop(w.$field.destroy(hs[2]));
            drop(w.destroy(hs[5].into_any()));
            if let Some(d) = w.$field.to_direct(hs[0]) {
                drop(w.$field.destroy(d));
            }
            // refill within capacity until refused; the refused row comes back and is dropped here
            loop {
                let row = mk(&mut tok, &mut made);
                match w.$field.create_within_capacity(row) {
                    Ok(_) => {}
                    Err(back) => {
                        drop(back);
                        break;
                    }
                }
            }
            // ecs_iter_destroy!: destroy every other entity of this archetype
            let mut k = 0usize;
            ecs_iter_destroy!(w, |_e: &Entity<$A>| {
                k += 1;
                if k % 2 == 0 { EcsStepDestroy::ContinueDestroy } else { EcsStepDestroy::Continue }
            });
            // clone with live entities, diverge, drop both with entities alive
            let mut c = w.clone();
            let row = mk(&mut tok, &mut made);
            c.$field.create(row);
            let row = mk(&mut tok, &mut made);
            w.$field.create(row);
            let n = (w.$field.len(), c.$field.len());
            drop(c);
            drop(w);
            n
        });
        match r {
            Ok(n) => balance(&format!("{} ok lens={}/{}", $tag, n.0, n.1), made),
            Err(c) => println!("{} panic {}", $tag, c),
        }
    }};
}

/// C10: a runtime borrow guard LEAKED with `mem::forget` (safe code) leaves its column flagged
/// as borrowed forever; operations that take `&mut self` must not care (they own the cells), and
/// whatever panics must leave every entity whole or absent.
fn leaked_guard() {
    reg_reset();
    let r = guard(|| {
        let mut w = Ws::new();
        w.s_4.create((Ca::make(1, 1), Da::make(2, 2)));
        w.s_4.create((Ca::make(3, 1), Da::make(4, 2)));
        std::mem::forget(w.s_4.borrow_slice_mut::<Da>());
        let before = w.s_4.len();
        let made = guard(|| w.s_4.create((Ca::make(5, 1), Da::make(6, 2)))).is_ok();
        let after = w.s_4.len();
        let rows = w.s_4.iter().count();
        let ents = w.s_4.entities().len();
        // all-or-nothing
        let whole = (made && after == before + 1 && rows == after && ents == after) || (!made && after == before && rows == before && ents == before);
        let removed = guard(|| w.s_4.entities().first().copied().map(|e| w.s_4.destroy(e).is_some())).unwrap_or(None);
        let cloned = guard(|| w.clone()).is_ok();
        (made, whole, removed, cloned, w.s_4.len())
    });
    match r {
        Ok((made, whole, removed, cloned, len)) => {
            let errs = REG.with(|r| r.borrow().errors.len());
            println!("L1 create_ok={} all_or_nothing={} destroy_ok={} clone_refused={} len={} errors={} alloc={}", made as u8, whole as u8, (removed == Some(true)) as u8, (!cloned) as u8, len, errs, alloc_bad())
        }
        Err(c) => println!("L1 panic {}", c),
    }
}

/// C07 with a leaked guard: ecs_iter_destroy! owns the world exclusively and must visit and destroy
/// as always (or, if something panics, leave every entity whole or absent).
fn leaked_guard_iter_destroy() {
    reg_reset();
    let r = guard(|| {
        let mut w = Ws::new();
        for i in 0..4u64 {
            w.s_4.create((Ca::make(10 + i, 1), Da::make(20 + i, 2)));
        }
        w.s_1.create((Ca::make(30, 1), P1(1)));
        std::mem::forget(w.s_4.borrow_slice::<Ca>());
        let mut visited = 0usize;
        let res = guard(|| {
            ecs_iter_destroy!(w, |_c: &Ca| {
                visited += 1;
                if visited % 2 == 0 { EcsStepDestroy::ContinueDestroy } else { EcsStepDestroy::Continue }
            });
        });
        let (l4, l1) = (w.s_4.len(), w.s_1.len());
        let consistent = w.s_4.iter().count() == l4 && w.s_4.entities().len() == l4;
        (res.is_ok(), visited, l4, l1, consistent)
    });
    match r {
        Ok((ok, visited, l4, l1, consistent)) => {
            let errs = REG.with(|r| r.borrow().errors.len());
            println!("L2 loop_ok={} visited={} left={}/{} consistent={} errors={} alloc={}", ok as u8, visited, l4, l1, consistent as u8, errs, alloc_bad())
        }
        Err(c) => println!("L2 panic {}", c),
    }
}

/// C10 with a leaked guard at every growth step: each archetype column's guard is leaked in turn
/// (shared and exclusive), then the archetype is grown through several reallocations; whatever
/// panics, every entity is whole or absent, the world stays usable and is dropped with the
/// layouts its arrays really have (alloc=0).
fn leaked_guard_growth() {
    reg_reset();
    let mut lines_ok = true;
    let mut grown = 0usize;
    let mut panics = 0usize;
    for variant in 0..4 {
        let r = guard(|| {
            let mut w = Ws::with_capacity(WsCapacity { s_1: 0, s_2: 0, s_3: 0, s_4: 4, s_5: 0, s_6: 0, s_7: 0 });
            for i in 0..4u64 {
                w.s_4.create((Ca::make(100 + i, 1), Da::make(200 + i, 2)));
            }
            match variant {
                0 => std::mem::forget(w.s_4.borrow_slice::<Ca>()),
                1 => std::mem::forget(w.s_4.borrow_slice::<Da>()),
                2 => std::mem::forget(w.s_4.borrow_slice_mut::<Ca>()),
                _ => std::mem::forget(w.s_4.borrow_slice_mut::<Da>()),
            }
            let mut ok = true;
            let mut pan = 0usize;
            for i in 0..40u64 {
                let before = w.s_4.len();
                let made = guard(|| w.s_4.create((Ca::make(300 + i, 1), Da::make(400 + i, 2)))).is_ok();
                if !made { pan += 1; }
                let after = w.s_4.len();
                let rows = w.s_4.iter().count();
                let ents = w.s_4.entities().len();
                if !((made && after == before + 1) || (!made && after == before)) || rows != after || ents != after || w.s_4.capacity() < after {
                    ok = false;
                }
            }
            (ok, pan, w.s_4.capacity())
        });
        match r {
            Ok((ok, pan, cap)) => { lines_ok &= ok; panics += pan; grown += (cap > 4) as usize; }
            Err(_) => { lines_ok = false; }
        }
    }
    let errs = REG.with(|r| r.borrow().errors.len());
    println!("L3 all_or_nothing={} create_panics={} grown={} errors={} alloc={}", lines_ok as u8, panics, grown, errs, alloc_bad());
}

/// C03 in a world with ONE archetype (nothing to dispatch on): keys whose archetype byte is not
/// the archetype's — forged with `from_raw` over all 255 other values, or issued by a world of
/// another type — must be rejected (None / false) or panic cleanly on every dynamic path,
/// query macros included, and must leave the data untouched.
pub mod one {
    use super::P1;
    use crate::guard;
    use gecs::prelude::*;
    ecs_world! {
        ecs_name!(Wf1);
        ecs_archetype!(Only, P1);
    }
    pub mod b {
        use super::P1;
        use gecs::prelude::*;
        ecs_world! {
            ecs_name!(Wf2);
            #[archetype_id(9)]
            ecs_archetype!(Other, P1);
        }
    }
    pub fn run() {
        use b::{Other, Wf2};
        let mut w = Wf1::new();
        let e0 = w.create::<Only>((P1(41),));
        let e1 = w.create::<Only>((P1(42),));
        let mut v = Wf2::new();
        let x0 = v.create::<Other>((P1(7),));
        let x1 = v.create::<Other>((P1(8),));
        let mut accepted: Vec<String> = Vec::new();
        let mut rejected = 0usize;
        let mut panicked = 0usize;
        let mut tally = |name: &str, id: u32, r: Result<bool, &'static str>| match r {
            Ok(true) => accepted.push(format!("{}#{}", name, id)),
            Ok(false) => rejected += 1,
            Err(_) => panicked += 1,
        };
        let own = e0.into_any().raw();
        let mut keys: Vec<(u32, EntityAny)> = Vec::new();
        for id in 1..=255u32 {
            if let Ok(f) = EntityAny::from_raw(((own.0 & !0xff) | id, own.1)) {
                keys.push((id, f));
            }
        }
        keys.push((1000, x0.into_any()));
        keys.push((1001, x1.into_any()));
        for (id, f) in keys {
            tally("find", id, guard(|| ecs_find!(w, f, |p: &P1| p.0).is_some()));
            tally("find_mut", id, guard(|| ecs_find!(w, f, |p: &mut P1| { p.0 += 1000; }).is_some()));
            tally("find_borrow", id, guard(|| ecs_find_borrow!(w, f, |p: &P1| p.0).is_some()));
            tally("find_borrow_mut", id, guard(|| ecs_find_borrow!(w, f, |p: &mut P1| { p.0 += 1000; }).is_some()));
            tally("contains", id, guard(|| w.contains(f)));
            tally("to_direct", id, guard(|| w.to_direct(f).is_some()));
            tally("arch.contains", id, guard(|| w.only.contains(f)));
            tally("arch.to_direct", id, guard(|| w.only.to_direct(f).is_some()));
            tally("arch.resolve", id, guard(|| w.only.resolve(f).is_some()));
            tally("arch.view", id, guard(|| w.only.view(f).is_some()));
            tally("arch.borrow", id, guard(|| w.only.borrow(f).is_some()));
        }
        // direct keys of the other world type
        for (i, x) in [x0, x1].into_iter().enumerate() {
            if let Some(d) = v.to_direct(x) {
                let d: EntityDirectAny = d.into();
                let id = 2000 + i as u32;
                tally("find(direct)", id, guard(|| ecs_find!(w, d, |p: &P1| p.0).is_some()));
                tally("find_mut(direct)", id, guard(|| ecs_find!(w, d, |p: &mut P1| { p.0 += 1000; }).is_some()));
                tally("find_borrow(direct)", id, guard(|| ecs_find_borrow!(w, d, |p: &P1| p.0).is_some()));
                tally("contains(direct)", id, guard(|| w.contains(d)));
                tally("arch.contains(direct)", id, guard(|| w.only.contains(d)));
                tally("arch.view(direct)", id, guard(|| w.only.view(d).is_some()));
            }
        }
        // destroys last
        let own1 = e1.into_any().raw();
        for id in [1u32, 9, 255] {
            if let Ok(f) = EntityAny::from_raw(((own1.0 & !0xff) | id, own1.1)) {
                tally("destroy", id, guard(|| w.destroy(f).is_some()));
                tally("arch.destroy", id, guard(|| w.only.destroy(f).is_some()));
            }
        }
        tally("destroy", 1001, guard(|| w.destroy(x1.into_any()).is_some()));
        let intact = w.only.len() == 2
            && ecs_find!(w, e0, |p: &P1| p.0) == Some(41)
            && ecs_find!(w, e1, |p: &P1| p.0) == Some(42);
        let n_acc = accepted.len();
        accepted.truncate(6);
        println!("F1 accepted={} first=[{}] refused={} data_intact={}", n_acc, accepted.join(","), (rejected + panicked > 0) as u8, intact as u8);
    }
}

/// C11 from INSIDE `clone()`: a component whose `Clone::clone` re-enters its own world (an `Rc`
/// parked in a thread-local; `&World` is all it needs) while `World::clone` / `Archetype::clone`
/// is reading the columns.  Exclusive runtime borrows of columns of the archetype being cloned
/// must be refused (they would alias the reader), shared ones and accesses to another archetype
/// must be granted.
pub mod reent {
    use super::{P1, P2};
    use crate::guard;
    use gecs::prelude::*;
    use std::cell::RefCell;
    use std::rc::Rc;

    pub struct Re(pub u64);

    ecs_world! {
        ecs_name!(Wr);
        ecs_archetype!(Rr, Re, P1);
        ecs_archetype!(Rq, P2);
    }

    thread_local! {
        static WORLD: RefCell<Option<Rc<Wr>>> = RefCell::new(None);
        static LOG: RefCell<Vec<(&'static str, bool, bool)>> = RefCell::new(Vec::new());
    }

    impl Clone for Re {
        fn clone(&self) -> Self {
            let w = WORLD.with(|w| w.borrow().clone());
            if let Some(rc) = w {
                let w: &Wr = &rc;
                let rec = |name: &'static str, must_refuse: bool, granted: bool| LOG.with(|l| l.borrow_mut().push((name, must_refuse, granted)));
                rec("slice_mut<P1>", true, guard(|| { let _g = w.rr.borrow_slice_mut::<P1>(); }).is_ok());
                rec("slice_mut<Re>", true, guard(|| { let _g = w.rr.borrow_slice_mut::<Re>(); }).is_ok());
                rec("component_mut<P1>", true, guard(|| { let e = w.rr.entities()[0]; let b = w.rr.borrow(e).unwrap(); let _g = b.component_mut::<P1>(); }).is_ok());
                rec("find_borrow(&mut P1)", true, guard(|| { let e = w.rr.entities()[0]; ecs_find_borrow!(w, e, |p: &mut P1| { let _ = p; }).is_some() }).unwrap_or(false));
                rec("iter_borrow(&mut P1)", true, guard(|| { ecs_iter_borrow!(w, |p: &mut P1, _r: &Re| { let _ = p; }); }).is_ok());
                rec("slice<P1>", false, guard(|| { let _g = w.rr.borrow_slice::<P1>(); }).is_ok());
                rec("find_borrow(&P1)", false, guard(|| { let e = w.rr.entities()[0]; ecs_find_borrow!(w, e, |p: &P1| p.0).is_some() }).unwrap_or(false));
                rec("other.slice_mut<P2>", false, guard(|| { let _g = w.rq.borrow_slice_mut::<P2>(); }).is_ok());
            }
            Re(self.0)
        }
    }

    pub fn run() {
        let mut w = Wr::new();
        w.create::<Rr>((Re(1), P1(10)));
        w.create::<Rr>((Re(2), P1(20)));
        w.create::<Rq>((P2(3),));
        let rc = Rc::new(w);
        WORLD.with(|x| *x.borrow_mut() = Some(rc.clone()));
        let world_clone_ok = guard(|| { let c: Wr = (*rc).clone(); c.rr.len() }).ok();
        let arch_clone_ok = guard(|| { let c: Rr = rc.rr.clone(); c.len() }).ok();
        WORLD.with(|x| *x.borrow_mut() = None);
        let log = LOG.with(|l| std::mem::take(&mut *l.borrow_mut()));
        let wrongly_granted: Vec<&str> = log.iter().filter(|(_, must, g)| *must && *g).map(|(n, _, _)| *n).collect();
        let wrongly_refused: Vec<&str> = log.iter().filter(|(_, must, g)| !*must && !*g).map(|(n, _, _)| *n).collect();
        let mut wg = wrongly_granted.clone();
        wg.dedup();
        let mut wr = wrongly_refused.clone();
        wr.dedup();
        println!("R1 attempts={} aliasing_granted={} [{}] refused_wrongly={} [{}] clones_ok={}/{}", log.len(), wrongly_granted.len(), wg.join(","), wrongly_refused.len(), wr.join(","),
            world_clone_ok.map(|n| n.to_string()).unwrap_or("panic".into()), arch_clone_ok.map(|n| n.to_string()).unwrap_or("panic".into()));
    }
}

/// C13 / C04 / C02 with a component that has NO drop glue but a `Clone` that is not a bit copy
/// (`needs_drop::<T>() == false` does not mean `T: Copy`): `World::clone` / `Archetype::clone` must
/// call `Clone::clone` exactly once per live value and store ITS result.
pub mod deepclone {
    use super::P1;
    use gecs::prelude::*;
    use std::cell::Cell;

    thread_local! {
        static CLONES: Cell<u64> = Cell::new(0);
    }
    /// (payload, number of times this value's lineage went through Clone::clone)
    pub struct Nc(pub u64, pub u64);
    impl Clone for Nc {
        fn clone(&self) -> Self {
            CLONES.with(|c| c.set(c.get() + 1));
            Nc(self.0, self.1 + 1)
        }
    }

    ecs_world! {
        ecs_name!(Wk);
        ecs_archetype!(Ka, P1, Nc);
        ecs_archetype!(Kb, Nc);
    }

    pub fn run() {
        let mut w = Wk::new();
        let a0 = w.create::<Ka>((P1(1), Nc(10, 0)));
        let a1 = w.create::<Ka>((P1(2), Nc(20, 0)));
        let a2 = w.create::<Ka>((P1(3), Nc(30, 0)));
        let b0 = w.create::<Kb>((Nc(40, 0),));
        w.destroy(a1);
        CLONES.with(|c| c.set(0));
        let mut c = w.clone();
        let calls_world = CLONES.with(|c| c.replace(0));
        let read = |w: &mut Wk, e: Entity<Ka>| ecs_find!(w, e, |n: &Nc| (n.0, n.1));
        let readb = |w: &mut Wk, e: Entity<Kb>| ecs_find!(w, e, |n: &Nc| (n.0, n.1));
        let clone_vals = (read(&mut c, a0), read(&mut c, a2), readb(&mut c, b0));
        let orig_vals = (read(&mut w, a0), read(&mut w, a2), readb(&mut w, b0));
        let mut ac = w.ka.clone();
        let calls_arch = CLONES.with(|c| c.replace(0));
        let arch_ok = ac.iter().all(|(_, _, n)| n.1 == 1) && ac.len() == 2;
        println!(
            "K1 clone_calls_world={} clone_calls_archetype={} clone_holds_clone_results={} original_untouched={} archetype_clone_ok={}",
            calls_world,
            calls_arch,
            (clone_vals == (Some((10, 1)), Some((30, 1)), Some((40, 1)))) as u8,
            (orig_vals == (Some((10, 0)), Some((30, 0)), Some((40, 0)))) as u8,
            arch_ok as u8
        );
    }
}

/// C14 / C15 in a world whose explicit archetype ids are NOT in declaration order (7, 2, 3): the
/// conversions into `SelectArchetype` / `SelectEntity` / `SelectEntityDirect` from the id and from
/// handles agree for every archetype and report its own id.
pub mod idorder {
    use super::P1;
    use gecs::prelude::*;
    ecs_world! {
        ecs_name!(Wv);
        #[archetype_id(7)]
        ecs_archetype!(Va, P1);
        #[archetype_id(2)]
        ecs_archetype!(Vb, P1);
        ecs_archetype!(Vc, P1);
    }
    pub fn run() {
        let mut w = Wv::new();
        let ea = w.create::<Va>((P1(1),)).into_any();
        let eb = w.create::<Vb>((P1(2),)).into_any();
        let ec = w.create::<Vc>((P1(3),)).into_any();
        let mut parts: Vec<String> = Vec::new();
        for (e, id) in [(ea, <Va as Archetype>::ARCHETYPE_ID), (eb, <Vb as Archetype>::ARCHETYPE_ID), (ec, <Vc as Archetype>::ARCHETYPE_ID)] {
            let by_id = SelectArchetype::try_from(id).map(|s| s.archetype_id() as i32).unwrap_or(-1);
            let by_handle = SelectArchetype::try_from(e).map(|s| s.archetype_id() as i32).unwrap_or(-1);
            let sel_e = SelectEntity::try_from(e).is_ok();
            let sel_d = w.to_direct(e).map(|d| SelectEntityDirect::try_from(d).is_ok()).unwrap_or(false);
            parts.push(format!("{}:{}/{}/{}{}", id, by_id, by_handle, sel_e as u8, sel_d as u8));
        }
        let undeclared: Vec<u8> = [0u8, 1, 4, 6, 8, 255].into_iter().filter(|i| SelectArchetype::try_from(*i).is_ok()).collect();
        println!("V1 {} undeclared_accepted={:?}", parts.join(" "), undeclared);
    }
}

/// C07: the step values an `ecs_iter_destroy!` closure may return and their conversions.
fn step_values() {
    fn name(x: &EcsStepDestroy) -> &'static str {
        match x {
            EcsStepDestroy::Continue => "Continue",
            EcsStepDestroy::Break => "Break",
            EcsStepDestroy::ContinueDestroy => "ContinueDestroy",
            EcsStepDestroy::BreakDestroy => "BreakDestroy",
        }
    }
    fn name2(x: &EcsStep) -> &'static str {
        match x {
            EcsStep::Continue => "Continue",
            EcsStep::Break => "Break",
        }
    }
    let v = [EcsStepDestroy::Continue, EcsStepDestroy::Break, EcsStepDestroy::ContinueDestroy, EcsStepDestroy::BreakDestroy];
    let bits: String = v.iter().map(|x| if x.is_destroy() { '1' } else { '0' }).collect();
    println!(
        "D1 is_destroy={} default={} from_unit={} from_continue={} from_break={} step_default={} step_from_unit={}",
        bits,
        name(&EcsStepDestroy::default()),
        name(&EcsStepDestroy::from(())),
        name(&EcsStepDestroy::from(EcsStep::Continue)),
        name(&EcsStepDestroy::from(EcsStep::Break)),
        name2(&EcsStep::default()),
        name2(&EcsStep::from(()))
    );
}

pub fn run() {
    leaked_guard();
    leaked_guard_iter_destroy();
    leaked_guard_growth();
    one::run();
    reent::run();
    deepclone::run();
    idorder::run();
    step_values();
    scenario!("S1", S1, s_1, |t: u64| (Ca::make(t, 1), P1(t)), 1);
    scenario!("S2", S2, s_2, |t: u64| (P1(t), Ca::make(t, 1)), 1);
    scenario!("S3", S3, s_3, |t: u64| (P1(t), Ca::make(t, 1), Cz::make(0, 0)), 1);
    scenario!("S4", S4, s_4, |t: u64| (Ca::make(t, 1), Da::make(t + 1, 2)), 2);
    scenario!("S5", S5, s_5, |t: u64| (P1(t), P2(t as u32)), 0);
    scenario!("S6", S6, s_6, |t: u64| (Cz::make(0, 0), P1(t)), 0);
    scenario!("S7", S7, s_7, |t: u64| (P2(t as u32), Ch::make(t, 3), P1(t), Cw::make(t + 1, 4)), 2);
}

/// C17 on worlds of ONE and TWO archetypes (the main world always has five): the world-level
/// event iterators against the archetype-level logs, size_hint at every position, clears.
#[cfg(feature = "events")]
pub mod ev {
    use super::*;
    ecs_world! {
        ecs_name!(We1);
        ecs_archetype!(Solo, P1);
    }
    pub mod two {
        use super::super::*;
        ecs_world! {
            ecs_name!(We2);
            ecs_archetype!(Left, P1);
            ecs_archetype!(Right, P2);
        }
    }
    fn walk<'a>(mut it: impl Iterator<Item = &'a EntityAny>) -> (Vec<EntityAny>, bool) {
        let mut items = Vec::new();
        let mut exact = true;
        loop {
            let (lo, hi) = it.size_hint();
            let before = (lo, hi);
            match it.next() {
                Some(e) => {
                    items.push(*e);
                    if before.1 != Some(before.0) {
                        exact = false;
                    }
                }
                None => {
                    if before != (0, Some(0)) {
                        exact = false;
                    }
                    break;
                }
            }
        }
        (items, exact)
    }
    pub fn run() {
        // one archetype
        let mut w = We1::new();
        let a = w.create::<Solo>((P1(1),));
        let b = w.create::<Solo>((P1(2),));
        let c = w.solo.create_within_capacity((P1(3),)).ok();
        w.destroy(b);
        let (wc, e1) = walk(w.iter_created());
        let (wd, e2) = walk(w.iter_destroyed());
        let ac: Vec<EntityAny> = w.solo.iter_created().map(|e| (*e).into_any()).collect();
        let ad: Vec<EntityAny> = w.solo.iter_destroyed().map(|e| (*e).into_any()).collect();
        let remaining = wc.len() as i64 - { let mut it = w.iter_created(); it.next(); it.size_hint().0 as i64 };
        println!("E1 created_world_eq_arch={} destroyed_world_eq_arch={} n_created={} n_destroyed={} hints_exact={} after_one_next={} first_is_a={} c_made={}",
            (wc == ac) as u8, (wd == ad) as u8, wc.len(), wd.len(), (e1 && e2) as u8, remaining, (wc.first() == Some(&a.into_any())) as u8, c.is_some() as u8);
        w.clear_events();
        let (wc, _) = walk(w.iter_created());
        let (wd, _) = walk(w.iter_destroyed());
        println!("E2 after_clear created={} destroyed={} len={}", wc.len(), wd.len(), w.solo.len());
        // two archetypes, the first with an empty log
        use two::*;
        let mut w = We2::new();
        let r1 = w.create::<Right>((P2(1),));
        let r2 = w.create::<Right>((P2(2),));
        w.destroy(r1);
        let (wc, e1) = walk(w.iter_created());
        let (wd, e2) = walk(w.iter_destroyed());
        println!("E3 created={} destroyed={} hints_exact={} order_ok={}", wc.len(), wd.len(), (e1 && e2) as u8, (wc == vec![r1.into_any(), r2.into_any()] && wd == vec![r1.into_any()]) as u8);
        let l1 = w.create::<Left>((P1(9),));
        w.right.clear_events();
        let (wc, e1) = walk(w.iter_created());
        let (wd, e2) = walk(w.iter_destroyed());
        println!("E4 created={} destroyed={} hints_exact={} only_left={}", wc.len(), wd.len(), (e1 && e2) as u8, (wc == vec![l1.into_any()]) as u8);
        #[cfg(debug_assertions)]
        crate::big256::run();
        #[cfg(not(debug_assertions))]
        println!("E5 skipped (release build)");
    }
}

#[cfg(not(feature = "events"))]
pub mod ev {
    pub fn run() {
        println!("E0 no-events");
    }
}
