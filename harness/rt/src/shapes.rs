//! C04 on archetype SHAPES the main world does not have: components WITHOUT drop glue (plain
//! `Copy` data) mixed, in every order, with drop-tracked ones and with a zero-sized `Drop`
//! type.  A fixed scenario per shape (growth, removal by every path, a failed
//! `create_within_capacity`, `ecs_iter_destroy!`, clone, dropping clone and original while
//! entities are alive) is run on the real implementation only; the registry balance is compared
//! by tools/engine.py with what the C04 theorems predict (every value made or cloned is dropped
//! exactly once, nothing is dropped twice, nothing is left alive).

use crate::comps::*;
use crate::guard;
use gecs::prelude::*;

#[derive(Clone, Copy)]
pub struct P1(pub u64);
#[derive(Clone, Copy)]
pub struct P2(pub u32);

ecs_world! {
    ecs_name!(Ws);
    ecs_archetype!(S1, Ca, P1);
    ecs_archetype!(S2, P1, Ca);
    ecs_archetype!(S3, P1, Ca, Cz);
    ecs_archetype!(S4, Ca, Da);
    ecs_archetype!(S5, P1, P2);
    ecs_archetype!(S6, Cz, P1);
    ecs_archetype!(S7, P2, Ch, P1, Cw);
}

fn balance(tag: &str, made: u64) {
    let (live, zlive, drops, zdrops, clones, errs) = REG.with(|r| {
        let r = r.borrow();
        (r.live.len(), r.zlive, r.drops.len(), r.zdrops, r.clones.len(), r.errors.len())
    });
    println!("{} made={} cloned={} dropped={} live={} zlive={} zbalance={} errors={}", tag, made, clones, drops, live, zlive, (zdrops > 0) as u8, errs);
}

macro_rules! scenario {
    ($tag:expr, $A:ident, $field:ident, $mk:expr, $tracked_per_row:expr) => {{
        reg_reset();
        let mut tok: u64 = 0;
        let mut made: u64 = 0;
        let mut mk = |tok: &mut u64, made: &mut u64| {
            *tok += 10;
            *made += $tracked_per_row;
            $mk(*tok)
        };
        let r = guard(|| {
            let mut w = Ws::new();
            // growth: 0 -> .. -> 8 by doubling, 6 entities
            let mut hs = Vec::new();
            for _ in 0..6 {
                let row = mk(&mut tok, &mut made);
                hs.push(w.$field.create(row));
            }
            // removal in the middle (typed key), at the tail (dynamic key), by direct key
            drop(w.$field.destroy(hs[2]));
            drop(w.destroy(hs[5].into_any()));
            if let Some(d) = w.$field.to_direct(hs[0]) {
                drop(w.$field.destroy(d));
            }
            // refill within capacity until refused; the refused row comes back and is dropped here
            loop {
                let row = mk(&mut tok, &mut made);
                match w.$field.create_within_capacity(row) {
                    Ok(_) => {}
                    Err(back) => {
                        drop(back);
                        break;
                    }
                }
            }
            // ecs_iter_destroy!: destroy every other entity of this archetype
            let mut k = 0usize;
            ecs_iter_destroy!(w, |_e: &Entity<$A>| {
                k += 1;
                if k % 2 == 0 { EcsStepDestroy::ContinueDestroy } else { EcsStepDestroy::Continue }
            });
            // clone with live entities, diverge, drop both with entities alive
            let mut c = w.clone();
            let row = mk(&mut tok, &mut made);
            c.$field.create(row);
            let row = mk(&mut tok, &mut made);
            w.$field.create(row);
            let n = (w.$field.len(), c.$field.len());
            drop(c);
            drop(w);
            n
        });
        match r {
            Ok(n) => balance(&format!("{} ok lens={}/{}", $tag, n.0, n.1), made),
            Err(c) => println!("{} panic {}", $tag, c),
        }
    }};
}

pub fn run() {
    scenario!("S1", S1, s_1, |t: u64| (Ca::make(t, 1), P1(t)), 1);
    scenario!("S2", S2, s_2, |t: u64| (P1(t), Ca::make(t, 1)), 1);
    scenario!("S3", S3, s_3, |t: u64| (P1(t), Ca::make(t, 1), Cz::make(0, 0)), 1);
    scenario!("S4", S4, s_4, |t: u64| (Ca::make(t, 1), Da::make(t + 1, 2)), 2);
    scenario!("S5", S5, s_5, |t: u64| (P1(t), P2(t as u32)), 0);
    scenario!("S6", S6, s_6, |t: u64| (Cz::make(0, 0), P1(t)), 0);
    scenario!("S7", S7, s_7, |t: u64| (P2(t as u32), Ch::make(t, 3), P1(t), Cw::make(t + 1, 4)), 2);
}
