//! C04 on archetype SHAPES the main world does not have: components WITHOUT drop glue (plain
//! `Copy` data) mixed, in every order, with drop-tracked ones and with a zero-sized `Drop`
//! type.  A fixed scenario per shape (growth, removal by every path, a failed
//! `create_within_capacity`, `ecs_iter_destroy!`, clone, dropping clone and original while
//! entities are alive) is run on the real implementation only; the registry balance is compared
//! by tools/engine.py with what the C04 theorems predict (every value made or cloned is dropped
//! exactly once, nothing is dropped twice, nothing is left alive).

use crate::comps::*;
use crate::guard;
use gecs::prelude::*;

#[derive(Clone, Copy)]
pub struct P1(pub u64);
#[derive(Clone, Copy)]
pub struct P2(pub u32);

ecs_world! {
    ecs_name!(Ws);
    ecs_archetype!(S1, Ca, P1);
    ecs_archetype!(S2, P1, Ca);
    ecs_archetype!(S3, P1, Ca, Cz);
    ecs_archetype!(S4, Ca, Da);
    ecs_archetype!(S5, P1, P2);
    ecs_archetype!(S6, Cz, P1);
    ecs_archetype!(S7, P2, Ch, P1, Cw);
}

fn balance(tag: &str, made: u64) {
    let (live, zlive, drops, zdrops, clones, errs) = REG.with(|r| {
        let r = r.borrow();
        (r.live.len(), r.zlive, r.drops.len(), r.zdrops, r.clones.len(), r.errors.len())
    });
    println!("{} made={} cloned={} dropped={} live={} zlive={} zbalance={} errors={}", tag, made, clones, drops, live, zlive, (zdrops > 0) as u8, errs);
}

macro_rules! scenario {
    ($tag:expr, $A:ident, $field:ident, $mk:expr, $tracked_per_row:expr) => {{
        reg_reset();
        let mut tok: u64 = 0;
        let mut made: u64 = 0;
        let mut mk = |tok: &mut u64, made: &mut u64| {
            *tok += 10;
            *made += $tracked_per_row;
            $mk(*tok)
        };
        let r = guard(|| {
            let mut w = Ws::new();
            // growth: 0 -> .. -> 8 by doubling, 6 entities
            let mut hs = Vec::new();
            for _ in 0..6 {
                let row = mk(&mut tok, &mut made);
                hs.push(w.$field.create(row));
            }
            // removal in the middle (typed key), at the tail (dynamic key), by direct key
            drop(w.$field.destroy(hs[2]));
            drop(w.destroy(hs[5].into_any()));
            if let Some(d) = w.$field.to_direct(hs[0]) {
                drop(w.$field.destroy(d));
            }
            // refill within capacity until refused; the refused row comes back and is dropped here
            loop {
                let row = mk(&mut tok, &mut made);
                match w.$field.create_within_capacity(row) {
                    Ok(_) => {}
                    Err(back) => {
                        drop(back);
                        break;
                    }
                }
            }
            // ecs_iter_destroy!: destroy every other entity of this archetype
            let mut k = 0usize;
            ecs_iter_destroy!(w, |_e: &Entity<$A>| {
                k += 1;
                if k % 2 == 0 { EcsStepDestroy::ContinueDestroy } else { EcsStepDestroy::Continue }
            });
            // clone with live entities, diverge, drop both with entities alive
            let mut c = w.clone();
            let row = mk(&mut tok, &mut made);
            c.$field.create(row);
            let row = mk(&mut tok, &mut made);
            w.$field.create(row);
            let n = (w.$field.len(), c.$field.len());
            drop(c);
            drop(w);
            n
        });
        match r {
            Ok(n) => balance(&format!("{} ok lens={}/{}", $tag, n.0, n.1), made),
            Err(c) => println!("{} panic {}", $tag, c),
        }
    }};
}

/// C10: a runtime borrow guard LEAKED with `mem::forget` (safe code) leaves its column flagged
/// as borrowed forever; operations that take `&mut self` must not care (they own the cells), and
/// whatever panics must leave every entity whole or absent.
fn leaked_guard() {
    reg_reset();
    let r = guard(|| {
        let mut w = Ws::new();
        w.s_4.create((Ca::make(1, 1), Da::make(2, 2)));
        w.s_4.create((Ca::make(3, 1), Da::make(4, 2)));
        std::mem::forget(w.s_4.borrow_slice_mut::<Da>());
        let before = w.s_4.len();
        let made = guard(|| w.s_4.create((Ca::make(5, 1), Da::make(6, 2)))).is_ok();
        let after = w.s_4.len();
        let rows = w.s_4.iter().count();
        let ents = w.s_4.entities().len();
        // all-or-nothing
        let whole = (made && after == before + 1 && rows == after && ents == after) || (!made && after == before && rows == before && ents == before);
        let removed = guard(|| w.s_4.entities().first().copied().map(|e| w.s_4.destroy(e).is_some())).unwrap_or(None);
        let cloned = guard(|| w.clone()).is_ok();
        (made, whole, removed, cloned, w.s_4.len())
    });
    match r {
        Ok((made, whole, removed, cloned, len)) => {
            let errs = REG.with(|r| r.borrow().errors.len());
            println!("L1 create_ok={} all_or_nothing={} destroy_ok={} clone_refused={} len={} errors={}", made as u8, whole as u8, (removed == Some(true)) as u8, (!cloned) as u8, len, errs)
        }
        Err(c) => println!("L1 panic {}", c),
    }
}

/// C07 with a leaked guard: ecs_iter_destroy! owns the world exclusively and must visit and destroy
/// as always (or, if something panics, leave every entity whole or absent).
fn leaked_guard_iter_destroy() {
    reg_reset();
    let r = guard(|| {
        let mut w = Ws::new();
        for i in 0..4u64 {
            w.s_4.create((Ca::make(10 + i, 1), Da::make(20 + i, 2)));
        }
        w.s_1.create((Ca::make(30, 1), P1(1)));
        std::mem::forget(w.s_4.borrow_slice::<Ca>());
        let mut visited = 0usize;
        let res = guard(|| {
            ecs_iter_destroy!(w, |_c: &Ca| {
                visited += 1;
                if visited % 2 == 0 { EcsStepDestroy::ContinueDestroy } else { EcsStepDestroy::Continue }
            });
        });
        let (l4, l1) = (w.s_4.len(), w.s_1.len());
        let consistent = w.s_4.iter().count() == l4 && w.s_4.entities().len() == l4;
        (res.is_ok(), visited, l4, l1, consistent)
    });
    match r {
        Ok((ok, visited, l4, l1, consistent)) => {
            let errs = REG.with(|r| r.borrow().errors.len());
            println!("L2 loop_ok={} visited={} left={}/{} consistent={} errors={}", ok as u8, visited, l4, l1, consistent as u8, errs)
        }
        Err(c) => println!("L2 panic {}", c),
    }
}

pub fn run() {
    leaked_guard();
    leaked_guard_iter_destroy();
    scenario!("S1", S1, s_1, |t: u64| (Ca::make(t, 1), P1(t)), 1);
    scenario!("S2", S2, s_2, |t: u64| (P1(t), Ca::make(t, 1)), 1);
    scenario!("S3", S3, s_3, |t: u64| (P1(t), Ca::make(t, 1), Cz::make(0, 0)), 1);
    scenario!("S4", S4, s_4, |t: u64| (Ca::make(t, 1), Da::make(t + 1, 2)), 2);
    scenario!("S5", S5, s_5, |t: u64| (P1(t), P2(t as u32)), 0);
    scenario!("S6", S6, s_6, |t: u64| (Cz::make(0, 0), P1(t)), 0);
    scenario!("S7", S7, s_7, |t: u64| (P2(t as u32), Ch::make(t, 3), P1(t), Cw::make(t + 1, 4)), 2);
}

/// C17 on worlds of ONE and TWO archetypes (the main world always has five): the world-level
/// event iterators against the archetype-level logs, size_hint at every position, clears.
#[cfg(feature = "events")]
pub mod ev {
    use super::*;
    ecs_world! {
        ecs_name!(We1);
        ecs_archetype!(Solo, P1);
    }
    pub mod two {
        use super::super::*;
        ecs_world! {
            ecs_name!(We2);
            ecs_archetype!(Left, P1);
            ecs_archetype!(Right, P2);
        }
    }
    fn walk<'a>(mut it: impl Iterator<Item = &'a EntityAny>) -> (Vec<EntityAny>, bool) {
        let mut items = Vec::new();
        let mut exact = true;
        loop {
            let (lo, hi) = it.size_hint();
            let before = (lo, hi);
            match it.next() {
                Some(e) => {
                    items.push(*e);
                    if before.1 != Some(before.0) {
                        exact = false;
                    }
                }
                None => {
                    if before != (0, Some(0)) {
                        exact = false;
                    }
                    break;
                }
            }
        }
        (items, exact)
    }
    pub fn run() {
        // one archetype
        let mut w = We1::new();
        let a = w.create::<Solo>((P1(1),));
        let b = w.create::<Solo>((P1(2),));
        let c = w.solo.create_within_capacity((P1(3),)).ok();
        w.destroy(b);
        let (wc, e1) = walk(w.iter_created());
        let (wd, e2) = walk(w.iter_destroyed());
        let ac: Vec<EntityAny> = w.solo.iter_created().map(|e| (*e).into_any()).collect();
        let ad: Vec<EntityAny> = w.solo.iter_destroyed().map(|e| (*e).into_any()).collect();
        let remaining = wc.len() as i64 - { let mut it = w.iter_created(); it.next(); it.size_hint().0 as i64 };
        println!("E1 created_world_eq_arch={} destroyed_world_eq_arch={} n_created={} n_destroyed={} hints_exact={} after_one_next={} first_is_a={} c_made={}",
            (wc == ac) as u8, (wd == ad) as u8, wc.len(), wd.len(), (e1 && e2) as u8, remaining, (wc.first() == Some(&a.into_any())) as u8, c.is_some() as u8);
        w.clear_events();
        let (wc, _) = walk(w.iter_created());
        let (wd, _) = walk(w.iter_destroyed());
        println!("E2 after_clear created={} destroyed={} len={}", wc.len(), wd.len(), w.solo.len());
        // two archetypes, the first with an empty log
        use two::*;
        let mut w = We2::new();
        let r1 = w.create::<Right>((P2(1),));
        let r2 = w.create::<Right>((P2(2),));
        w.destroy(r1);
        let (wc, e1) = walk(w.iter_created());
        let (wd, e2) = walk(w.iter_destroyed());
        println!("E3 created={} destroyed={} hints_exact={} order_ok={}", wc.len(), wd.len(), (e1 && e2) as u8, (wc == vec![r1.into_any(), r2.into_any()] && wd == vec![r1.into_any()]) as u8);
        let l1 = w.create::<Left>((P1(9),));
        w.right.clear_events();
        let (wc, e1) = walk(w.iter_created());
        let (wd, e2) = walk(w.iter_destroyed());
        println!("E4 created={} destroyed={} hints_exact={} only_left={}", wc.len(), wd.len(), (e1 && e2) as u8, (wc == vec![l1.into_any()]) as u8);
    }
}

#[cfg(not(feature = "events"))]
pub mod ev {
    pub fn run() {
        println!("E0 no-events");
    }
}
