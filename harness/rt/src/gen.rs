//! Sequence generator: structured, mostly-valid operation sequences, phase/profile based,
//! deterministic in the seed.  It runs inside the harness so it can look at the real
//! world's len/capacity (and, through hook H1, the slot array) to aim at boundary classes.

use crate::world::*;
use crate::{St, H};
use gecs::prelude::*;
use std::collections::HashSet;

pub struct Rng(u64);
impl Rng {
    pub fn new(seed: u64) -> Rng {
        Rng(seed ^ 0xD1B54A32D192ED03)
    }
    pub fn next(&mut self) -> u64 {
        // splitmix64
        self.0 = self.0.wrapping_add(0x9E3779B97F4A7C15);
        let mut z = self.0;
        z = (z ^ (z >> 30)).wrapping_mul(0xBF58476D1CE4E5B9);
        z = (z ^ (z >> 27)).wrapping_mul(0x94D049BB133111EB);
        z ^ (z >> 31)
    }
    pub fn below(&mut self, n: usize) -> usize {
        if n == 0 {
            0
        } else {
            (self.next() % n as u64) as usize
        }
    }
    pub fn chance(&mut self, pct: usize) -> bool {
        self.below(100) < pct
    }
    pub fn pick<'a, T>(&mut self, v: &'a [T]) -> Option<&'a T> {
        if v.is_empty() {
            None
        } else {
            Some(&v[self.below(v.len())])
        }
    }
}

struct G<'a> {
    st: &'a mut St,
    rng: Rng,
    tok: u64,
    nh: usize,
    nd: usize,
    ents: Vec<(String, usize)>,
    dirs: Vec<(String, usize)>,
    live: Vec<HashSet<String>>, // per world: entity vars believed alive
    ops: usize,
    maxops: usize,
    ncols: Vec<usize>,
    recent_dead: Vec<(String, usize)>,
    in_battery: bool,
    panics: usize,
    fault_profile: bool,
    own: Vec<(String, usize)>, // handles issued by creates of this world family (never forged / foreign)
}

const CAPS: &[usize] = &[0, 0, 1, 2, 3, 5, 8, 16, 17];

impl<'a> G<'a> {
    fn emit(&mut self, op: String) -> String {
        // the op is written (and flushed) BEFORE it runs, so that a crash of the process leaves the
        // crashing op as the last, unfinished line of the trace
        {
            use std::io::Write;
            print!("{} => ", op);
            let _ = std::io::stdout().flush();
        }
        let obs = self.st.exec(&op);
        println!("{}", obs);
        self.ops += 1;
        if (obs.starts_with("panic") || obs.contains("end=panic") || obs.starts_with("panic:")) && !self.in_battery && self.st.worlds.get(self.st.cur).map_or(false, |w| w.is_some()) {
            // C10: after every caught panic, the full battery on the world it left behind
            self.in_battery = true;
            self.panics += 1;
            for a in 0..NARCH {
                self.emit(format!("dump {}", a));
                self.emit(format!("rows {}", a));
                self.resync_live(a);
            }
            self.emit("events".to_string());
            self.probe_all(12);
            self.in_battery = false;
        }
        obs
    }
    fn budget(&self) -> bool {
        self.ops < self.maxops
    }
    fn row(&mut self, a: usize) -> String {
        let n = self.ncols[a];
        let mut parts = Vec::new();
        for _ in 0..n {
            self.tok += 1;
            let v = self.rng.below(200);
            parts.push(format!("{}:{}", self.tok, v));
        }
        parts.join(" ")
    }
    fn cur(&self) -> usize {
        self.st.cur
    }
    fn new_h(&mut self) -> String {
        self.nh += 1;
        format!("h{}", self.nh)
    }
    fn new_d(&mut self) -> String {
        self.nd += 1;
        format!("d{}", self.nd)
    }
    fn lvl(&mut self) -> &'static str {
        if self.rng.chance(50) {
            "w"
        } else {
            "a"
        }
    }
    fn knd(&mut self) -> &'static str {
        if self.rng.chance(50) {
            "t"
        } else {
            "y"
        }
    }
    fn create(&mut self, a: usize, within: bool) {
        let h = self.new_h();
        let row = self.row(a);
        let l = self.lvl();
        let obs = self.emit(format!("{} {} {} {} {}", if within { "createw" } else { "create" }, l, a, h, row));
        if obs.starts_with("e ") {
            self.ents.push((h.clone(), a));
            self.own.push((h.clone(), a));
            let c = self.cur();
            self.live[c].insert(h);
        }
    }
    fn pick_own(&mut self, a: Option<usize>) -> String {
        let pick = self.pick_live(a).filter(|h| self.own.contains(h));
        match pick {
            Some(h) => h.0,
            None => {
                let v = self.own.clone();
                self.rng.pick(&v).map(|h| h.0.clone()).unwrap_or("h0".to_string())
            }
        }
    }
    fn pick_live(&mut self, a: Option<usize>) -> Option<(String, usize)> {
        let c = self.cur();
        let cands: Vec<(String, usize)> = self.ents.iter().filter(|(n, aa)| self.live[c].contains(n) && a.map_or(true, |x| x == *aa)).cloned().collect();
        self.rng.pick(&cands).cloned()
    }
    fn pick_any_ent(&mut self) -> Option<(String, usize)> {
        let r = self.rng.below(100);
        if r < 55 {
            self.pick_live(None).or_else(|| self.rng.pick(&self.ents.clone()).cloned())
        } else if r < 80 && !self.recent_dead.is_empty() {
            let v = self.recent_dead.clone();
            self.rng.pick(&v).cloned()
        } else {
            let v = self.ents.clone();
            self.rng.pick(&v).cloned()
        }
    }
    fn destroy_ent(&mut self, h: &(String, usize)) {
        let l = self.lvl();
        let k = self.knd();
        let at = if k == "y" && l == "a" && self.rng.chance(15) { format!(" @{}", self.rng.below(NARCH)) } else { String::new() };
        let obs = self.emit(format!("destroy {} {} {}{}", l, k, h.0, at));
        if obs.starts_with("some") {
            let c = self.cur();
            self.live[c].remove(&h.0);
            self.recent_dead.push(h.clone());
            if self.recent_dead.len() > 24 {
                self.recent_dead.remove(0);
            }
        }
    }
    fn destroy_dir(&mut self, d: &(String, usize)) {
        let l = self.lvl();
        let k = self.knd();
        // a dynamically typed direct key handed to ANOTHER archetype's archetype-level destroy
        let at = if k == "y" && l == "a" && self.rng.chance(25) { format!(" @{}", self.rng.below(NARCH)) } else { String::new() };
        let obs = self.emit(format!("destroy {} {} {}{}", l, k, d.0, at));
        if !at.is_empty() && obs.starts_with("some") {
            for a in 0..NARCH {
                self.resync_live(a);
            }
        }
        if obs.starts_with("some") {
            // we do not know which entity var died: resync liveness by probing lazily (the
            // live set is only a guess used to bias choices)
            self.resync_live(d.1);
        }
    }
    fn resync_live(&mut self, a: usize) {
        let c = self.cur();
        let names: Vec<(String, usize)> = self.ents.iter().filter(|(n, aa)| *aa == a && self.live[c].contains(n)).cloned().collect();
        for (n, _) in names {
            if let Some(H::Ent { any, .. }) = self.st.hs.get(&n).copied() {
                let alive = match self.st.worlds[c].as_ref() {
                    Some(w) => w.contains(any),
                    None => false,
                };
                if !alive {
                    self.live[c].remove(&n);
                    self.recent_dead.push((n, a));
                }
            }
        }
        while self.recent_dead.len() > 24 {
            self.recent_dead.remove(0);
        }
    }
    fn todirect(&mut self, h: &(String, usize)) {
        let d = self.new_d();
        let l = self.lvl();
        let k = self.knd();
        // a dynamically typed key handed to ANOTHER archetype's archetype-level to_direct
        let at = if k == "y" && l == "a" && self.rng.chance(30) { Some(self.rng.below(NARCH)) } else { None };
        let obs = self.emit(format!("todirect {} {} {} {}{}", l, k, h.0, d, at.map(|a| format!(" @{}", a)).unwrap_or_default()));
        if obs.starts_with("d ") {
            if self.rng.chance(20) {
                self.emit(format!("conv {}", d));
            }
            self.dirs.push((d, at.unwrap_or(h.1)));
        }
    }
    fn probe_some(&mut self, n: usize) {
        for _ in 0..n {
            if self.rng.chance(70) {
                if let Some(h) = self.pick_any_ent() {
                    self.emit(format!("probe {}", h.0));
                }
            } else {
                let v = self.dirs.clone();
                if let Some(d) = self.rng.pick(&v) {
                    self.emit(format!("probe {}", d.0));
                }
            }
        }
    }
    fn probe_all(&mut self, cap: usize) {
        let ents = self.ents.clone();
        let start = ents.len().saturating_sub(cap);
        for (n, _) in &ents[start..] {
            self.emit(format!("probe {}", n));
        }
        let dirs = self.dirs.clone();
        let start = dirs.len().saturating_sub(cap / 2);
        for (n, _) in &dirs[start..] {
            self.emit(format!("probe {}", n));
        }
    }
    fn write(&mut self) {
        let paths = ["v", "b", "V", "B", "s", "S", "i", "A"];
        let target = if self.rng.chance(80) { self.pick_any_ent() } else { let v = self.dirs.clone(); self.rng.pick(&v).cloned() };
        if let Some(h) = target {
            let p = paths[self.rng.below(paths.len())];
            let col = self.rng.below(self.ncols[h.1]);
            let val = self.rng.below(250);
            self.emit(format!("write {} {} {} {}", p, h.0, col, val));
        }
    }
    fn query(&mut self) {
        let q = self.rng.below(crate::queries::MENU.len());
        let total: usize = {
            let c = self.cur();
            match self.st.worlds[c].as_ref() {
                Some(w) => w.aa.len() + w.ab.len() + w.ac.len() + w.ad.len() + w.ae.len(),
                None => 0,
            }
        };
        let r = self.rng.below(100);
        if r < 30 {
            let mut op = format!("{} q{}", if self.rng.chance(50) { "iter" } else { "iterb" }, q);
            if self.rng.chance(40) {
                op.push_str(&format!(" brk={}", self.rng.below(total + 2)));
            }
            if self.rng.chance(60) {
                op.push_str(&format!(" add={}", 1 + self.rng.below(9)));
            }
            if self.rng.chance(30) {
                let d = self.new_d();
                op.push_str(&format!(" save={}", d));
                let obs = self.emit(op);
                if obs.contains("saved=1") {
                    if let Some(H::Dir { a, .. }) = self.st.hs.get(&d).copied() {
                        self.dirs.push((d.clone(), a));
                        self.emit(format!("probe {}", d));
                    }
                }
            } else {
                self.emit(op);
            }
        } else if r < 34 {
            // ecs_iter_destroy! with a closure that returns plain EcsStep (Continue … Break at brk)
            let mut op = format!("iterds q{}", q);
            if self.rng.chance(70) {
                op.push_str(&format!(" brk={}", self.rng.below(total + 2)));
            }
            if self.rng.chance(40) {
                op.push_str(&format!(" add={}", 1 + self.rng.below(9)));
            }
            self.emit(op);
        } else if r < 55 {
            // iter_destroy with a decision list
            let n = total.min(40) + 1;
            let style = self.rng.below(6);
            let dec: String = (0..n)
                .map(|i| match style {
                    0 => 'c',
                    1 => 'd',
                    2 => if i % 2 == 0 { 'd' } else { 'c' },
                    3 => if i == 0 { 'x' } else { 'c' },
                    _ => ['c', 'c', 'd', 'd', 'b', 'x'][self.rng.below(if i < 2 { 4 } else { 6 })],
                })
                .collect();
            let mut op = format!("iterd q{} dec={}", q, dec);
            if self.rng.chance(40) {
                op.push_str(&format!(" add={}", 1 + self.rng.below(9)));
            }
            let d = self.new_d();
            op.push_str(&format!(" save={}", d));
            let obs = self.emit(op);
            if obs.contains("saved=1") {
                if let Some(H::Dir { a, .. }) = self.st.hs.get(&d).copied() {
                    self.dirs.push((d.clone(), a));
                    self.emit(format!("probe {}", d));
                }
            }
            for a in 0..NARCH {
                self.resync_live(a);
            }
        } else {
            let target = if self.rng.chance(75) { self.pick_any_ent() } else { let v = self.dirs.clone(); self.rng.pick(&v).cloned() };
            if let Some(h) = target {
                let k = self.knd();
                let mut op = format!("{} q{} {} {}", if self.rng.chance(50) { "find" } else { "findb" }, q, k, h.0);
                if self.rng.chance(50) {
                    op.push_str(&format!(" add={}", 1 + self.rng.below(9)));
                }
                if self.rng.chance(30) {
                    let d = self.new_d();
                    op.push_str(&format!(" save={}", d));
                    let obs = self.emit(op);
                    if obs.contains("saved=1") {
                        if let Some(H::Dir { a, .. }) = self.st.hs.get(&d).copied() {
                            self.dirs.push((d.clone(), a));
                            self.emit(format!("probe {}", d));
                        }
                    }
                } else {
                    self.emit(op);
                }
            }
        }
    }
    fn clone_world(&mut self) {
        if self.st.worlds.len() >= 4 {
            return;
        }
        let obs = self.emit("clone".to_string());
        if obs.starts_with('w') {
            let c = self.cur();
            let l = self.live[c].clone();
            self.live.push(l);
            // C13: the same observations on the source and on the fresh clone, before either changes
            let nw: Option<usize> = obs.split_whitespace().next().and_then(|t| t[1..].parse().ok());
            if let (Some(nw), true) = (nw, self.rng.chance(70)) {
                let mut vars: Vec<String> = Vec::new();
                let ne = self.ents.len();
                for (n, _) in &self.ents[ne.saturating_sub(6)..] {
                    vars.push(n.clone());
                }
                let nd = self.dirs.len();
                for (n, _) in &self.dirs[nd.saturating_sub(4)..] {
                    vars.push(n.clone());
                }
                for _ in 0..3 {
                    if let Some(h) = self.pick_any_ent() {
                        vars.push(h.0);
                    }
                }
                for v in &vars {
                    self.emit(format!("probe {}", v));
                }
                self.emit("events".to_string());
                self.emit(format!("switch {}", nw));
                for v in &vars {
                    self.emit(format!("probe {}", v));
                }
                self.emit("events".to_string());
                self.emit(format!("switch {}", c));
            }
        }
    }
    /// C14: Eq/Hash of a pair of handles, biased towards pairs that share the key word
    /// (same position, possibly another generation).
    fn cmp_pair(&mut self) {
        let use_dir = self.rng.chance(45) && self.dirs.len() >= 2;
        let pool: Vec<String> = if use_dir { self.dirs.iter().map(|x| x.0.clone()).collect() } else { self.ents.iter().map(|x| x.0.clone()).collect() };
        if pool.len() < 2 {
            return;
        }
        let h1 = pool[self.rng.below(pool.len())].clone();
        let key_of = |st: &St, n: &String| -> Option<(u64, u64)> {
            match st.hs.get(n) {
                Some(H::Ent { any, .. }) => Some((any.raw().0 as u64, any.raw().1 as u64)),
                Some(H::Dir { any, .. }) => Some(crate::queries::dir_words(*any)),
                None => None,
            }
        };
        let k1 = key_of(self.st, &h1);
        let same: Vec<String> = pool.iter().filter(|n| **n != h1 && key_of(self.st, n).map(|x| x.0) == k1.map(|x| x.0)).cloned().collect();
        let same_dv: Vec<String> = same.iter().filter(|n| key_of(self.st, n) != k1).cloned().collect();
        let h2 = if !same_dv.is_empty() && self.rng.chance(45) {
            same_dv[self.rng.below(same_dv.len())].clone()
        } else if !same.is_empty() && self.rng.chance(50) {
            same[self.rng.below(same.len())].clone()
        } else {
            pool[self.rng.below(pool.len())].clone()
        };
        self.emit(format!("cmp {} {}", h1, h2));
    }
    fn switch(&mut self) {
        let n = self.st.worlds.len();
        let i = self.rng.below(n);
        if self.st.worlds[i].is_some() {
            self.emit(format!("switch {}", i));
        }
    }
    fn forge(&mut self) {
        // state-derived forged dynamic / typed keys
        let c = self.cur();
        let a = self.rng.below(NARCH);
        let (id, len, cap, dump) = {
            let Some(w) = self.st.worlds[c].as_ref() else { return };
            crate::dispatch!(a, A => {
                let x = <A as ArchX>::of(w);
                (<A as Archetype>::ARCHETYPE_ID as u64, x.len() as u64, x.capacity() as u64, <A as ArchX>::dump(x))
            })
        };
        let class = self.rng.below(12);
        let mut slot: u64 = 0;
        let mut ver: u64 = 1;
        let mut idv = id;
        match class {
            0 => {
                // a free slot with its current generation
                if let Some((i, s)) = dump.slots.iter().enumerate().find(|(_, s)| s.0 & 0x8000_0000 != 0) {
                    slot = i as u64;
                    ver = s.1 as u64;
                }
            }
            1 => {
                slot = cap;
                ver = 1;
            }
            2 => {
                slot = cap + 1;
                ver = 2;
            }
            3 => {
                slot = (1 << 24) - 1;
                ver = 1;
            }
            4 | 5 => {
                // a live slot with generation +-1
                if let Some((i, s)) = dump.slots.iter().enumerate().find(|(_, s)| s.0 & 0x8000_0000 == 0) {
                    slot = i as u64;
                    ver = if class == 4 { s.1 as u64 + 1 } else { (s.1 as u64).saturating_sub(1) };
                }
            }
            6 => {
                // a live slot, exact generation, every possible archetype id
                if let Some((i, s)) = dump.slots.iter().enumerate().find(|(_, s)| s.0 & 0x8000_0000 == 0) {
                    slot = i as u64;
                    ver = s.1 as u64;
                }
                idv = self.rng.below(256) as u64;
            }
            7 => {
                slot = len;
                ver = 1;
                idv = self.rng.below(256) as u64;
            }
            8 => {
                ver = 0; // from_raw must reject
            }
            9 => {
                slot = self.rng.below(1 << 24) as u64;
                ver = self.rng.next() & 0xffff_ffff;
                idv = self.rng.below(256) as u64;
            }
            _ => {
                // exact copy of a live handle's words (must reach exactly that entity)
                if let Some(e) = dump.entities.first() {
                    slot = (e.0 >> 8) as u64;
                    ver = e.1 as u64;
                }
            }
        }
        let key = (slot << 8) | idv;
        let h = self.new_h();
        let typed_other = self.rng.chance(35);
        let obs = if typed_other {
            let b = self.rng.below(NARCH);
            let o = self.emit(format!("forge {} ent {} {} {}", h, b, key, ver));
            if o.starts_with("ok") {
                self.ents.push((h.clone(), b));
            }
            o
        } else {
            let o = self.emit(format!("forge {} any {} {}", h, key, ver));
            if o.starts_with("ok") {
                let a2 = match self.st.hs.get(&h) {
                    Some(H::Ent { a, .. }) => *a,
                    _ => 0,
                };
                self.ents.push((h.clone(), a2));
            }
            o
        };
        if obs.starts_with("ok") {
            self.emit(format!("probe {}", h));
            self.emit(format!("conv {}", h));
            if self.rng.chance(50) {
                self.cmp_pair();
            }
            if self.rng.chance(40) {
                let q = self.rng.below(crate::queries::MENU.len());
                let k = self.knd();
                self.emit(format!("find q{} {} {}", q, k, h));
            }
            if self.rng.chance(25) {
                let hh = (h.clone(), 0);
                self.destroy_ent(&hh);
                for a in 0..NARCH {
                    self.resync_live(a);
                }
            }
            if self.rng.chance(25) {
                let hh = (h.clone(), 0usize);
                self.todirect(&hh);
            }
        }
    }
    fn foreign(&mut self) {
        let b = self.rng.below(3);
        let h = self.new_h();
        let obs = self.emit(format!("wbcreate {} {}", b, h));
        if obs.starts_with("e ") {
            let a = match self.st.hs.get(&h) {
                Some(H::Ent { a, .. }) => *a,
                _ => 0,
            };
            self.ents.push((h.clone(), a));
            self.emit(format!("probe {}", h));
            let d = self.new_d();
            let o = self.emit(format!("wbdirect {} {}", h, d));
            if o.starts_with("d ") {
                let a = match self.st.hs.get(&d) {
                    Some(H::Dir { a, .. }) => *a,
                    _ => 0,
                };
                self.dirs.push((d.clone(), a));
                self.emit(format!("probe {}", d));
            }
        }
    }
    fn forge_dir(&mut self) {
        let v = self.dirs.clone();
        if let Some(d) = self.rng.pick(&v) {
            let b = self.rng.below(NARCH);
            let nd = self.new_d();
            let o = self.emit(format!("forge {} dir {} {}", nd, b, d.0));
            if o.starts_with("ok") {
                self.dirs.push((nd.clone(), b));
                self.emit(format!("probe {}", nd));
            }
            // every conversion of the (dynamically typed) direct handle itself
            self.emit(format!("conv {}", d.0));
        }
    }
    fn total_len(&self) -> usize {
        let c = self.cur();
        match self.st.worlds[c].as_ref() {
            Some(w) => (0..NARCH).map(|a| crate::dispatch!(a, A => <A as ArchX>::of(w).len())).sum(),
            None => 0,
        }
    }
    fn nest_node(&mut self, depth: usize, focus_a: usize, focus_col: usize) -> String {
        let kids = if depth == 0 {
            String::new()
        } else {
            let n = [0, 1, 1, 2][self.rng.below(4)];
            (0..n).map(|_| self.nest_node(depth - 1, focus_a, focus_col)).collect::<Vec<_>>().join(" ")
        };
        // bias towards the focus cell so that conflicts really happen
        let a = if self.rng.chance(65) { focus_a } else { self.rng.below(NARCH) };
        let col = if a == focus_a && self.rng.chance(65) { focus_col.min(self.ncols[a] - 1) } else { self.rng.below(self.ncols[a]) };
        let m = if self.rng.chance(45) { "m" } else { "s" };
        let small = self.total_len() <= 5;
        match self.rng.below(if small { 10 } else { 8 }) {
            0 | 1 | 2 => format!("( bs {} {} {} {} )", a, col, m, kids),
            3 | 4 => {
                let h = self.fresh_direct(Some(a));
                format!("( bc {} {} {} {} {} )", a, h, col, m, kids)
            }
            5 | 6 => {
                let q = self.rng.below(crate::queries::MENU.len());
                let h = self.fresh_direct(None);
                format!("( fb q{} {} {} )", q, h, kids)
            }
            7 => "( cl )".to_string(),
            _ => {
                let q = self.rng.below(crate::queries::MENU.len());
                format!("( ib q{} {} )", q, if depth >= 2 { String::new() } else { kids })
            }
        }
    }
    /// a direct key that is valid right now (made from a live handle, nothing removed since), for
    /// use as the key of a `bc` / `fb` node; falls back to the entity variable
    fn fresh_direct(&mut self, a: Option<usize>) -> String {
        let h = self.pick_own(a);
        if self.rng.chance(35) {
            let d = self.new_d();
            let obs = self.emit(format!("todirect w y {} {}", h, d));
            if obs.starts_with("d ") {
                return d;
            }
        }
        h
    }
    fn nest_random(&mut self) {
        let fa = self.rng.below(NARCH);
        let fc = self.rng.below(self.ncols[fa]);
        let depth = 1 + self.rng.below(3);
        let n = 1 + self.rng.below(2);
        let trees: Vec<String> = (0..n).map(|_| self.nest_node(depth, fa, fc)).collect();
        self.emit(format!("nest {}", trees.join(" ")));
    }
    /// all (outer, inner) pairs over one focus cell: kinds x modes x same/other column x
    /// same/other archetype x same/other entity
    fn nest_pairs(&mut self) {
        let live: Vec<(String, usize)> = {
            let c = self.cur();
            self.ents.iter().filter(|(n, _)| self.live[c].contains(n)).cloned().collect()
        };
        let Some((h1, a)) = self.rng.pick(&live).cloned() else { return };
        let h2 = live.iter().find(|(n, aa)| *aa == a && *n != h1).map(|x| x.0.clone()).unwrap_or(h1.clone());
        let other_a = (a + 1 + self.rng.below(NARCH - 1)) % NARCH;
        let col = self.rng.below(self.ncols[a]);
        let col2 = (col + 1) % self.ncols[a];
        let qs: Vec<usize> = (0..crate::queries::MENU.len()).collect();
        let small = self.total_len() <= 6;
        let mut accesses: Vec<String> = Vec::new();
        // the same entity through a dynamically typed DIRECT key (valid: nothing is removed by nest ops)
        let d1 = {
            let d = self.new_d();
            let o = self.emit(format!("todirect w y {} {}", h1, d));
            if o.starts_with("d ") { Some(d) } else { None }
        };
        if let Some(d1) = &d1 {
            for m in ["s", "m"] {
                accesses.push(format!("bc {} {} {} {}", a, d1, col, m));
                accesses.push(format!("bc {} {} {} {}", a, d1, col2, m));
            }
            for q in &qs {
                accesses.push(format!("fb q{} {}", q, d1));
            }
        }
        for m in ["s", "m"] {
            accesses.push(format!("bs {} {} {}", a, col, m));
            accesses.push(format!("bs {} {} {}", a, col2, m));
            accesses.push(format!("bs {} {} {}", other_a, 0, m));
            accesses.push(format!("bc {} {} {} {}", a, h1, col, m));
            accesses.push(format!("bc {} {} {} {}", a, h2, col, m));
            accesses.push(format!("bc {} {} {} {}", a, h1, col2, m));
        }
        for q in &qs {
            accesses.push(format!("fb q{} {}", q, h1));
            if small {
                accesses.push(format!("ib q{}", q));
            }
        }
        accesses.push("cl".to_string());
        // a random sample of the full product per call keeps sequences bounded; over a run the
        // whole product is covered many times
        let budget = 60;
        for _ in 0..budget {
            if !self.budget() {
                break;
            }
            let o = accesses[self.rng.below(accesses.len())].clone();
            let i = accesses[self.rng.below(accesses.len())].clone();
            if o == "cl" {
                self.emit(format!("nest ( cl ) ( {} )", i));
            } else {
                self.emit(format!("nest ( {} ( {} ) )", o, i));
            }
        }
    }
    fn live_cells(&self) -> usize {
        let c = self.cur();
        match self.st.worlds[c].as_ref() {
            Some(w) => (0..NARCH).map(|a| crate::dispatch!(a, A => <A as ArchX>::of(w).len() * <A as ArchX>::comps().len())).sum(),
            None => 0,
        }
    }
    fn fault_op(&mut self) {
        match self.rng.below(5) {
            0 => {
                // a panicking Clone::clone at a random point of world.clone()
                let n = self.live_cells();
                let k = self.rng.below(n + 2);
                if self.st.worlds.len() < 5 {
                    let obs = self.emit(format!("clone fault={}", k));
                    if obs.starts_with('w') {
                        let c = self.cur();
                        let l = self.live[c].clone();
                        self.live.push(l);
                    }
                }
            }
            1 => {
                // a panicking Drop::drop inside a destroy that drops the components itself
                if let Some(h) = self.pick_live(None) {
                    let k = self.rng.below(self.ncols[h.1] + 1);
                    let obs = self.emit(format!("destroy w y {} fault={}", h.0, k));
                    if obs.starts_with("some") || obs.starts_with("panic Injected") {
                        let c = self.cur();
                        self.live[c].remove(&h.0);
                        self.recent_dead.push(h.clone());
                    }
                }
            }
            _ => {
                // a panicking closure at its k-th call, in each of the query macros
                let q = self.rng.below(crate::queries::MENU.len());
                let total = self.total_len();
                let k = self.rng.below(total + 2);
                match self.rng.below(4) {
                    0 => { let ad = 1 + self.rng.below(5); self.emit(format!("iter q{} pan={} add={}", q, k, ad)); }
                    1 => { let ad = 1 + self.rng.below(5); self.emit(format!("iterb q{} pan={} add={}", q, k, ad)); }
                    2 => {
                        let dec: String = (0..total + 1).map(|_| ['c', 'd', 'd', 'c'][self.rng.below(4)]).collect();
                        let ad = self.rng.below(5);
                        self.emit(format!("iterd q{} dec={} pan={} add={}", q, dec, k, ad));
                        for a in 0..NARCH {
                            self.resync_live(a);
                        }
                    }
                    _ => {
                        if let Some(h) = self.pick_any_ent() {
                            let kk = self.knd();
                            let nm = if self.rng.chance(50) { "find" } else { "findb" };
                            self.emit(format!("{} q{} {} {} pan=0 add=3", nm, q, kk, h.0));
                        }
                    }
                }
            }
        }
    }
    fn dump_all(&mut self) {
        for a in 0..NARCH {
            self.emit(format!("dump {}", a));
        }
    }
    fn finish(&mut self) {
        for a in 0..NARCH {
            self.emit(format!("rows {}", a));
        }
        self.emit("events".to_string());
        self.dump_all();
        self.probe_all(48);
        let n = self.st.worlds.len();
        let mut order: Vec<usize> = (0..n).collect();
        if self.rng.chance(50) {
            order.reverse();
        }
        for i in order {
            if self.st.worlds[i].is_some() {
                if self.fault_profile && self.rng.chance(50) {
                    let n = self.rng.below(40);
                    self.emit(format!("drop {} fault={}", i, n));
                } else {
                    self.emit(format!("drop {}", i));
                }
            }
        }
        self.emit("end".to_string());
    }
}

pub fn run_sequence(st: &mut St, seed: u64, maxops: usize, profile: &str) {
    let ncols: Vec<usize> = (0..NARCH).map(|a| crate::dispatch!(a, A => <A as ArchX>::comps().len())).collect();
    let mut g = G {
        st,
        rng: Rng::new(seed),
        tok: 0,
        nh: 0,
        nd: 0,
        ents: Vec::new(),
        dirs: Vec::new(),
        live: vec![HashSet::new()],
        ops: 0,
        maxops,
        ncols,
        recent_dead: Vec::new(),
        in_battery: false,
        panics: 0,
        fault_profile: profile == "fault",
        own: Vec::new(),
    };
    // initial capacities
    let caps: Vec<String> = (0..NARCH)
        .map(|_| {
            if g.rng.chance(85) {
                CAPS[g.rng.below(CAPS.len())].to_string()
            } else {
                g.rng.below(40).to_string()
            }
        })
        .collect();
    g.emit(format!("new {}", caps.join(" ")));

    // weights per profile: create createw destroy todirect probe write query clone switch forge foreign dump events
    let wts: [usize; 13] = match profile {
        "churn" => [20, 14, 30, 6, 16, 2, 4, 1, 1, 1, 0, 4, 1],
        "grow" => [40, 14, 10, 4, 10, 4, 6, 1, 1, 1, 0, 8, 1],
        "query" => [18, 6, 8, 6, 8, 10, 36, 1, 1, 1, 0, 3, 2],
        "clone" => [16, 8, 12, 6, 14, 6, 8, 8, 12, 2, 1, 4, 3],
        "forge" => [14, 6, 10, 6, 8, 2, 6, 2, 3, 30, 8, 3, 2],
        "events" => [18, 10, 16, 4, 4, 2, 14, 3, 4, 1, 0, 2, 22],
        "borrow" => [10, 4, 5, 2, 2, 2, 2, 1, 1, 0, 0, 1, 0],
        "fault" => [18, 8, 10, 4, 4, 3, 6, 2, 3, 1, 0, 1, 2],
        "overflow" => [22, 10, 34, 6, 6, 1, 10, 2, 2, 0, 0, 3, 2],
        _ => [18, 9, 14, 7, 12, 6, 14, 3, 4, 5, 2, 4, 2],
    };
    // focus archetypes so that positions are really recycled
    let focus: Vec<usize> = {
        let k = 1 + g.rng.below(3);
        (0..k).map(|_| g.rng.below(NARCH)).collect()
    };
    let nest_pct = match profile { "borrow" => 55, "mix" => 4, "fault" => 6, _ => 0 };
    let fault_pct = match profile { "fault" => 22, _ => 0 };
    if profile == "overflow" {
        // histories that cross the 2^32 boundary: preset the generations of (still empty) archetypes
        const VMAX: u64 = 4294967295;
        for a in focus.clone() {
            let sv = if g.rng.chance(75) { VMAX - g.rng.below(3) as u64 } else { 1 + g.rng.below(3) as u64 };
            let av = if g.rng.chance(60) { VMAX - g.rng.below(5) as u64 } else { 1 + g.rng.below(3) as u64 };
            g.emit(format!("preset {} {} {}", a, sv, av));
        }
    }
    let total: usize = wts.iter().sum();
    while g.budget() {
        if fault_pct > 0 && g.rng.chance(fault_pct) {
            g.fault_op();
            continue;
        }
        if nest_pct > 0 && g.rng.chance(nest_pct) {
            if profile == "borrow" && g.rng.chance(12) {
                g.nest_pairs();
            } else {
                g.nest_random();
            }
            continue;
        }
        let mut r = g.rng.below(total);
        let mut which = 0;
        for (i, w) in wts.iter().enumerate() {
            if r < *w {
                which = i;
                break;
            }
            r -= *w;
        }
        let a = if g.rng.chance(75) { focus[g.rng.below(focus.len())] } else { g.rng.below(NARCH) };
        match which {
            0 => g.create(a, false),
            1 => {
                // refill to capacity without growing, one past
                if g.rng.chance(25) {
                    let c = g.cur();
                    let room = match g.st.worlds[c].as_ref() {
                        Some(w) => crate::dispatch!(a, A => { let x = <A as ArchX>::of(w); x.capacity() - x.len() }),
                        None => 0,
                    };
                    for _ in 0..(room.min(20) + 1) {
                        g.create(a, true);
                    }
                } else {
                    g.create(a, true)
                }
            }
            2 => {
                if g.rng.chance(80) {
                    let pick = if g.rng.chance(70) { g.pick_live(Some(a)).or_else(|| g.pick_any_ent()) } else { g.pick_any_ent() };
                    if let Some(h) = pick {
                        g.destroy_ent(&h);
                        if g.rng.chance(50) {
                            g.emit(format!("probe {}", h.0));
                        }
                    }
                } else {
                    let v = g.dirs.clone();
                    if let Some(d) = g.rng.pick(&v) {
                        g.destroy_dir(d);
                    }
                }
            }
            3 => {
                if g.rng.chance(80) {
                    if let Some(h) = g.pick_any_ent() {
                        g.todirect(&h);
                    }
                } else {
                    let v = g.dirs.clone();
                    if let Some(d) = g.rng.pick(&v).cloned() {
                        let nd = g.new_d();
                        let l = g.lvl();
                        let k = g.knd();
                        let at = if k == "y" && l == "a" && g.rng.chance(30) { Some(g.rng.below(NARCH)) } else { None };
                        let o = g.emit(format!("todirect {} {} {} {}{}", l, k, d.0, nd, at.map(|a| format!(" @{}", a)).unwrap_or_default()));
                        if o.starts_with("d ") {
                            g.dirs.push((nd, at.unwrap_or(d.1)));
                        }
                    }
                }
            }
            4 => {
                let n = 1 + g.rng.below(3);
                g.probe_some(n);
                if g.rng.chance(35) {
                    g.cmp_pair();
                }
            }
            5 => g.write(),
            6 => g.query(),
            7 => g.clone_world(),
            8 => g.switch(),
            9 => {
                if g.rng.chance(80) {
                    g.forge()
                } else {
                    g.forge_dir()
                }
            }
            10 => g.foreign(),
            11 => {
                g.emit(format!("dump {}", a));
                if g.rng.chance(30) {
                    g.emit(format!("rows {}", a));
                }
            }
            _ => {
                g.emit("events".to_string());
                if g.rng.chance(60) {
                    if g.rng.chance(50) {
                        g.emit("clear".to_string());
                    } else {
                        g.emit(format!("clear {}", a));
                    }
                }
            }
        }
    }
    g.finish();
}
