import Proto.Create
import Proto.Destroy
import Proto.Grow
import Proto.SwapPerm

/-! Trace-level prototype for C01 / C08 on one storage (non-wrapping configuration). -/
namespace Gecs
variable {α : Type}

theorem resolve_iff_mem (cfg : Cfg) (s : Storage α) (h : Inv cfg s) (e : Ent) :
    (∃ d, resolveEntity s e = .ok (some (e.slot, d)) s) ↔ e ∈ s.ents := by
  constructor
  · rintro ⟨d, hd⟩
    unfold resolveEntity at hd
    split at hd; · cases hd
    split at hd; · cases hd
    split at hd; · cases hd
    rename_i sl hsl
    split at hd; · cases hd
    rename_i hchk
    split at hd
    · rename_i d' hidx
      cases hd
      simp at hchk
      have : sl = ⟨.data d, e.ver⟩ := by cases sl; simp_all
      subst this
      exact List.mem_of_getElem? (h.sparse _ _ _ hsl)
    · cases hd
  · intro hm
    obtain ⟨d, hd⟩ := List.getElem?_of_mem hm
    have hs := h.dense d e hd
    have hdl : d < s.len := by
      have := (List.getElem?_eq_some_iff.mp hd).1; rw [h.entsLen] at this; exact this
    have hsl : e.slot < s.capacity := by
      have := (List.getElem?_eq_some_iff.mp hs).1; rw [h.slotsLen] at this; exact this
    refine ⟨d, ?_⟩
    have h1 : ¬ s.len = 0 := by omega
    have h2 : ¬ e.slot ≥ s.capacity := by omega
    simp [resolveEntity, h1, h2, hs, SIdx.isFree]

/-- Ghost state: everything ever issued, and everything destroyed. -/
structure G (α : Type) where
  st : Storage α
  issued : List Ent
  dead : List Ent

structure GInv (cfg : Cfg) (g : G α) : Prop where
  inv : Inv cfg g.st
  nodup : g.issued.Nodup
  live_issued : ∀ e ∈ g.st.ents, e ∈ g.issued
  dead_issued : ∀ e ∈ g.dead, e ∈ g.issued
  alive_iff : ∀ e ∈ g.issued, (e ∈ g.st.ents ↔ e ∉ g.dead)
  stale_lt : ∀ e ∈ g.issued, e ∉ g.st.ents →
      ∃ sl : Slot, g.st.slots[e.slot]? = some sl ∧ e.ver < sl.ver

/-- C01 on the ghost state: an issued handle resolves iff it has not been destroyed. -/
theorem C01_state (cfg : Cfg) (g : G α) (h : GInv cfg g) (e : Ent) (he : e ∈ g.issued) :
    (∃ d, resolveEntity g.st e = .ok (some (e.slot, d)) g.st) ↔ e ∉ g.dead := by
  rw [resolve_iff_mem cfg g.st h.inv e]; exact h.alive_iff e he

/-- Creation below capacity preserves the ghost invariant and issues a fresh handle (C08 step). -/
theorem create_ginv (cfg : Cfg) (g : G α) (h : GInv cfg g) (row : α) (hlt : g.st.len < g.st.capacity) :
    ∃ e s', forceCreate g.st row = .ok e s' ∧ e ∉ g.issued ∧
      GInv cfg ⟨s', g.issued ++ [e], g.dead⟩ := by
  obtain ⟨e, s', hok, hinv, _, _, _, hents, _, ⟨sl, hsl, hfree, hver⟩, hslots⟩ :=
    forceCreate_inv cfg g.st row h.inv hlt
  have hfresh : e ∉ g.issued := by
    intro hin
    by_cases hm : e ∈ g.st.ents
    · obtain ⟨d, hd⟩ := List.getElem?_of_mem hm
      have := h.inv.dense d e hd
      rw [hsl] at this; cases this; simp [SIdx.isFree] at hfree
    · obtain ⟨sl', h1, h2⟩ := h.stale_lt e hin hm
      rw [hsl] at h1; cases h1; omega
  refine ⟨e, s', hok, hfresh, ?_⟩
  have hsi : e.slot < g.st.slots.length := (List.getElem?_eq_some_iff.mp hsl).1
  constructor
  · exact hinv
  · simp only
    rw [List.nodup_append]
    refine ⟨h.nodup, by simp, ?_⟩
    intro a ha b hb; simp at hb; subst hb; intro hab; subst hab; exact hfresh ha
  · intro x hx; simp only at hx ⊢; rw [hents] at hx
    rcases List.mem_append.mp hx with hx | hx
    · exact List.mem_append_left _ (h.live_issued x hx)
    · exact List.mem_append_right _ hx
  · intro x hx; exact List.mem_append_left _ (h.dead_issued x hx)
  · intro x hx; simp only at hx ⊢; rw [hents]
    rcases List.mem_append.mp hx with hx | hx
    · have := h.alive_iff x hx
      constructor
      · intro hm; rcases List.mem_append.mp hm with hm | hm
        · exact this.mp hm
        · simp at hm; rw [hm] at hx; exact absurd hx hfresh
      · intro hd; exact List.mem_append_left _ (this.mpr hd)
    · simp at hx; subst hx
      constructor
      · intro _ hd; exact hfresh (h.dead_issued _ hd)
      · intro _; simp
  · intro x hx hnm; simp only at hx hnm ⊢; rw [hents] at hnm
    have hnm' : x ∉ g.st.ents := fun hm => hnm (List.mem_append_left _ hm)
    have hxe : x ≠ e := fun heq => hnm (by rw [heq]; simp)
    rcases List.mem_append.mp hx with hx | hx
    · obtain ⟨sl', h1, h2⟩ := h.stale_lt x hx hnm'
      rw [hslots]
      by_cases hs : e.slot = x.slot
      · rw [hs] at hsl; rw [hsl] at h1; cases h1
        refine ⟨⟨.data g.st.len, e.ver⟩, ?_, by simp only; omega⟩
        rw [hs, List.getElem?_set_self (by rw [← hs]; exact hsi)]
      · rw [List.getElem?_set_ne hs]; exact ⟨sl', h1, h2⟩
    · simp at hx; exact absurd hx hxe

end Gecs

namespace Gecs
variable {α : Type}

/-- Under `Inv`, the dense handle array has no duplicates (distinct dense indices ⇒ distinct slots). -/
theorem ents_index_unique (cfg : Cfg) (s : Storage α) (h : Inv cfg s) (i j : Nat) (e : Ent)
    (hi : s.ents[i]? = some e) (hj : s.ents[j]? = some e) : i = j := by
  have a := h.dense i e hi
  have b := h.dense j e hj
  rw [a] at b; cases b; rfl

theorem mem_swapRemove_ents (cfg : Cfg) (s : Storage α) (h : Inv cfg s) (d : Nat) (t : Ent)
    (ht : s.ents[d]? = some t) (x : Ent) :
    x ∈ swapRemove s.ents d ↔ (x ∈ s.ents ∧ x ≠ t) := by
  have hd : d < s.ents.length := (List.getElem?_eq_some_iff.mp ht).1
  have hp : x ∈ swapRemove s.ents d ↔ x ∈ s.ents.eraseIdx d := (swapRemove_perm s.ents d hd).mem_iff
  rw [hp, List.mem_eraseIdx_iff_getElem?]
  constructor
  · rintro ⟨i, hne, hi⟩
    refine ⟨List.mem_of_getElem? hi, ?_⟩
    intro heq; subst heq
    exact hne (ents_index_unique cfg s h i d x hi ht)
  · rintro ⟨hm, hne⟩
    obtain ⟨i, hi⟩ := List.getElem?_of_mem hm
    refine ⟨i, ?_, hi⟩
    intro heq; subst heq; rw [ht] at hi; cases hi; exact hne rfl

/-- Destroying a live handle (non-wrapping, no overflow) preserves the ghost invariant and kills
exactly that handle. -/
theorem destroy_ginv (cfg : Cfg) (g : G α) (h : GInv cfg g) (t : Ent)
    (ht : t ∈ g.st.ents)
    (hsv : t.ver < cfg.vmax) (hav : g.st.version < cfg.vmax) :
    ∃ d row s', forceDestroy cfg g.st t.slot d = .ok row s' ∧
      GInv cfg ⟨s', g.issued, g.dead ++ [t]⟩ := by
  obtain ⟨d, hd⟩ := List.getElem?_of_mem ht
  have hslot := h.inv.dense d t hd
  have hsv' : nextVer cfg t.ver = some (t.ver + 1) := by simp [nextVer, hsv]
  have hav' : nextVer cfg g.st.version = some (g.st.version + 1) := by simp [nextVer, hav]
  obtain ⟨row, s', hok, hinv, _, _, _, _, hents, _, hsi, hframe⟩ :=
    forceDestroy_inv cfg g.st t.slot d t.ver h.inv hslot _ _ hsv' hav'
  refine ⟨d, row, s', hok, ?_⟩
  have hmem := mem_swapRemove_ents cfg g.st h.inv d t hd
  constructor
  · exact hinv
  · exact h.nodup
  · intro x hx; simp only at hx; rw [hents] at hx
    exact h.live_issued x ((hmem x).mp hx).1
  · intro x hx; simp only at hx ⊢
    rcases List.mem_append.mp hx with hx | hx
    · exact h.dead_issued x hx
    · simp at hx; subst hx; exact h.live_issued _ ht
  · intro x hx; simp only at hx ⊢; rw [hents, hmem x]
    have := h.alive_iff x hx
    constructor
    · rintro ⟨hm, hne⟩ hdd
      rcases List.mem_append.mp hdd with hdd | hdd
      · exact this.mp hm hdd
      · simp at hdd; exact hne hdd
    · intro hnd
      have h1 : x ∉ g.dead := fun hh => hnd (List.mem_append_left _ hh)
      have h2 : x ≠ t := fun hh => hnd (by rw [hh]; simp)
      exact ⟨this.mpr h1, h2⟩
  · intro x hx hnm; simp only at hx hnm ⊢; rw [hents, hmem x] at hnm
    by_cases hxt : x = t
    · subst hxt
      exact ⟨_, hsi, by simp only; omega⟩
    · have hnm' : x ∉ g.st.ents := fun hm => hnm ⟨hm, hxt⟩
      obtain ⟨sl, h1, h2⟩ := h.stale_lt x hx hnm'
      by_cases hs : x.slot = t.slot
      · rw [hs] at h1; rw [hslot] at h1; cases h1
        rw [hs]; exact ⟨_, hsi, by simp only at h2 ⊢; omega⟩
      · obtain ⟨sl', h3, h4⟩ := hframe x.slot sl hs h1
        exact ⟨sl', h3, by omega⟩

end Gecs
