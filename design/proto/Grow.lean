import Proto.Inv

namespace Gecs
variable {α : Type}

def fresh (n i : Nat) : Slot := if i + 1 < n then ⟨.free (i + 1), 1⟩ else ⟨.freeEnd, 1⟩

theorem fresh_isFree (n i : Nat) : (fresh n i).idx.isFree = true := by
  unfold fresh; split <;> rfl

theorem fresh_ver (n i : Nat) : (fresh n i).ver = 1 := by
  unfold fresh; split <;> rfl

/-- A block of fresh slots `[n-k, n)` forms a chain. -/
theorem chain_fresh (sl : List Slot) (n start : Nat)
    (hf : ∀ i, start ≤ i → i < n → sl[i]? = some (fresh n i)) :
    ∀ k, k ≤ n - start → k ≥ 1 → Chain sl (.free (n - k)) (List.range' (n - k) k) := by
  intro k
  induction k with
  | zero => intro _ h; omega
  | succ k ih =>
    intro hk _
    have hi : sl[n - (k+1)]? = some (fresh n (n - (k+1))) := hf _ (by omega) (by omega)
    rw [List.range'_succ]
    refine .cons hi (fresh_isFree _ _) ?_
    by_cases hk0 : k = 0
    · subst hk0
      have : fresh n (n - 1) = ⟨.freeEnd, 1⟩ := by unfold fresh; split <;> first | omega | rfl
      simp [this]; exact .nil
    · have h1 : n - (k+1) + 1 = n - k := by omega
      have : fresh n (n - (k+1)) = ⟨.free (n - k), 1⟩ := by
        unfold fresh; split
        · rw [h1]
        · omega
      rw [this, h1]
      exact ih (by omega) (by omega)

theorem populate_spec (start n : Nat) (old : List Slot) (hn : n > 0) (hs : start < n)
    (hold : start ≤ old.length) :
    (populate start n old).2 = .free start ∧ (populate start n old).1.length = n
    ∧ (∀ i, i < start → (populate start n old).1[i]? = old[i]?)
    ∧ (∀ i, start ≤ i → i < n → (populate start n old).1[i]? = some (fresh n i)) := by
  have hp : populate start n old = ((List.range n).map (fun i =>
        if i < start then old.getD i ⟨.freeEnd, 0⟩
        else if i + 1 < n then ⟨.free (i + 1), 1⟩ else ⟨.freeEnd, 1⟩), .free start) := by
    simp [populate, hn]
  rw [hp]
  refine ⟨rfl, by simp, ?_, ?_⟩
  · intro i hi
    have h1 : i < n := by omega
    have h2 : i < old.length := by omega
    simp [h1, hi, h2]
  · intro i h1 h2
    have : ¬ i < start := by omega
    simp only [List.getElem?_map, List.getElem?_range h2, Option.map_some, this, if_false, fresh]

theorem withCapacity_inv (cfg : Cfg) (cap : Nat) (hc : cap ≤ cfg.maxCap) (hv : 1 ≤ cfg.vmax) :
    ∃ s : Storage α, withCapacity cfg cap = .ok () s ∧ Inv cfg s ∧ s.len = 0 ∧ s.capacity = cap := by
  by_cases h0 : cap = 0
  · subst h0
    refine ⟨⟨1, 0, 0, .freeEnd, [], [], []⟩, by simp [withCapacity, populate], ?_, rfl, rfl⟩
    exact {
      slotsLen := rfl, entsLen := rfl, rowsLen := rfl, lenCap := Nat.le_refl _, capMax := hc
      dense := by intro d e he; simp at he
      sparse := by intro i d v hi; simp at hi
      chain := ⟨[], Chain.nil, List.nodup_nil, rfl⟩
      verPos := by intro i sl hi; simp at hi }
  · have hpos : cap > 0 := by omega
    obtain ⟨h1, h2, _, h4⟩ := populate_spec 0 cap [] hpos hpos (by simp)
    refine ⟨⟨1, 0, cap, (populate 0 cap []).2, (populate 0 cap []).1, [], []⟩, ?_, ?_, rfl, rfl⟩
    · have : ¬ cap > cfg.maxCap := by omega
      simp [withCapacity, this]
    · constructor
      · exact h2
      · rfl
      · rfl
      · simp
      · exact hc
      · intro d e he; simp at he
      · intro i d v hi
        simp only at hi
        have hlt : i < cap := by
          have := (List.getElem?_eq_some_iff.mp hi).1; omega
        rw [h4 i (by omega) hlt] at hi
        have hfr := fresh_isFree cap i
        rw [Option.some.inj hi] at hfr; simp [SIdx.isFree] at hfr
      · refine ⟨List.range' 0 cap, ?_, List.nodup_range', by simp⟩
        simp only [h1]
        have := chain_fresh (populate 0 cap []).1 cap 0 (fun i a b => h4 i a b) cap (by omega) hpos
        simpa using this
      · intro i sl hi
        simp only at hi
        have hlt : i < cap := by
          have := (List.getElem?_eq_some_iff.mp hi).1; omega
        rw [h4 i (by omega) hlt] at hi
        rw [← Option.some.inj hi, fresh_ver]; omega

theorem grow_inv (cfg : Cfg) (s : Storage α) (h : Inv cfg s) (hfull : s.len = s.capacity)
    (hroom : s.capacity < cfg.maxCap) (hv : 1 ≤ cfg.vmax) :
    ∃ s', grow cfg s = some s' ∧ Inv cfg s' ∧ s'.len = s.len ∧ s.capacity < s'.capacity
      ∧ s'.ents = s.ents ∧ s'.rows = s.rows ∧ s'.version = s.version
      ∧ (∀ i, i < s.capacity → s'.slots[i]? = s.slots[i]?) := by
  let nc := min ((s.capacity + 1) * 2) cfg.maxCap
  have hnc : s.capacity < nc := by simp only [nc]; omega
  have hncm : nc ≤ cfg.maxCap := by simp only [nc]; omega
  obtain ⟨h1, h2, h3, h4⟩ := populate_spec s.len nc s.slots (by omega) (by omega)
    (by rw [h.slotsLen]; omega)
  refine ⟨{ s with
      slots := (populate s.len nc s.slots).1
      freeHead := (populate s.len nc s.slots).2
      capacity := nc }, ?_, ?_, rfl, hnc, rfl, rfl, rfl, ?_⟩
  · have : ¬ s.capacity ≥ cfg.maxCap := by omega
    simp [grow, this, nc]
  · constructor
    · exact h2
    · exact h.entsLen
    · exact h.rowsLen
    · simp only; omega
    · exact hncm
    · intro d e he
      simp only at he ⊢
      have hold := h.dense d e he
      have : e.slot < s.len := by
        have := (List.getElem?_eq_some_iff.mp hold).1; rw [h.slotsLen] at this; omega
      rw [h3 _ this]; exact hold
    · intro i d v hi
      simp only at hi ⊢
      by_cases hlt : i < s.len
      · rw [h3 _ hlt] at hi; exact h.sparse i d v hi
      · have hin : i < nc := by
          have := (List.getElem?_eq_some_iff.mp hi).1; omega
        rw [h4 i (by omega) hin] at hi
        have hfr := fresh_isFree nc i
        rw [Option.some.inj hi] at hfr; simp [SIdx.isFree] at hfr
    · refine ⟨List.range' s.len (nc - s.len), ?_, List.nodup_range', by simp; omega⟩
      simp only [h1]
      have := chain_fresh (populate s.len nc s.slots).1 nc s.len (fun i a b => h4 i a b)
        (nc - s.len) (by omega) (by omega)
      have e : nc - (nc - s.len) = s.len := by omega
      rw [e] at this; exact this
    · intro i sl hi
      simp only at hi
      by_cases hlt : i < s.len
      · rw [h3 _ hlt] at hi; exact h.verPos i sl hi
      · have hin : i < nc := by
          have := (List.getElem?_eq_some_iff.mp hi).1; omega
        rw [h4 i (by omega) hin] at hi
        rw [← Option.some.inj hi, fresh_ver]; omega
  · intro i hi
    simp only
    exact h3 i (by omega)

end Gecs
