import Proto.Model

namespace Gecs

theorem swapRemove_length {β : Type} (l : List β) (i : Nat) :
    (swapRemove l i).length = l.length - 1 := by
  unfold swapRemove
  cases h : l.getLast? with
  | none => simp [List.getLast?_eq_none_iff] at h; simp [h]
  | some x => simp

theorem swapRemove_getElem? {β : Type} (l : List β) (i j : Nat) (hi : i < l.length) :
    (swapRemove l i)[j]? =
      if j < l.length - 1 then (if j = i then l[l.length - 1]? else l[j]?) else none := by
  unfold swapRemove
  cases h : l.getLast? with
  | none => simp [List.getLast?_eq_none_iff] at h; subst h; simp at hi
  | some x =>
    have hx : l[l.length - 1]? = some x := by
      rw [List.getLast?_eq_getElem?] at h; exact h
    by_cases hj : j < l.length - 1
    · simp only [hj, if_true]
      rw [List.getElem?_dropLast]
      simp only [List.length_set, hj, if_true]
      by_cases hji : j = i
      · subst hji; simp [hx, hi]
      · simp [hji, List.getElem?_set_ne (Ne.symm hji)]
    · simp only [hj, if_false]
      rw [List.getElem?_eq_none_iff]; simp; omega

end Gecs
