import Proto.Model

namespace Gecs

variable {α : Type}

/-- The free chain starting at `h` visits exactly the slot indices in `L`, in order. -/
inductive Chain (slots : List Slot) : SIdx → List Nat → Prop where
  | nil : Chain slots .freeEnd []
  | cons {s : Nat} {sl : Slot} {L : List Nat} :
      slots[s]? = some sl → sl.idx.isFree = true →
      Chain slots sl.idx L → Chain slots (.free s) (s :: L)

structure Inv (cfg : Cfg) (s : Storage α) : Prop where
  slotsLen : s.slots.length = s.capacity
  entsLen : s.ents.length = s.len
  rowsLen : s.rows.length = s.len
  lenCap : s.len ≤ s.capacity
  capMax : s.capacity ≤ cfg.maxCap
  dense : ∀ (d : Nat) (e : Ent), s.ents[d]? = some e → s.slots[e.slot]? = some (Slot.mk (.data d) e.ver)
  sparse : ∀ (i d v : Nat), s.slots[i]? = some (Slot.mk (.data d) v) → s.ents[d]? = some (Ent.mk i v)
  chain : ∃ L, Chain s.slots s.freeHead L ∧ L.Nodup ∧ L.length + s.len = s.capacity
  verPos : ∀ (i : Nat) (sl : Slot), s.slots[i]? = some sl → 1 ≤ sl.ver ∧ sl.ver ≤ cfg.vmax

theorem Chain.mem_lt {slots : List Slot} {h : SIdx} {L : List Nat}
    (c : Chain slots h L) : ∀ i ∈ L, i < slots.length := by
  induction c with
  | nil => intro i hi; cases hi
  | cons hs _ _ ih =>
    intro i hi
    cases hi with
    | head => exact (List.getElem?_eq_some_iff.mp hs).1
    | tail _ h => exact ih i h

theorem Chain.mem_free {slots : List Slot} {h : SIdx} {L : List Nat}
    (c : Chain slots h L) : ∀ i ∈ L, ∃ sl, slots[i]? = some sl ∧ sl.idx.isFree = true := by
  induction c with
  | nil => intro i hi; cases hi
  | cons hs hf _ ih =>
    intro i hi
    cases hi with
    | head => exact ⟨_, hs, hf⟩
    | tail _ h => exact ih i h

/-- Setting a slot outside the chain preserves the chain. -/
theorem Chain.set_not_mem {slots : List Slot} {h : SIdx} {L : List Nat}
    (c : Chain slots h L) (j : Nat) (x : Slot) (hj : j ∉ L) :
    Chain (slots.set j x) h L := by
  induction c with
  | nil => exact .nil
  | @cons s sl L' hs hf _ ih =>
    have hne : j ≠ s := fun h => hj (h ▸ List.mem_cons_self)
    refine .cons (sl := sl) ?_ hf (ih (fun h => hj (List.mem_cons_of_mem _ h)))
    rw [List.getElem?_set_ne hne]; exact hs

end Gecs
