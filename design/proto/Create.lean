import Proto.Inv

namespace Gecs
variable {α : Type}

theorem forceCreate_inv (cfg : Cfg) (s : Storage α) (row : α) (h : Inv cfg s)
    (hlt : s.len < s.capacity) :
    ∃ e s', forceCreate s row = .ok e s' ∧ Inv cfg s' ∧ s'.len = s.len + 1
      ∧ s'.capacity = s.capacity ∧ s'.version = s.version
      ∧ s'.ents = s.ents ++ [e] ∧ s'.rows = s.rows ++ [row]
      ∧ (∃ sl, s.slots[e.slot]? = some sl ∧ sl.idx.isFree = true ∧ sl.ver = e.ver)
      ∧ s'.slots = s.slots.set e.slot ⟨.data s.len, e.ver⟩ := by
  obtain ⟨L, hc, hnd, hlen⟩ := h.chain
  generalize hfh : s.freeHead = fh at hc
  cases hc with
  | nil => simp at hlen; omega
  | @cons si sl L' hs hf hc' =>
    have hsi : si < s.slots.length := (List.getElem?_eq_some_iff.mp hs).1
    refine ⟨⟨si, sl.ver⟩, { s with
        freeHead := sl.idx
        slots := s.slots.set si ⟨.data s.len, sl.ver⟩
        len := s.len + 1
        ents := s.ents ++ [⟨si, sl.ver⟩]
        rows := s.rows ++ [row] }, ?_, ?_, rfl, rfl, rfl, rfl, rfl, ⟨sl, hs, hf, rfl⟩, rfl⟩
    · simp [forceCreate, hfh, hs]
    · have hnd' := List.nodup_cons.mp hnd
      constructor
      · simp [h.slotsLen]
      · simp [h.entsLen]
      · simp [h.rowsLen]
      · simp at hlen ⊢; omega
      · exact h.capMax
      · -- dense
        intro d e he
        simp only at he ⊢
        by_cases hd : d < s.ents.length
        · rw [List.getElem?_append_left hd] at he
          have hold := h.dense d e he
          have hne : si ≠ e.slot := by
            intro heq; subst heq; rw [hs] at hold; cases hold; simp [SIdx.isFree] at hf
          rw [List.getElem?_set_ne hne]; exact hold
        · have hd' : d = s.ents.length := by
            have := (List.getElem?_eq_some_iff.mp he).1
            simp at this; omega
          subst hd'
          simp at he; subst he
          simp [hsi, h.entsLen]
      · -- sparse
        intro i d v hi
        simp only at hi ⊢
        by_cases hisi : si = i
        · subst hisi
          simp [hsi] at hi
          obtain ⟨hd, hv⟩ := hi
          subst hd; subst hv
          simp [← h.entsLen]
        · rw [List.getElem?_set_ne hisi] at hi
          have hold := h.sparse i d v hi
          have hd : d < s.ents.length := (List.getElem?_eq_some_iff.mp hold).1
          rw [List.getElem?_append_left hd]; exact hold
      · -- chain
        refine ⟨L', hc'.set_not_mem si _ hnd'.1, hnd'.2, ?_⟩
        simp at hlen ⊢; omega
      · -- verPos
        intro i sl' hi
        simp only at hi
        by_cases hisi : si = i
        · subst hisi
          simp [hsi] at hi; subst hi
          exact h.verPos si sl hs
        · rw [List.getElem?_set_ne hisi] at hi
          exact h.verPos i sl' hi
end Gecs
