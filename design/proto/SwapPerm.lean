import Proto.SwapRemove

namespace Gecs

theorem swapRemove_take {β : Type} (l : List β) (i : Nat) (hi : i < l.length) :
    (swapRemove l i).take i = l.take i := by
  apply List.ext_getElem?
  intro j
  rw [List.getElem?_take, List.getElem?_take]
  split
  · rename_i hj
    rw [swapRemove_getElem? _ _ _ hi]
    have : j < l.length - 1 := by omega
    have hne : j ≠ i := by omega
    simp [this, hne]
  · rfl

theorem swapRemove_perm {β : Type} (l : List β) (i : Nat) (hi : i < l.length) :
    (swapRemove l i).Perm (l.eraseIdx i) := by
  unfold swapRemove
  cases h : l.getLast? with
  | none => simp [List.getLast?_eq_none_iff] at h; subst h; simp at hi
  | some x =>
    obtain ⟨init, rfl⟩ : ∃ init, l = init ++ [x] := by
      have := List.getLast?_eq_some_iff.mp h
      obtain ⟨ys, hys⟩ := this; exact ⟨ys, hys⟩
    by_cases hlast : i = init.length
    · subst hlast
      simp [List.eraseIdx_append_of_length_le]
    · have hi' : i < init.length := by simp at hi; omega
      show (((init ++ [x]).set i x).dropLast).Perm _
      rw [List.set_append_left _ _ hi', List.dropLast_concat]
      rw [List.eraseIdx_append_of_lt_length hi']
      -- init.set i x  ~  init.eraseIdx i ++ [x]
      have h1 : (init.set i x).Perm (x :: init.eraseIdx i) := by
        rw [List.set_eq_take_append_cons_drop, if_pos hi', List.eraseIdx_eq_take_drop_succ]
        exact List.perm_middle
      exact h1.trans (List.perm_append_singleton x _).symm

end Gecs
