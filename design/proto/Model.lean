/-
Prototype of the L1 storage model (mirrors src/archetype/storage.rs + slot.rs).
Import-free so it can be linked as a lean_exe.
-/
namespace Gecs

inductive SIdx where
  | data (i : Nat)
  | free (next : Nat)
  | freeEnd
deriving DecidableEq, Repr

def SIdx.isFree : SIdx → Bool
  | .data _ => false
  | _ => true

structure Slot where
  idx : SIdx
  ver : Nat
deriving DecidableEq, Repr

structure Ent where
  slot : Nat
  ver : Nat
deriving DecidableEq, Repr

structure Cfg where
  maxCap : Nat
  vmax : Nat
  wrapping : Bool
deriving Repr

structure Storage (α : Type) where
  version : Nat
  len : Nat
  capacity : Nat
  freeHead : SIdx
  slots : List Slot
  ents : List Ent
  rows : List α
deriving Repr

inductive Out (σ : Type) (β : Type) where
  | ok (b : β) (s : σ)
  | panic (msg : String) (s : σ)
  | ub (msg : String)
deriving Repr

variable {α : Type}

/-- slot.rs populate_free_list: positions `start..n-1` become a fresh chain. -/
def populate (start n : Nat) (old : List Slot) : List Slot × SIdx :=
  if n > 0 then
    ((List.range n).map (fun i =>
        if i < start then old.getD i ⟨.freeEnd, 0⟩
        else if i + 1 < n then ⟨.free (i + 1), 1⟩ else ⟨.freeEnd, 1⟩),
     .free start)
  else ([], .freeEnd)

def withCapacity (cfg : Cfg) (cap : Nat) : Out (Storage α) Unit :=
  if cap > cfg.maxCap then .panic "capacity may not exceed" ⟨1, 0, 0, .freeEnd, [], [], []⟩
  else
    let (sl, fh) := populate 0 cap []
    .ok () ⟨1, 0, cap, fh, sl, [], []⟩

def nextVer (cfg : Cfg) (v : Nat) : Option Nat :=
  if v < cfg.vmax then some (v + 1)
  else if cfg.wrapping then some 1 else none

def resolveEntity (s : Storage α) (e : Ent) : Out (Storage α) (Option (Nat × Nat)) :=
  if s.len = 0 then .ok none s
  else if e.slot ≥ s.capacity then .ok none s
  else match s.slots[e.slot]? with
    | none => .ub "slot get_unchecked oob"
    | some sl =>
      if sl.ver ≠ e.ver || sl.idx.isFree then .ok none s
      else match sl.idx with
        | .data d => .ok (some (e.slot, d)) s
        | _ => .ub "unwrap_unchecked on free index"

def resolveDirect (s : Storage α) (d : Nat) (v : Nat) : Out (Storage α) (Option (Nat × Nat)) :=
  if s.len = 0 then .ok none s
  else if v ≠ s.version then .ok none s
  else if d ≥ s.len then .ok none s
  else match s.ents[d]? with
    | none => .ub "entities get_unchecked oob"
    | some e => .ok (some (e.slot, d)) s

def grow (cfg : Cfg) (s : Storage α) : Option (Storage α) :=
  if s.capacity ≥ cfg.maxCap then none
  else
    let nc := min ((s.capacity + 1) * 2) cfg.maxCap
    let (sl, fh) := populate s.len nc s.slots
    some { s with slots := sl, freeHead := fh, capacity := nc }

def forceCreate (s : Storage α) (row : α) : Out (Storage α) Ent :=
  match s.freeHead with
  | .free si =>
    match s.slots[si]? with
    | none => .ub "force_create: slot oob"
    | some sl =>
      let e : Ent := ⟨si, sl.ver⟩
      .ok e { s with
        freeHead := sl.idx
        slots := s.slots.set si ⟨.data s.len, sl.ver⟩
        len := s.len + 1
        ents := s.ents ++ [e]
        rows := s.rows ++ [row] }
  | _ => .ub "force_create: free list end / not free"

def push (cfg : Cfg) (s : Storage α) (row : α) : Out (Storage α) Ent :=
  if s.len ≥ s.capacity then
    match grow cfg s with
    | none => .panic "capacity overflow" s
    | some s' => forceCreate s' row
  else forceCreate s row

def pushWithin (s : Storage α) (row : α) : Out (Storage α) (Option Ent) :=
  if s.len ≥ s.capacity then .ok none s
  else match forceCreate s row with
    | .ok e s' => .ok (some e) s'
    | .panic m s' => .panic m s'
    | .ub m => .ub m

def swapRemove {β : Type} (l : List β) (i : Nat) : List β :=
  match l.getLast? with
  | none => l
  | some x => (l.set i x).dropLast

/-- force_destroy with overflow checks hoisted before any mutation (post-fix order). -/
def forceDestroy (cfg : Cfg) (s : Storage α) (si d : Nat) : Out (Storage α) α :=
  match s.slots[si]?, s.ents[s.len - 1]?, s.rows[d]? with
  | some sl, some lastE, some row =>
    match nextVer cfg sl.ver, nextVer cfg s.version with
    | none, _ => .panic "slot version overflow" s
    | _, none => .panic "arch version overflow" s
    | some sv, some av =>
      let slots1 := s.slots.set lastE.slot ⟨.data d, (s.slots.getD lastE.slot ⟨.freeEnd, 0⟩).ver⟩
      let slots2 := slots1.set si ⟨s.freeHead, sv⟩
      .ok row { s with
        ents := swapRemove s.ents d
        rows := swapRemove s.rows d
        slots := slots2
        version := av
        freeHead := .free si
        len := s.len - 1 }
  | _, _, _ => .ub "force_destroy: oob"

def destroy (cfg : Cfg) (s : Storage α) (e : Ent) : Out (Storage α) (Option α) :=
  match resolveEntity s e with
  | .ok (some (si, d)) _ =>
    match forceDestroy cfg s si d with
    | .ok r s' => .ok (some r) s'
    | .panic m s' => .panic m s'
    | .ub m => .ub m
  | .ok none _ => .ok none s
  | .panic m s' => .panic m s'
  | .ub m => .ub m

end Gecs
