import Proto.Inv
import Proto.SwapRemove

namespace Gecs
variable {α : Type}

theorem Chain.head_isFree {slots : List Slot} {h : SIdx} {L : List Nat}
    (c : Chain slots h L) : h.isFree = true := by
  cases c <;> rfl

theorem nextVer_bounds {cfg : Cfg} {v w : Nat} (h : nextVer cfg v = some w)
    (hv : 1 ≤ v ∧ v ≤ cfg.vmax) : 1 ≤ w ∧ w ≤ cfg.vmax := by
  unfold nextVer at h
  split at h
  · cases h; omega
  · split at h
    · cases h; omega
    · cases h

theorem forceDestroy_inv (cfg : Cfg) (s : Storage α) (si d v : Nat) (h : Inv cfg s)
    (hsl : s.slots[si]? = some ⟨.data d, v⟩)
    (sv av : Nat) (hsv : nextVer cfg v = some sv) (hav : nextVer cfg s.version = some av) :
    ∃ row s', forceDestroy cfg s si d = .ok row s' ∧ Inv cfg s' ∧ s.rows[d]? = some row
      ∧ s'.len = s.len - 1 ∧ s'.capacity = s.capacity ∧ s'.version = av
      ∧ s'.ents = swapRemove s.ents d ∧ s'.rows = swapRemove s.rows d
      ∧ s'.slots[si]? = some ⟨s.freeHead, sv⟩
      ∧ (∀ (i : Nat) (sl : Slot), i ≠ si → s.slots[i]? = some sl →
          ∃ sl' : Slot, s'.slots[i]? = some sl' ∧ sl'.ver = sl.ver) := by
  have hent := h.sparse si d v hsl
  have hd : d < s.ents.length := (List.getElem?_eq_some_iff.mp hent).1
  have hdl : d < s.len := h.entsLen ▸ hd
  have hdr : d < s.rows.length := h.rowsLen ▸ hdl
  have hsi : si < s.slots.length := (List.getElem?_eq_some_iff.mp hsl).1
  obtain ⟨row, hrow⟩ : ∃ row, s.rows[d]? = some row := ⟨s.rows[d], by simp [hdr]⟩
  have hlastlt : s.len - 1 < s.ents.length := by rw [h.entsLen]; omega
  obtain ⟨lastE, hlast⟩ : ∃ e, s.ents[s.len - 1]? = some e := ⟨s.ents[s.len - 1], by simp [hlastlt]⟩
  have hlastSlot := h.dense _ _ hlast
  have hls : lastE.slot < s.slots.length := (List.getElem?_eq_some_iff.mp hlastSlot).1
  have hgetD : (s.slots.getD lastE.slot ⟨.freeEnd, 0⟩).ver = lastE.ver := by
    rw [List.getD_eq_getElem?_getD, hlastSlot]; rfl
  have hgetE : s.slots[lastE.slot].ver = lastE.ver := by
    have := List.getElem?_eq_some_iff.mp hlastSlot
    obtain ⟨_, h2⟩ := this; rw [h2]
  obtain ⟨L, hc, hnd, hlen⟩ := h.chain
  have hsiL : si ∉ L := by
    intro hm; obtain ⟨sl, h1, h2⟩ := hc.mem_free si hm
    rw [hsl] at h1; cases h1; simp [SIdx.isFree] at h2
  have hlsL : lastE.slot ∉ L := by
    intro hm; obtain ⟨sl, h1, h2⟩ := hc.mem_free _ hm
    rw [hlastSlot] at h1; cases h1; simp [SIdx.isFree] at h2
  -- key fact: slot identity <-> dense identity
  have slot_inj : ∀ (j : Nat) (e : Ent), s.ents[j]? = some e → (e.slot = si ↔ j = d) := by
    intro j e he
    have := h.dense j e he
    constructor
    · intro heq; rw [heq, hsl] at this; cases this; rfl
    · intro heq; subst heq; rw [hent] at he; cases he; rfl
  have slot_inj_last : ∀ (j : Nat) (e : Ent), s.ents[j]? = some e → (e.slot = lastE.slot ↔ j = s.len - 1) := by
    intro j e he
    have := h.dense j e he
    constructor
    · intro heq; rw [heq, hlastSlot] at this
      have := congrArg Slot.idx (Option.some.inj this); simp at this; exact this.symm
    · intro heq; subst heq; rw [hlast] at he; cases he; rfl
  refine ⟨row, { s with
        ents := swapRemove s.ents d
        rows := swapRemove s.rows d
        slots := (s.slots.set lastE.slot ⟨.data d, (s.slots.getD lastE.slot ⟨.freeEnd, 0⟩).ver⟩).set si ⟨s.freeHead, sv⟩
        version := av
        freeHead := .free si
        len := s.len - 1 }, ?_, ?_, hrow, rfl, rfl, rfl, rfl, rfl, ?_, ?_⟩
  · simp [forceDestroy, hsl, hlast, hrow, hsv, hav]
  · constructor
    · simp [h.slotsLen]
    · simp [swapRemove_length, h.entsLen]
    · simp [swapRemove_length, h.rowsLen]
    · simp; have := h.lenCap; omega
    · exact h.capMax
    · -- dense
      intro j e he
      simp only at he ⊢
      rw [swapRemove_getElem? _ _ _ hd, h.entsLen] at he
      split at he
      · rename_i hj
        split at he
        · rename_i hjd
          subst hjd
          rw [hlast] at he; cases he
          have hne : lastE.slot ≠ si := by
            intro heq; have := (slot_inj _ _ hlast).mp heq; omega
          rw [List.getElem?_set_ne (Ne.symm hne)]
          simp [hls, hgetE]
        · rename_i hjd
          have hold := h.dense j e he
          have h1 : e.slot ≠ si := fun heq => hjd ((slot_inj _ _ he).mp heq)
          have h2 : e.slot ≠ lastE.slot := fun heq => by
            have := (slot_inj_last _ _ he).mp heq; omega
          rw [List.getElem?_set_ne (Ne.symm h1), List.getElem?_set_ne (Ne.symm h2)]
          exact hold
      · cases he
    · -- sparse
      intro i d' v' hi
      simp only at hi ⊢
      have hfree := hc.head_isFree
      by_cases hisi : si = i
      · subst hisi
        simp [hsi] at hi
        rw [hi.1] at hfree; simp [SIdx.isFree] at hfree
      · rw [List.getElem?_set_ne hisi] at hi
        rw [swapRemove_getElem? _ _ _ hd, h.entsLen]
        by_cases hil : lastE.slot = i
        · subst hil
          simp [hls] at hi
          obtain ⟨hdd, hvv⟩ := hi
          subst hdd
          have hdne : d ≠ s.len - 1 := by
            intro heq
            have := (slot_inj _ _ hlast).mpr heq.symm
            exact hisi this.symm
          have : d < s.len - 1 := by omega
          simp [this, hlast, ← hvv, hgetE]
        · rw [List.getElem?_set_ne hil] at hi
          have hold := h.sparse i d' v' hi
          have hd' : d' < s.ents.length := (List.getElem?_eq_some_iff.mp hold).1
          have h1 : d' ≠ d := by
            intro heq; subst heq
            have := (slot_inj _ _ hold).mpr rfl; exact hisi this.symm
          have h2 : d' ≠ s.len - 1 := by
            intro heq
            have := (slot_inj_last _ _ hold).mpr heq; exact hil this.symm
          have : d' < s.len - 1 := by rw [h.entsLen] at hd'; omega
          simp [this, h1, hold]
    · -- chain
      refine ⟨si :: L, ?_, List.nodup_cons.mpr ⟨hsiL, hnd⟩, ?_⟩
      · refine .cons (sl := ⟨s.freeHead, sv⟩) ?_ hc.head_isFree ?_
        · simp [hsi]
        · exact (hc.set_not_mem _ _ hlsL).set_not_mem _ _ hsiL
      · simp; omega
    · -- verPos
      intro i sl' hi
      simp only at hi
      by_cases hisi : si = i
      · subst hisi
        simp [hsi] at hi; subst hi
        exact nextVer_bounds hsv (h.verPos _ _ hsl)
      · rw [List.getElem?_set_ne hisi] at hi
        by_cases hil : lastE.slot = i
        · subst hil
          simp [hls] at hi; subst hi
          simp only [hgetE]
          exact h.verPos _ _ hlastSlot
        · rw [List.getElem?_set_ne hil] at hi
          exact h.verPos _ _ hi
  · simp [hsi]
  · intro i sl hisi hi
    simp only
    rw [List.getElem?_set_ne (Ne.symm hisi)]
    by_cases hil : lastE.slot = i
    · subst hil
      rw [hlastSlot] at hi; cases hi
      refine ⟨⟨.data d, (s.slots.getD lastE.slot ⟨.freeEnd, 0⟩).ver⟩, by simp [hls], ?_⟩
      exact hgetD
    · rw [List.getElem?_set_ne hil]; exact ⟨sl, hi, rfl⟩
end Gecs
