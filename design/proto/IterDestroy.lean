import Proto.SwapPerm

/-! Prototype for C07: the reverse loop of `ecs_iter_destroy!` over one archetype's dense list. -/
namespace Gecs

inductive DStep | cont | brk | contDestroy | brkDestroy

structure LoopRes (β σ : Type) where
  dense : List β
  visited : List β
  destroyed : List β
  st : σ
  stopped : Bool

variable {β σ : Type}

/-- `loop f (idx+1)` visits index `idx`, exactly as `for idx in (0..len).rev()`. -/
def loop (f : σ → β → DStep × σ) : Nat → σ → List β → List β → List β → Option (LoopRes β σ)
  | 0, st, D, vis, des => some ⟨D, vis, des, st, false⟩
  | i+1, st, D, vis, des =>
    match D[i]? with
    | none => none
    | some x =>
      match f st x with
      | (.cont, st') => loop f i st' D (vis ++ [x]) des
      | (.brk, st') => some ⟨D, vis ++ [x], des, st', true⟩
      | (.contDestroy, st') => loop f i st' (swapRemove D i) (vis ++ [x]) (des ++ [x])
      | (.brkDestroy, st') => some ⟨swapRemove D i, vis ++ [x], des ++ [x], st', true⟩

theorem swapRemove_append_perm (D : List β) (i : Nat) (x : β) (hx : D[i]? = some x) :
    (swapRemove D i ++ [x]).Perm D := by
  have hi : i < D.length := (List.getElem?_eq_some_iff.mp hx).1
  have h1 := swapRemove_perm D i hi
  have h2 : (D.eraseIdx i ++ [x]).Perm D := by
    have hD : D = D.take i ++ x :: D.drop (i+1) := by
      have := List.getElem?_eq_some_iff.mp hx
      obtain ⟨_, h⟩ := this
      rw [← h]; exact (List.take_append_drop i D).symm.trans (by rw [List.drop_eq_getElem_cons hi])
    rw [List.eraseIdx_eq_take_drop_succ]
    conv => rhs; rw [hD]
    exact (List.perm_append_singleton x _).trans List.perm_middle.symm
  exact (List.Perm.append_right [x] h1).trans h2

theorem loop_spec (f : σ → β → DStep × σ) (D0 : List β) :
    ∀ (i : Nat) (st : σ) (D vis des : List β),
      i ≤ D.length → D.take i = D0.take i → vis = (D0.drop i).reverse → (D ++ des).Perm D0 →
      ∃ r, loop f i st D vis des = some r ∧
        (∃ j, j ≤ i ∧ r.visited = (D0.drop j).reverse ∧ (r.stopped = false → j = 0)) ∧
        (r.dense ++ r.destroyed).Perm D0 := by
  intro i
  induction i with
  | zero =>
    intro st D vis des _ _ hv hp
    exact ⟨_, rfl, ⟨0, Nat.le_refl _, hv, fun _ => rfl⟩, hp⟩
  | succ i ih =>
    intro st D vis des h1 h2 hv hp
    have hi : i < D.length := by omega
    have hi0 : i < D0.length := by
      have := congrArg List.length h2; simp at this; omega
    have hx : D[i]? = some D0[i] := by
      have : (D.take (i+1))[i]? = (D0.take (i+1))[i]? := by rw [h2]
      rw [List.getElem?_take, List.getElem?_take] at this
      simp at this; rw [this]; simp [hi0]
    have hvis : vis ++ [D0[i]] = (D0.drop i).reverse := by
      have hd : D0.drop i = D0[i] :: D0.drop (i+1) := List.drop_eq_getElem_cons hi0
      rw [hv, hd, List.reverse_cons]
    have htake : D.take i = D0.take i := by
      have := congrArg (List.take i) h2
      simpa [List.take_take, Nat.min_eq_left (Nat.le_succ i)] using this
    unfold loop
    rw [hx]
    simp only
    rcases hf : f st D0[i] with ⟨s, st'⟩
    cases s with
    | cont =>
      simp only
      obtain ⟨r, hr, ⟨j, hj, hjv, hjs⟩, hperm⟩ := ih st' D (vis ++ [D0[i]]) des (by omega) htake hvis.symm.symm hp
      exact ⟨r, hr, ⟨j, by omega, hjv, hjs⟩, hperm⟩
    | brk =>
      simp only
      exact ⟨_, rfl, ⟨i, by omega, hvis, fun h => by simp at h⟩, hp⟩
    | contDestroy =>
      simp only
      have hp' : (swapRemove D i ++ (des ++ [D0[i]])).Perm D0 := by
        have := swapRemove_append_perm D i _ hx
        have h3 : (swapRemove D i ++ (des ++ [D0[i]])).Perm ((swapRemove D i ++ [D0[i]]) ++ des) := by
          rw [List.append_assoc]
          exact List.Perm.append_left _ List.perm_append_comm
        exact h3.trans ((List.Perm.append_right des this).trans hp)
      obtain ⟨r, hr, ⟨j, hj, hjv, hjs⟩, hperm⟩ :=
        ih st' (swapRemove D i) (vis ++ [D0[i]]) (des ++ [D0[i]])
          (by rw [swapRemove_length]; omega)
          (by rw [swapRemove_take D i hi]; exact htake) hvis.symm.symm hp'
      exact ⟨r, hr, ⟨j, by omega, hjv, hjs⟩, hperm⟩
    | brkDestroy =>
      simp only
      have hp' : (swapRemove D i ++ (des ++ [D0[i]])).Perm D0 := by
        have := swapRemove_append_perm D i _ hx
        have h3 : (swapRemove D i ++ (des ++ [D0[i]])).Perm ((swapRemove D i ++ [D0[i]]) ++ des) := by
          rw [List.append_assoc]
          exact List.Perm.append_left _ List.perm_append_comm
        exact h3.trans ((List.Perm.append_right des this).trans hp)
      exact ⟨_, rfl, ⟨i, by omega, hvis, fun h => by simp at h⟩, hp'⟩

/-- C07 (one archetype): the loop terminates without an out-of-bounds access, calls the closure on
the entities alive at loop start in reverse dense order, each at most once and — unless stopped by a
Break — each exactly once, and survivors plus destroyed are a permutation of the original. -/
theorem iterDestroy_spec (f : σ → β → DStep × σ) (st : σ) (D0 : List β) :
    ∃ r, loop f D0.length st D0 [] [] = some r ∧
      (∃ j, r.visited = (D0.drop j).reverse ∧ (r.stopped = false → r.visited = D0.reverse)) ∧
      (r.dense ++ r.destroyed).Perm D0 := by
  obtain ⟨r, hr, ⟨j, _, hjv, hjs⟩, hp⟩ :=
    loop_spec f D0 D0.length st D0 [] [] (Nat.le_refl _) rfl (by simp) (by simp)
  refine ⟨r, hr, ⟨j, hjv, ?_⟩, hp⟩
  intro h; rw [hjv, hjs h]; simp

end Gecs
