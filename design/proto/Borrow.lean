/-! Prototype for C11: RefCell cells, nested guards, unwinding. -/
namespace Gecs

/-- Outstanding guards, innermost first: (cell id, mutable?). The RefCell state of cell `c` is the
abstraction `readers = count (c,false)`, `writer = (c,true) ∈ held`. -/
abbrev Held := List (Nat × Bool)

def compatible (held : Held) (c : Nat) (m : Bool) : Bool :=
  held.all (fun g => g.1 != c || (!m && !g.2))

inductive Acc where
  | guard (c : Nat) (m : Bool) (body : List Acc)

mutual
/-- Returns `(held afterwards, panicked?)`. A refused borrow panics; unwinding releases guards. -/
def execOne (held : Held) : Acc → Held × Bool
  | .guard c m body =>
    if compatible held c m then
      let r := execList ((c, m) :: held) body
      (r.1.tail, r.2)          -- guard dropped on normal exit and on unwind alike
    else (held, true)
def execList (held : Held) : List Acc → Held × Bool
  | [] => (held, false)
  | a :: rest =>
    let r := execOne held a
    if r.2 then r else execList r.1 rest
end

mutual
/-- Static description of "no access conflicts with a guard still held". -/
def okOne (held : Held) : Acc → Bool
  | .guard c m body => compatible held c m && okList ((c, m) :: held) body
def okList (held : Held) : List Acc → Bool
  | [] => true
  | a :: rest => okOne held a && okList held rest
end

mutual
theorem execOne_spec (held : Held) (a : Acc) :
    (execOne held a).1 = held ∧ ((execOne held a).2 = true ↔ okOne held a = false) := by
  cases a with
  | guard c m body =>
    unfold execOne okOne
    by_cases hc : compatible held c m
    · have ih := execList_spec ((c, m) :: held) body
      simp only [hc, if_true, Bool.true_and]
      refine ⟨by rw [ih.1]; rfl, ih.2⟩
    · simp [hc]
theorem execList_spec (held : Held) (l : List Acc) :
    (execList held l).1 = held ∧ ((execList held l).2 = true ↔ okList held l = false) := by
  cases l with
  | nil => simp [execList, okList]
  | cons a rest =>
    unfold execList okList
    have h1 := execOne_spec held a
    by_cases hp : (execOne held a).2 = true
    · simp only [hp, if_true]
      refine ⟨h1.1, ?_⟩
      have := h1.2.mp hp
      simp [this]
    · have hp' : (execOne held a).2 = false := by simpa using hp
      simp only [hp', Bool.false_eq_true, if_false]
      rw [h1.1]
      have h2 := execList_spec held rest
      refine ⟨h2.1, ?_⟩
      have hok : okOne held a = true := by
        cases h : okOne held a with
        | true => rfl
        | false => exact absurd (h1.2.mpr h) hp
      simp [hok, h2.2]
end

/-- No aliasing is ever granted: a guard is acquired only when compatible with everything held,
so the held list always satisfies the RefCell exclusion invariant. -/
def exclusive : Held → Bool
  | [] => true
  | (c, m) :: rest => compatible rest c m && exclusive rest

end Gecs
