#!/usr/bin/env python3
"""Assembles /verif/DESIGN.md from the section files in /verif/design/ and the seed metadata
(section 9 is generated from seeded/*/meta.json so that it always shows the recorded verdicts)."""
import json, os, glob, re

D = os.path.dirname(os.path.abspath(__file__))
V = os.path.dirname(D)


def read(name):
    return open(os.path.join(D, name)).read().rstrip("\n") + "\n"


def sec9():
    rows = []
    for mf in sorted(glob.glob(os.path.join(V, "seeded", "*", "meta.json"))):
        sid = os.path.basename(os.path.dirname(mf))
        m = json.load(open(mf))
        v = m.get("verdicts", {})
        cells = []
        for p, r in v.items():
            line = r.get("line") or ""
            cls = ""
            mm = re.search(r"replays/%s-(?:oracle-)?([A-Za-z0-9_-]+)\.json" % p, line)
            if mm:
                cls = mm.group(1)
            if r.get("exit") == 0:
                cells.append(f"{p}: pass")
            elif r.get("concrete_replay"):
                cells.append(f"**{p}: VIOLATION** `{cls}`")
            else:
                cells.append(f"{p}: VIOLATION no-failing-input-found")
        rows.append((sid, m.get("property"), m.get("change", ""), m.get("needs_to_manifest", ""), "; ".join(cells) or "(same patch as another seed)"))
    out = []
    out.append("## 9. Seeded changes: which checks catch which changes\n")
    out.append("""The checks were tested against changes to recatek/gecs written by **fresh sub-agents**. Each
agent was given only the text of one property and its own scratch git worktree of `/repo`
(under `/tmp`; nothing from `/verif`), and was asked for one small, plausible change that
breaks the property while everything compiles and the whole existing suite (45 tests + 19
doctests, also with `--all-features`) stays green, that needs something specific to show,
together with a demonstration. Agents of the second wave were additionally told which
mutations the first wave had taken. I confirmed every change myself in its worktree
(`tools/verify_seed.sh`: existing targets green with the change; demonstration fails with it
and passes without it) before keeping it under `/verif/seeded/<id>/` (`patch.diff`, the
demonstration, the author's notes, `meta.json`, the replays the checks produced). No change
was ever committed to `/repo`: `tools/try_seed.py` applies the patch, runs the quick checks
and restores `/repo` (`git checkout -- .`) even on failure; every scratch worktree was
removed afterwards.

Verdicts below are the recorded results of the CURRENT machinery (`tools/run_seeds.sh`, quick
tier, default seed). "VIOLATION `class`" means a concrete, shrunk replay produced by the
named oracle / probe class; a second property in the same row is a check that was run in
addition because the change plausibly touches it (a `pass` there is the correct verdict
when that property really is unaffected).
""")
    out.append("| seed | property | change | needs, to manifest | verdicts of the quick checks |")
    out.append("|---|---|---|---|---|")
    for (sid, prop, change, needs, cells) in rows:
        out.append(f"| `{sid}` | {prop} | {change} | {needs} | {cells} |")
    out.append("")
    out.append(read("asbuilt-sec9-history.md"))
    return "\n".join(out)


def main():
    v2 = "/tmp/design-out/v2"
    sec3 = open(os.path.join(D, "asbuilt-sec3.md")).read() if os.path.exists(os.path.join(D, "asbuilt-sec3.md")) else open(os.path.join(v2, "sec3-models.md")).read()
    sec6 = open(os.path.join(D, "asbuilt-sec6.md")).read() if os.path.exists(os.path.join(D, "asbuilt-sec6.md")) else open(os.path.join(v2, "sec6-properties.md")).read()
    parts = [read("asbuilt-head.md"), sec3.rstrip("\n") + "\n", read("asbuilt-sec45.md"), sec6.rstrip("\n") + "\n", read("asbuilt-sec78.md"), sec9(), read("asbuilt-sec1012.md")]
    open(os.path.join(V, "DESIGN.md"), "w").write("\n".join(parts))
    print("DESIGN.md:", sum(p.count("\n") for p in parts), "lines")


if __name__ == "__main__":
    main()
