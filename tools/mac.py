"""Case generator and implementation-side oracles for the macro-logic properties
(C05, C15, C16).  Cases are written in the neutral line format understood by harness/mac
(which renders them to real macro input and runs the real macro crate) and by
`gecs-model mac` (the Lean model)."""
import random, itertools, re

COMPS = ["CompA", "CompAB", "CompA2", "Compa", "CompB", "CompBA", "CompC", "CompD", "CompE", "C"]
ARCHS = ["ArchA", "ArchAB", "Archa", "ArchB", "ArchC", "ArchD", "ArchE", "A"]
PREDS = ["pa", "pb", "pc", "pd", "pe", "pf"]


def gen_cfgs(rng, preds, p=0.3):
    if not preds or rng.random() > p:
        return []
    k = 1 if rng.random() < 0.8 else 2
    return [rng.choice(preds) for _ in range(k)]


def gen_ids(rng, n, style):
    """Explicit-id patterns: None = implicit."""
    ids = [None] * n
    if style == "none":
        return ids
    if style == "ascending":
        cur = rng.randrange(0, 5)
        for i in range(n):
            if rng.random() < 0.5:
                cur += rng.randrange(1, 40)
                ids[i] = min(cur, 255)
    elif style == "descending":
        cur = rng.randrange(100, 256)
        for i in range(n):
            if rng.random() < 0.6:
                ids[i] = cur
                cur = max(0, cur - rng.randrange(1, 30))
    elif style == "collide":
        # an explicit id equal to what an implicit successor would get (or got)
        for i in range(n):
            if rng.random() < 0.4:
                ids[i] = rng.randrange(0, n + 1)
    elif style == "edge":
        for i in range(n):
            if rng.random() < 0.4:
                ids[i] = rng.choice([253, 254, 255, 255, 0, 1])
    elif style == "big":
        i = rng.randrange(n)
        ids[i] = rng.choice([256, 300, 1000])
    return ids


def gen_world(rng, preds):
    na = rng.choice([1, 1, 2, 2, 3, 3, 4, 5, 6])
    names = rng.sample(ARCHS, min(na, len(ARCHS)))
    aid_style = rng.choice(["none", "none", "ascending", "descending", "collide", "edge", "edge"] + (["big"] if rng.random() < 0.05 else []))
    aids = gen_ids(rng, len(names), aid_style)
    archs = []
    for i, an in enumerate(names):
        nc = rng.choice([1, 1, 2, 2, 3, 3, 4, 5])
        cnames = rng.sample(COMPS, min(nc, len(COMPS)))
        cid_style = rng.choice(["none", "none", "none", "ascending", "descending", "collide", "edge"])
        cids = gen_ids(rng, len(cnames), cid_style)
        comps = [(gen_cfgs(rng, preds, 0.25), cids[j], cn) for j, cn in enumerate(cnames)]
        archs.append((gen_cfgs(rng, preds, 0.3), aids[i], an, comps))
    if len(preds) >= 2 and rng.random() < 0.2:
        # the SAME archetype name declared twice under different predicates (the feature-gated
        # alternative-layout pattern): whenever at most one of them is enabled the declaration is
        # the one-archetype declaration
        i = rng.randrange(len(archs))
        p, q = rng.sample(preds, 2)
        cf0, aid0, an0, comps0 = archs[i]
        archs[i] = ([p], aid0, an0, comps0)
        cn2 = rng.sample(COMPS, min(rng.choice([1, 2, 3]), len(COMPS)))
        archs.insert(i + 1, ([q], None, an0, [([], None, c) for c in cn2]))
    return ("W" + rng.choice(["x", "Foo", "Bar"]), archs)


def fmt_cfgs(c):
    return "+".join(c)


def fmt_world(w):
    name, archs = w
    parts = []
    for (cf, aid, an, comps) in archs:
        cs = ",".join(f"{fmt_cfgs(c)}/{'-' if i is None else i}/{n}" for (c, i, n) in comps)
        parts.append(f"{fmt_cfgs(cf)}:{'-' if aid is None else aid}:{an}:{cs}")
    return name, "|".join(parts)


def gen_query(rng, w, preds):
    name, archs = w
    allcomps = sorted({c[2] for a in archs for c in a[3]})
    pool = allcomps + rng.sample(COMPS, 2)
    anames = [a[2] for a in archs] + [rng.choice(ARCHS)]
    n = rng.choice([0, 1, 1, 2, 2, 3, 3, 4, 5])
    params = []
    for _ in range(n):
        r = rng.random()
        cf = gen_cfgs(rng, preds, 0.25)
        m = rng.random() < 0.4
        if r < 0.45:
            ty = "C." + rng.choice(pool)
        elif r < 0.60:
            k = rng.choice([1, 2, 2, 3, 4, 5])
            cs = [rng.choice(pool) for _ in range(k)]
            ty = "O." + ".".join(cs)
            if rng.random() < 0.85:
                cf = []
        else:
            ty = rng.choice(["E._", "EA", "D._", "DA", "E." + rng.choice(anames), "D." + rng.choice(anames)])
            if rng.random() < 0.97:
                m = False
        if rng.random() < 0.01:
            ty = "X." + rng.choice(["Option", "With", "Without"]) + "." + rng.choice(pool)
        params.append((cf, m, ty))
    return params


def gen_ambiguous_queries(rng, archs_enabled):
    """C05, targeted: queries whose OneOf<c1, c2> is AMBIGUOUS for one archetype (`amb` contains both)
    while ANOTHER parameter already excludes that archetype, and some other archetype (`ok`)
    satisfies the whole query.  `archs_enabled`: [(name, [component names])].  The property rejects
    every such query, wherever the OneOf is written; both orders are produced."""
    out = []
    cands = []
    for (an, comps) in archs_enabled:
        if len(comps) < 2:
            continue
        for (bn, bcomps) in archs_enabled:
            if bn == an:
                continue
            for c1 in comps:
                for c2 in comps:
                    if c1 != c2 and c1 in bcomps and c2 not in bcomps:
                        cands.append((an, comps, bn, bcomps, c1, c2))
    rng.shuffle(cands)
    for (an, comps, bn, bcomps, c1, c2) in cands[:2]:
        one = ([], False, "O." + ".".join(rng.sample([c1, c2], 2)))
        others = [([], False, "E." + bn), ([], False, "D." + bn)]
        only_b = [c for c in bcomps if c not in comps]
        if only_b:
            k = rng.choice(only_b)
            others.append(([], rng.random() < 0.4, "C." + k))
            z = next((c for c in COMPS if c not in comps and c not in bcomps and c != k), None)
            if z:
                others.append(([], False, "O." + k + "." + z))
        oth = rng.choice(others)
        out.append([oth, one])
        out.append([one, oth])
    return out


def fmt_query(params):
    return "|".join(f"{fmt_cfgs(c)}:{1 if m else 0}:{t}" for (c, m, t) in params)


def erase_world(w, rho):
    name, archs = w
    out = []
    for (cf, aid, an, comps) in archs:
        if not all(rho.get(p, False) for p in cf):
            continue
        cs = [([], i, n) for (c, i, n) in comps if all(rho.get(p, False) for p in c)]
        out.append(([], aid, an, cs))
    return (name, out)


def erase_query(params, rho):
    return [([], m, t) for (c, m, t) in params if all(rho.get(p, False) for p in c)]


def gen_cases(seed, n_worlds, kmax, queries_per_world=3):
    rng = random.Random(seed)
    lines = []
    meta = {}
    cid = 0
    for wi in range(n_worlds):
        k = rng.choice([0, 0, 1, 2, 2, 3, 3, 4] + ([5, 6] if kmax >= 6 else []))
        k = min(k, kmax)
        preds = rng.sample(PREDS, k)
        w = gen_world(rng, preds)
        qs = [gen_query(rng, w, preds) for _ in range(queries_per_world)]
        if wi % 3 == 1 and len(w[1]) >= 2:
            # a typed entity parameter that is cfg-disabled together with the archetype it names
            gated = [a for a in w[1] if a[0]]
            free = [a for a in w[1] if not a[0] and any(not c[0] for c in a[3])]
            if gated and free:
                x = rng.choice(gated)
                y = rng.choice(free)
                c = rng.choice([c[2] for c in y[3] if not c[0]])
                qs.append([([], rng.random() < 0.4, "C." + c), (list(x[0]), False, "E." + x[2])])
                qs.append([(list(x[0]), False, "D." + x[2]), ([], False, "C." + c)])
        if wi % 3 == 0:
            # archetypes / components without any cfg: enabled under every assignment
            plain = [(a[2], [c[2] for c in a[3] if not c[0]]) for a in w[1] if not a[0]]
            if all(not c[0] for a in w[1] for c in a[3]):
                qs += gen_ambiguous_queries(rng, plain)
        used = sorted({p for a in w[1] for p in a[0]} | {p for a in w[1] for c in a[3] for p in c[0]} |
                      {p for q in qs for prm in q for p in prm[0]})
        assigns = list(itertools.product([0, 1], repeat=len(used)))
        if len(assigns) > 16 and kmax < 6:
            assigns = rng.sample(assigns, 16)
        for asg in assigns:
            rho = dict(zip(used, [bool(x) for x in asg]))
            rs = ",".join(f"{p}={1 if v else 0}" for p, v in rho.items()) or "-"
            nm, ws = fmt_world(w)
            ew = erase_world(w, rho)
            if len({a[2] for a in ew[1]}) != len(ew[1]):
                # two ENABLED archetypes with one name: not a declaration rustc accepts (a plain
                # redefinition error, with and without the attributes), outside every property
                continue
            _, ews = fmt_world(ew)
            for qi, q in enumerate([None] + qs):
                cid += 1
                base = f"case {cid} world {nm} {ws or '|'} rho {rs}"
                twin = f"case {cid}e world {nm} {ews or '|'} rho -"
                if q is not None:
                    kind = "all" if rng.random() < 0.3 else rng.choice(["find", "find_borrow", "iter", "iter_borrow", "iter_destroy"])
                    base += f" query {kind} {fmt_query(q) or '|'}"
                    twin += f" query {kind} {fmt_query(erase_query(q, rho)) or '|'}"
                lines.append(base)
                lines.append(twin)
                meta[str(cid)] = {"world": w, "rho": rho, "query": q, "k": len(used)}
    return lines, meta


# ----------------------------------------------------------------------------- oracles

def parse_out(line):
    m = re.match(r"case (\S+) wpreds=(\S*) world=(\S+)(?: qpreds=(\S*) query=(.*))?$", line)
    if not m:
        return None
    return {"id": m.group(1), "wpreds": m.group(2), "world": m.group(3), "qpreds": m.group(4), "query": m.group(5)}


def discriminants(ids):
    out, last = [], None
    for i in ids:
        nxt = i if i is not None else (0 if last is None else last + 1)
        out.append(nxt)
        last = nxt
    return out


def expected_world(w, rho):
    """C15 restated: ids of the enabled items by the enum-discriminant rule; error iff a
    duplicate or an implicit successor of 255 (first failing item in declaration order)."""
    name, archs = w
    seen = {}
    last = None
    res = []
    for (cf, aid, an, comps) in archs:
        if any(i is not None and i > 255 for (_, i, _) in comps) or (aid is not None and aid > 255):
            return "err:parse:id-range"
    for (cf, aid, an, comps) in archs:
        if not all(rho.get(p, False) for p in cf):
            continue
        nxt = aid if aid is not None else (0 if last is None else last + 1)
        if nxt > 255:
            return "err:exceeds"
        if nxt in seen:
            return f"err:duplicate:{nxt}:{seen[nxt]}"
        seen[nxt] = an
        last = nxt
        cseen, clast, cres = {}, None, []
        for (c, i, n) in comps:
            if not all(rho.get(p, False) for p in c):
                continue
            cn = i if i is not None else (0 if clast is None else clast + 1)
            if cn > 255:
                return "err:exceeds"
            if cn in cseen:
                return f"err:duplicate:{cn}:{cseen[cn]}"
            cseen[cn] = n
            clast = cn
            cres.append(f"{n}={cn}")
        res.append(f"{an}={nxt}[{','.join(cres)}]")
    return f"ok:{name}:" + ";".join(res)


def world_of_output(s):
    """Parse `ok:Name:Arch=id[C=id,...];...` -> list of (arch, [comps])."""
    if not s.startswith("ok:"):
        return None
    body = s.split(":", 2)[2]
    out = []
    for a in [x for x in body.split(";") if x]:
        m = re.match(r"(\w+)=(\d+)\[(.*)\]", a)
        comps = [c.split("=")[0] for c in m.group(3).split(",") if c]
        out.append((m.group(1), comps))
    return out


def expected_match(dw, params, rho):
    """C05 restated: the archetypes (declaration order) that contain every named component,
    exactly one of each OneOf, and equal the named archetype of Entity<A>/EntityDirect<A>;
    disabled parameters do not constrain."""
    out = []
    for (an, comps) in dw:
        ok = True
        for (cf, m, t) in params:
            en = all(rho.get(p, False) for p in cf)
            tt = t.split(".")
            if tt[0] == "C":
                if en and tt[1] not in comps:
                    ok = False
            elif tt[0] in ("E", "D") and tt[1] != "_":
                if en and tt[1] != an:
                    ok = False
            elif tt[0] == "O":
                if sum(1 for c in tt[1:] if c in comps) != 1:
                    ok = False
        if ok:
            out.append(an)
    return out


def run_oracles(cases, meta, outputs):
    """outputs: id -> parsed output of the IMPLEMENTATION.  Returns hits."""
    hits = []
    for cid, mt in meta.items():
        o = outputs.get(cid)
        oe = outputs.get(cid + "e")
        if o is None or oe is None:
            hits.append({"property": "C15", "case": cid, "class": "missing-output", "what": "no output for case"})
            continue
        w, rho, q = mt["world"], mt["rho"], mt["query"]
        # C15: discriminant rule
        exp = expected_world(w, rho)
        if o["world"] != exp and not o["world"].startswith("err:parse:other"):
            hits.append({"property": "C15", "case": cid, "class": "ids", "what": f"DataWorld is {o['world']}, discriminant rule gives {exp}"})
        # C16 (world): decorated under rho == erased twin
        if o["world"].startswith("err:parse:"):
            # malformed macro input (an id literal that is not a u8, an illegal name, ...): rejected by
            # the parser whatever the predicates say, like any cfg'd-out Rust code that does not parse
            continue
        if o["world"] != oe["world"]:
            empty = oe["world"] == "err:parse:no-archetype" and o["world"].startswith("ok:") and o["world"].endswith(":")
            hits.append({"property": "C16", "case": cid, "class": "world-erasure-empty" if empty else "world-erasure",
                         "what": f"decorated: {o['world']}  erased twin: {oe['world']}"})
        if q is not None and o["query"] is not None and oe["query"] is not None:
            # C16 (query): same verdict; same matched archetypes and same enabled parameter types
            def strip(qs):
                if not qs.startswith("ok"):
                    return qs
                out = []
                for a in [x for x in qs[3:].split(",") if x]:
                    m = re.match(r"(\w+)\[(.*)\]", a)
                    ps = [p for p in m.group(2).split(";") if p]
                    keep = []
                    for p in ps:
                        cfgs = re.findall(r"#\[cfg\((\w+)\)\]", p)
                        if all(rho.get(c, False) for c in cfgs):
                            keep.append(re.sub(r"#\[cfg\(\w+\)\]", "", p).split(":", 1)[1])
                    out.append(m.group(1) + "[" + ";".join(keep) + "]")
                return "ok " + ",".join(out)
            has_cfg_oneof = any(t.startswith("O.") and cf for (cf, m, t) in q)
            if not has_cfg_oneof and strip(o["query"]) != strip(oe["query"]) and "parse:" not in o["query"]:
                hits.append({"property": "C16", "case": cid, "class": "query-erasure", "what": f"decorated: {o['query']}  erased twin: {oe['query']}"})
            # C05: matched set
            dw = world_of_output(o["world"])
            if dw is not None and o["query"].startswith("ok"):
                got = [re.match(r"(\w+)\[", a).group(1) for a in o["query"][3:].split(",") if a]
                exp_m = expected_match(dw, q, rho)
                if got != exp_m:
                    hits.append({"property": "C05", "case": cid, "class": "match-set", "what": f"query acts on {got}, archetypes satisfying it: {exp_m}"})
            if dw is not None and o["query"].startswith("err noMatch"):
                if expected_match(dw, q, rho):
                    hits.append({"property": "C05", "case": cid, "class": "false-nomatch", "what": "query rejected as matching nothing although archetypes satisfy it"})
            if dw is not None and o["query"].startswith("ok"):
                for (cf_, m_, t_) in q:
                    if t_.startswith("O.") and all(rho.get(p_, False) for p_ in cf_):
                        amb = [an_ for (an_, comps_) in dw if sum(1 for c_ in t_.split(".")[1:] if c_ in comps_) >= 2]
                        if amb:
                            hits.append({"property": "C05", "case": cid, "class": "ambiguous-accepted",
                                         "what": f"the query was accepted although OneOf<{', '.join(t_.split('.')[1:])}> matches two components of archetype {amb[0]}: a OneOf matching two components of one archetype is rejected at compile time, wherever it is written in the parameter list"})
                            break
            if dw is not None and o["query"].startswith("ok") and not expected_match(dw, q, rho):
                hits.append({"property": "C05", "case": cid, "class": "empty-accepted", "what": "query matching no archetype was accepted"})
            if o["query"].startswith("err parse:other") and oe["query"].startswith("ok"):
                hits.append({"property": "C05", "case": cid, "class": "valid-query-rejected",
                             "what": f"the query is rejected ({o['query'][:120]}) although the same query with its cfg-disabled parameters not written is accepted ({oe['query'][:120]}): a disabled parameter does not constrain, whatever it names"})
            if "GENERATORS-DISAGREE" in o["query"]:
                hits.append({"property": "C05", "case": cid, "class": "generators-disagree", "what": o["query"][:300]})
    return hits
