"""End-to-end tie for the macro-logic properties (C05, C15, C16): generated `ecs_world!`
declarations and queries are compiled by the REAL toolchain against /repo (proc macros, the
`#[cfg] macro_rules!` chain, rustc's own cfg evaluation, hygiene and type checking all in the
loop, nothing modelled) and RUN; what the programs print — the emitted `ARCHETYPE_ID` /
`COMPONENT_ID` constants, `ecs_component_id!`, handles' `archetype_id()`, and for every query
the archetypes its closure actually visited — is compared with the properties restated in
tools/mac.py (`expected_world`, `expected_match`), and with the output of the erased twin
program (C16).  Declarations that must be rejected (duplicate id, id past 255, a query that
matches nothing) are separate programs that must fail to compile with the macro's message.

One cargo crate, one binary per case; truth assignments are realised textually: predicate `pa`
is written `not(e2e_pa)` when true and `e2e_pa` when false (the cfg name is never set), so
distinct predicates stay distinct strings, which is what the macro keys its lookup by.
"""
import os, re, json, random, shutil, subprocess, time
import mac

MAX_CASES_QUICK = 28


def pred_text(p, rho):
    return f"not(e2e_{p})" if rho.get(p, False) else f"e2e_{p}"


def cfg_attrs(cfgs, rho):
    return "".join(f"#[cfg({pred_text(p, rho)})] " for p in cfgs)


def enabled(cfgs, rho):
    return all(rho.get(p, False) for p in cfgs)


def render_world(w, rho):
    name, archs = w
    s = f"ecs_world! {{\n    ecs_name!({name});\n"
    for (cf, aid, an, comps) in archs:
        cs = []
        for (c, i, n) in comps:
            cs.append(cfg_attrs(c, rho) + (f"#[component_id({i})] " if i is not None else "") + n)
        s += "    " + cfg_attrs(cf, rho) + (f"#[archetype_id({aid})] " if aid is not None else "") + f"ecs_archetype!({an}, {', '.join(cs)});\n"
    return s + "}\n"


def param_type(t):
    tt = t.split(".")
    return {"C": lambda: tt[1], "E": lambda: f"Entity<{tt[1]}>", "EA": lambda: "EntityAny", "D": lambda: f"EntityDirect<{tt[1]}>",
            "DA": lambda: "EntityDirectAny", "O": lambda: f"OneOf<{', '.join(tt[1:])}>"}[tt[0]]()


def render_params(q, rho):
    return ", ".join(f"{cfg_attrs(cf, rho)}p{i}: &{'mut ' if m else ''}{param_type(t)}" for i, (cf, m, t) in enumerate(q))


def query_supported(q, dw, rho, all_arch_names):
    """Queries the end-to-end programs exercise: verdict and match set decided by mac.expected_match
    alone (no ambiguity / keyword / borrow-conflict errors, which are other checks' business)."""
    seen = {}
    for (cf, m, t) in q:
        tt = t.split(".")
        if tt[0] == "X":
            return False
        if tt[0] in ("E", "D", "EA", "DA") and m:
            return False
        if tt[0] in ("E", "D") and tt[1] != "_" and tt[1] not in all_arch_names:
            return False            # names a type that does not exist: a plain rustc name error
        if tt[0] == "O":
            if cf:
                return False
            if len(set(tt[1:])) != len(tt[1:]):
                return False
            for (an, comps) in dw:
                if sum(1 for c in tt[1:] if c in comps) > 1:
                    return False
        names = tt[1:] if tt[0] in ("C", "O") else []
        for n in names:
            if not enabled(cf, rho):
                continue
            if n in seen and (m or seen[n]):
                return False
            seen[n] = seen.get(n, False) or m
    return True


def program(w, rho, queries, kinds):
    """Returns (source, expected output lines) for a declaration the property accepts."""
    name, archs = w
    exp_world = mac.expected_world(w, rho)
    dw = mac.world_of_output(exp_world)
    ids = dict(re.findall(r"(\w+)=(\d+)\[", exp_world.split(":", 2)[2]))
    src = "#![forbid(unsafe_code)]\n#![allow(unused, unexpected_cfgs, non_snake_case, non_camel_case_types, dead_code)]\nuse gecs::prelude::*;\n"
    for c in mac.COMPS:
        src += f"pub struct {c}(pub u32);\n"
    src += render_world(w, rho)
    src += "fn main() {\n    let mut parts: Vec<String> = Vec::new();\n"
    exp_parts = []
    for (an, comps) in dw:
        cexp = []
        src += "    { let mut cs: Vec<String> = Vec::new();\n"
        body = exp_world.split(":", 2)[2]
        m = re.search(r"\b%s=(\d+)\[([^\]]*)\]" % an, body)
        cids = dict(x.split("=") for x in m.group(2).split(",") if x)
        for c in comps:
            src += f"      cs.push(format!(\"{c}={{}}/{{}}\", <{an} as ArchetypeHas<{c}>>::COMPONENT_ID, ecs_component_id!({c}, {an})));\n"
            cexp.append(f"{c}={cids[c]}/{cids[c]}")
        src += f"      parts.push(format!(\"{an}={{}}[{{}}]\", <{an} as Archetype>::ARCHETYPE_ID, cs.join(\",\"))); }}\n"
        exp_parts.append(f"{an}={ids[an]}[{','.join(cexp)}]")
    src += f"    println!(\"world {{}} n={{}}\", parts.join(\";\"), <{name} as World>::NUM_ARCHETYPES);\n"
    expected = ["world " + ";".join(exp_parts) + f" n={len(dw)}"]
    src += f"    let mut world = {name}::new();\n"
    hexp = []
    src += "    let mut hs: Vec<String> = Vec::new();\n"
    for (an, comps) in dw:
        tup = ", ".join(f"{c}(0)" for c in comps) + ("," if len(comps) == 1 else "")
        src += (f"    let e_{an} = world.create::<{an}>(({tup}));\n"
                f"    hs.push(format!(\"{{}}/{{}}/{{}}\", e_{an}.archetype_id(), SelectArchetype::try_from(e_{an}.into_any()).map(|s| s.archetype_id() as i32).unwrap_or(-1), "
                f"SelectArchetype::try_from(<{an} as Archetype>::ARCHETYPE_ID).map(|s| s.archetype_id() as i32).unwrap_or(-1)));\n")
        hexp.append(f"{ids[an]}/{ids[an]}/{ids[an]}")
    src += "    println!(\"handles {}\", hs.join(\",\"));\n"
    expected.append("handles " + ",".join(hexp))
    for qi, (q, kind) in enumerate(zip(queries, kinds)):
        ps = render_params(q, rho)
        match = mac.expected_match(dw, q, rho)
        if kind in ("iter", "iter_borrow", "iter_destroy"):
            ret = " EcsStepDestroy::Continue" if kind == "iter_destroy" else ""
            src += (f"    {{ let mut v: Vec<String> = Vec::new();\n      ecs_{kind}!(world, |{ps}| {{ v.push(format!(\"{{}}\", <MatchedArchetype as Archetype>::ARCHETYPE_ID));{ret} }});\n"
                    f"      println!(\"query {qi} {kind} {{}}\", v.join(\",\")); }}\n")
            expected.append(f"query {qi} {kind} " + ",".join(ids[a] for a in match))
        else:
            src += "    { let mut v: Vec<String> = Vec::new();\n"
            fexp = []
            for (an, comps) in dw:
                src += (f"      let r: Option<u8> = ecs_{kind}!(world, e_{an}, |{ps}| {{ <MatchedArchetype as Archetype>::ARCHETYPE_ID }});\n"
                        f"      v.push(match r {{ Some(i) => format!(\"{{}}\", i), None => \"-\".to_string() }});\n")
                fexp.append(ids[an] if an in match else "-")
            src += f"      println!(\"query {qi} {kind} {{}}\", v.join(\",\")); }}\n"
            expected.append(f"query {qi} {kind} " + ",".join(fexp))
    src += "}\n"
    return src, expected


def reject_program(w, rho, q=None, kind="iter"):
    name, archs = w
    src = "#![forbid(unsafe_code)]\n#![allow(unused, unexpected_cfgs, non_snake_case, non_camel_case_types, dead_code)]\nuse gecs::prelude::*;\n"
    for c in mac.COMPS:
        src += f"pub struct {c}(pub u32);\n"
    src += render_world(w, rho)
    src += f"fn main() {{\n    let mut world = {name}::new();\n"
    if q is not None:
        ret = " EcsStepDestroy::Continue" if kind == "iter_destroy" else ""
        src += f"    ecs_{kind}!(world, |{render_params(q, rho)}| {{{ret} }});\n"
    return src + "}\n"


def gen_programs(seed, n_cases):
    """Deterministic corpus: list of dicts {name, src, expect: 'run'|'fail', expected|msg, why, prop}."""
    rng = random.Random(seed * 7919 + 17)
    out = []
    tries = 0
    while len([p for p in out if p["expect"] == "run"]) < n_cases and tries < n_cases * 40:
        tries += 1
        heavy = rng.random() < 0.5     # cfg-heavy cases: several DISTINCT predicates with MIXED truth values
        k = rng.choice([2, 3, 3, 4]) if heavy else rng.choice([0, 1, 2, 2, 3, 3])
        preds = rng.sample(mac.PREDS, k)
        w = mac.gen_world(rng, preds)
        qs_all = [mac.gen_query(rng, w, preds) for _ in range(5 if heavy else 4)]
        if heavy:
            # decorate most parameters, each with its own predicate where possible
            nq = []
            for q in qs_all:
                q2 = []
                for i, (cf, m, t) in enumerate(q):
                    if not t.startswith("O.") and rng.random() < 0.65:
                        cf = [preds[(i + rng.randrange(k)) % k]] + ([rng.choice(preds)] if rng.random() < 0.2 else [])
                    q2.append((cf, m, t))
                nq.append(q2)
            qs_all = nq
        used = sorted({p for a in w[1] for p in a[0]} | {p for a in w[1] for c in a[3] for p in c[0]} | {p for q in qs_all for prm in q for p in prm[0]})
        rho = {p: rng.random() < 0.55 for p in used}
        if heavy and len(used) >= 2 and len(set(rho.values())) == 1:
            rho[rng.choice(used)] = not rho[used[0]]
        exp = mac.expected_world(w, rho)
        n = len(out)
        if exp.startswith("err:parse"):
            continue
        if exp.startswith("err:"):
            if sum(1 for p in out if p["expect"] == "fail" and p["prop"] == "C15") < max(3, n_cases // 5):
                msg = "is already assigned" if exp.startswith("err:duplicate") else "may not exceed"
                out.append({"name": f"e2e_{n}_reject", "src": reject_program(w, rho), "expect": "fail", "msg": msg, "prop": "C15",
                            "why": f"declaration must be rejected: {exp}", "case": mac.fmt_world(w)[1], "rho": rho})
            continue
        dw = mac.world_of_output(exp)
        if not dw:
            continue   # every archetype disabled: F5 territory (known finding), covered by the mac stream
        if len({an for (an, _) in dw}) != len(dw):
            continue   # two enabled archetypes with one name: a plain Rust redefinition error, with and without the attributes
        if any(not comps for (_, comps) in dw):
            continue   # an archetype without any enabled component has no storage type (`Storage0`): rejected with and without the attributes alike
        anames = [a[2] for a in w[1]]
        # C05: an ambiguous OneOf behind (or in front of) a parameter that already excludes the
        # ambiguous archetype must not compile
        if sum(1 for p in out if p["expect"] == "fail" and p.get("why", "").startswith("a OneOf matching two")) < max(4, n_cases // 6):
            for aq in mac.gen_ambiguous_queries(rng, dw)[:2]:
                akind = rng.choice(["find", "find_borrow", "iter", "iter_borrow", "iter_destroy"])
                out.append({"name": f"e2e_{len(out)}_ambiguous", "src": reject_program(w, rho, aq, "iter" if akind.startswith("find") else akind), "expect": "fail", "msg": "is ambiguous", "prop": "C05",
                            "why": "a OneOf matching two components of one archetype must be rejected wherever it is written", "case": mac.fmt_world(w)[1] + " query " + mac.fmt_query(aq), "rho": rho})
        qs, kinds = [], []
        for q in qs_all:
            if not query_supported(q, dw, rho, [an for (an, _) in dw]):
                continue
            kind = rng.choice(["find", "find_borrow", "iter", "iter_borrow", "iter_destroy"])
            if not mac.expected_match(dw, q, rho):
                if sum(1 for p in out if p["expect"] == "fail" and p["prop"] == "C05") < max(3, n_cases // 5):
                    out.append({"name": f"e2e_{len(out)}_nomatch", "src": reject_program(w, rho, q, "iter"), "expect": "fail", "msg": "matched no archetypes", "prop": "C05",
                                "why": "a query that no archetype satisfies must be rejected", "case": mac.fmt_world(w)[1] + " query " + mac.fmt_query(q), "rho": rho})
                continue
            if kind == "iter_destroy" and any(kk == "iter_destroy" for kk in kinds):
                kind = "iter"
            qs.append(q)
            kinds.append(kind)
        # iter_destroy last would not matter (Continue destroys nothing)
        src, expected = program(w, rho, qs, kinds)
        ew = mac.erase_world(w, rho)
        eqs = [mac.erase_query(q, rho) for q in qs]
        tsrc, texpected = program(ew, {}, eqs, kinds)
        n = len(out)
        out.append({"name": f"e2e_{n}", "src": src, "expect": "run", "expected": expected, "prop": "C15", "twin": f"e2e_{n}_twin",
                    "why": "decorated declaration under a truth assignment", "case": mac.fmt_world(w)[1] + "".join(" query " + kd + " " + mac.fmt_query(q) for q, kd in zip(qs, kinds)), "rho": rho})
        out.append({"name": f"e2e_{n}_twin", "src": tsrc, "expect": "twin", "expected": texpected, "prop": "C16",
                    "why": "the same declaration with disabled items not written and attributes removed", "case": mac.fmt_world(ew)[1], "rho": {}})
    return out


def run_programs(progs, crate_dir, target_dir, env):
    if os.path.exists(crate_dir):
        shutil.rmtree(crate_dir)
    os.makedirs(os.path.join(crate_dir, "src", "bin"))
    os.makedirs(os.path.join(crate_dir, ".cargo"))
    open(os.path.join(crate_dir, ".cargo", "config.toml"), "w").write("[net]\noffline = true\n")
    open(os.path.join(crate_dir, "Cargo.toml"), "w").write(
        '[package]\nname = "e2e"\nversion = "0.0.0"\nedition = "2021"\n\n[workspace]\n\n[dependencies]\ngecs = { path = "/repo" }\n\n[profile.dev]\nopt-level = 0\ndebug = false\n')
    shutil.copy("/repo/Cargo.lock", os.path.join(crate_dir, "Cargo.lock"))
    for p in progs:
        open(os.path.join(crate_dir, "src", "bin", p["name"] + ".rs"), "w").write(p["src"])
    t0 = time.time()
    e = dict(env, CARGO_TARGET_DIR=target_dir, RUSTFLAGS="-Awarnings")
    r = subprocess.run(["cargo", "build", "--offline", "--bins", "--keep-going", "--message-format=json"], cwd=crate_dir, env=e,
                       stdout=subprocess.PIPE, stderr=subprocess.PIPE, text=True)
    errors, built = {}, {}
    for line in r.stdout.splitlines():
        try:
            m = json.loads(line)
        except ValueError:
            continue
        if m.get("reason") == "compiler-message" and m["message"].get("level") == "error":
            errors.setdefault(m["target"]["name"], []).append(m["message"].get("message", "")[:300])
        if m.get("reason") == "compiler-artifact" and m.get("executable"):
            built[m["target"]["name"]] = m["executable"]
    results = {}
    for p in progs:
        errs = [x for x in errors.get(p["name"], []) if not x.startswith("aborting due to") and not x.startswith("could not compile")]
        res = {"name": p["name"], "expect": p["expect"], "prop": p["prop"], "why": p["why"], "compiled": p["name"] in built, "errors": errs[:3], "case": p.get("case"), "rho": p.get("rho")}
        if p["name"] in built:
            rr = subprocess.run([built[p["name"]]], stdout=subprocess.PIPE, stderr=subprocess.PIPE, text=True, timeout=60)
            res["output"] = rr.stdout.splitlines()
            res["run_rc"] = rr.returncode
        results[p["name"]] = res
    hits = []
    for p in progs:
        r_ = results[p["name"]]
        if p["expect"] == "fail":
            if r_["compiled"]:
                hits.append({"property": p["prop"], "class": "e2e-accepted", "program": p["name"], "what": f"{p['why']}, but the program compiles"})
            elif not any(p["msg"] in x for x in r_["errors"]):
                r_["unexpected_error"] = True
        else:
            if not r_["compiled"]:
                t_ = results.get(p.get("twin", ""))
                if p["expect"] == "run" and t_ and t_["compiled"]:
                    # the decorated program is rejected although the same program with the disabled
                    # items not written and the attributes removed compiles: not "as if absent"
                    hits.append({"property": "C16", "class": "e2e-erasure-verdict", "program": p["name"],
                                 "what": f"the decorated program does not compile ({r_['errors'][:1]}) although its erased twin does"})
                else:
                    r_["unexpected_error"] = True
                continue
            if r_.get("output") != p["expected"]:
                diff = next(((a, b) for a, b in zip(r_.get("output", []) + ["<missing>"] * 9, p["expected"]) if a != b), None)
                prop = "C15" if diff and diff[1].startswith(("world", "handles")) else "C05"
                if p["expect"] == "twin":
                    prop = "C15" if prop == "C15" else "C05"
                hits.append({"property": prop, "class": "e2e-" + ("ids" if prop == "C15" else "match-set"), "program": p["name"],
                             "what": f"compiled program prints `{diff[0] if diff else None}`, the property requires `{diff[1] if diff else None}`"})
            if p["expect"] == "run":
                t_ = results.get(p["twin"])
                if t_ and t_["compiled"] and r_.get("output") != t_.get("output"):
                    diff = next(((a, b) for a, b in zip(r_.get("output", []), t_.get("output", [])) if a != b), None)
                    hits.append({"property": "C16", "class": "e2e-erasure", "program": p["name"],
                                 "what": f"decorated program prints `{diff[0] if diff else None}`, its erased twin prints `{diff[1] if diff else None}`"})
    unexpected = [r_ for r_ in results.values() if r_.get("unexpected_error")]
    return {"results": list(results.values()), "hits": hits, "unexpected": unexpected, "cargo_rc": r.returncode,
            "stderr_tail": r.stderr[-1500:], "wall_s": round(time.time() - t0, 1), "crate_dir": crate_dir}
