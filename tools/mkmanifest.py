#!/usr/bin/env python3
"""Writes /verif/MANIFEST.json from the table below (single source of truth)."""
import json, os

VERIF = os.path.dirname(os.path.dirname(os.path.abspath(__file__)))

RT_NOTE = ("Trusted: Lean 4.33 kernel; axioms limited to propext/Classical.choice/Quot.sound (audited); the hand-written L1 model "
           "is a claim about the code, tied on every run by differential replay of generated operation sequences against the real "
           "gecs API (harness/rt) in debug and release/all-features builds (thorough: all 16 configurations) and by evaluating the "
           "representation invariant on states dumped from the implementation (hook H1). Modelled, not verified: DataPtr raw memory, "
           "raw-pointer iterators, repr(transparent) transmutes, std RefCell, unwinding, rustc macro expansion.")
MAC_NOTE = ("Trusted: Lean kernel + standard axioms; the model of the macro logic is tied on every run by running the real "
            "macros/src/{data,parse,generate} (included by path in harness/mac) on generated declarations, assignments and queries; "
            "rustc's evaluation of the cfg macro_rules chain is simulated (one boolean per predicate in chain order).")

CLAIMS = {
    "C05": dict(text="Theorems over the model of bind_query_params/bind_one_of/generators: bound set = archetypes satisfying the parameter list (sound+complete, declaration order), OneOf bound to the unique present component, error iff ambiguity, empty match is an error, find on an unmatched archetype returns None without calling the closure — for all declarations and parameter lists. Tie: harness/mac (real macro crate as a library) + harness/rt query menu (real macros, end-to-end).",
                note=MAC_NOTE, technique="Lean 4 proof (list induction) + differential correspondence with the real macro crate", ref="§6 C05"),
    "C15": dict(text="Theorems: ids of enabled items are the enum discriminants (explicit, else previous+1, else 0), Nodup per scope, <= 255, success iff no duplicate and no implicit successor of 255, error attribution, disabled items consume no id — for all declarations. Tie: harness/mac on generated declarations (explicit ids ascending/descending/colliding/at 254-255, disabled items in between).",
                note=MAC_NOTE, technique="Lean 4 proof (fold induction) + differential correspondence with the real macro crate", ref="§6 C15"),
    "C16": dict(text="Theorems: predicate lookup after the second parse returns the compiler's value; world erasure and query erasure (decorated under any assignment = declaration with disabled items deleted and attributes stripped), for all declarations, queries and assignments. Tie: harness/mac, every assignment of the used predicates, each case with its erased twin through the real code.",
                note=MAC_NOTE + " Not modelled: rustc's expansion of the macro_rules chain and #[cfg] on closure parameters (end-to-end in harness/rustc).", technique="Lean 4 proof (list induction) + differential correspondence incl. erased twins", ref="§6 C16"),
}

NOT_YET = {}

ALL = ["C%02d" % i for i in range(1, 20)]


def main():
    checks = []
    for pid in ALL:
        if pid in CLAIMS:
            c = CLAIMS[pid]
            checks.append({
                "property_id": pid,
                "quick_cmd": f"./check {pid} --tier quick",
                "thorough_cmd": f"./check {pid} --tier thorough",
                "evidence_file": f"/verif/evidence/{pid}.json",
                "replay_cmd_template": "./check --replay {path}",
                "engine": "lean4-proof+correspondence",
                "level_claimed": {"category": "proof", "text": c["text"], "design_ref": c["ref"]},
                "level_note": c["note"],
                "technique": c["technique"],
            })
    na = [{"property_id": p, "reason": NOT_YET.get(p, "not claimed yet: machinery for this property is still being built (see DESIGN.md §6)")}
          for p in ALL if p not in CLAIMS]
    m = {
        "version": 1,
        "setup_cmd": "./check --setup",
        "hooks": {
            "guard": "cfg(gecs_verif)",
            "enable": "RUSTFLAGS=\"--cfg gecs_verif\" when building harness/rt against /repo (path dependency)",
            "baseline_off_cmd": "cd /repo && cargo test --workspace --no-fail-fast --offline",
            "source_commits": ["d09ee2c"],
            "add_only": True,
        },
        "engines": [
            {"name": "lean4-proof+correspondence", "path": "/verif/lean + /verif/harness + /verif/tools",
             "serves_properties": sorted(CLAIMS.keys()),
             "kind_free_text": "Lean 4 theorems about executable models; models tied to /repo on every run by differential replay against the real code (line protocol) and by translator-generated constants"},
        ],
        "checks": checks,
        "not_applicable": na,
        "notes": "Single entry point ./check <Cxx> [--tier quick|thorough] [--replay f]. fix: commits in /repo: b8012bf (F1), 605cf9e (F2), e73fcbd (F4); known findings in /verif/known-findings.txt.",
    }
    json.dump(m, open(os.path.join(VERIF, "MANIFEST.json"), "w"), indent=1)
    print("wrote MANIFEST.json with", len(checks), "checks")


if __name__ == "__main__":
    main()
