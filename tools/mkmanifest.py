#!/usr/bin/env python3
"""Writes /verif/MANIFEST.json from the table below (single source of truth)."""
import json, os

VERIF = os.path.dirname(os.path.dirname(os.path.abspath(__file__)))

RT_NOTE = ("Trusted: Lean 4.33 kernel; axioms limited to propext/Classical.choice/Quot.sound (audited); the hand-written L1 model "
           "is a claim about the code, tied on every run by differential replay of generated operation sequences against the real "
           "gecs API (harness/rt) in debug and release/all-features builds (thorough: all 16 configurations) and by evaluating the "
           "representation invariant on states dumped from the implementation (hook H1). Modelled, not verified: DataPtr raw memory, "
           "raw-pointer iterators, repr(transparent) transmutes, std RefCell, unwinding, rustc macro expansion.")
MAC_NOTE = ("Trusted: Lean kernel + standard axioms; the model of the macro logic is tied on every run by running the real "
            "macros/src/{data,parse,generate} (included by path in harness/mac) on generated declarations, assignments and queries; "
            "in harness/mac rustc's evaluation of the cfg macro_rules chain is simulated (one boolean per predicate in chain order); the real expansion by rustc (macro_rules chain, #[cfg] on items and closure parameters, emitted constants) is exercised end-to-end by tools/e2e.py: generated declarations + queries compiled against /repo and run, each with its erased twin, plus programs that must be rejected.")

CLAIMS = {
    "C05": dict(text="Theorems over the model of bind_query_params/bind_one_of/generators: bound set = archetypes satisfying the parameter list (sound+complete, declaration order), OneOf bound to the unique present component, error iff ambiguity, empty match is an error, find on an unmatched archetype returns None without calling the closure — for all declarations and parameter lists. Tie: harness/mac (real macro crate as a library) + compiled end-to-end programs (tools/e2e.py: archetypes actually visited by each query, must-not-compile programs for empty matches) + harness/rt query menu.",
                note=MAC_NOTE, technique="Lean 4 proof (list induction) + differential correspondence with the real macro crate", ref="§6 C05"),
    "C15": dict(text="Theorems: ids of enabled items are the enum discriminants (explicit, else previous+1, else 0), Nodup per scope, <= 255, success iff no duplicate and no implicit successor of 255, error attribution, disabled items consume no id — for all declarations. Tie: harness/mac on generated declarations (explicit ids ascending/descending/colliding/at 254-255, disabled items in between) + compiled end-to-end programs printing the emitted ARCHETYPE_ID / COMPONENT_ID constants, ecs_component_id!, handles' archetype_id() and SelectArchetype ids; duplicate / past-255 declarations must fail to compile.",
                note=MAC_NOTE, technique="Lean 4 proof (fold induction) + differential correspondence with the real macro crate", ref="§6 C15"),
    "C16": dict(text="Theorems: predicate lookup after the second parse returns the compiler's value; world erasure and query erasure (decorated under any assignment = declaration with disabled items deleted and attributes stripped), for all declarations, queries and assignments. Tie: harness/mac, every assignment of the used predicates, each case with its erased twin through the real code; compiled end-to-end programs (real rustc cfg evaluation, several distinct predicates with mixed truth values) compared with their erased twins in verdict and output.",
                note=MAC_NOTE + " Known finding F5 (all archetypes disabled vs the parse-time emptiness check).", technique="Lean 4 proof (list induction) + differential correspondence incl. erased twins", ref="§6 C16"),
}

CLAIMS.update({
    "C02": dict(text="Theorems: refinement of the N-column storage to an abstract map entity -> row along every labelled history (create inserts, destroy erases and returns the entity's own row, a write updates exactly the designated entity, clone maps), frame rule per operation, every read path reads valueOf; for any number of columns. World-history forms in Props/Histories.lean (C02_all_histories, C02_fetch_all_histories). Tie: harness/rt writes through 8 mutable paths and reads through all paths over archetypes of 1,2,3,5,16(32) columns with zero-sized / align 1,8,16 / heap-owning components; oracles on implementation traces (latest value per component token through every path, own row, paths agree).",
                note=RT_NOTE, technique="Lean 4 proof (refinement to an abstract map) + differential correspondence with the real API", ref="§6 C02"),
    "C04": dict(text="Theorems over token-valued storages: conservation (owned ++ handed-back ~ initial ++ moved-in as permutations), world drop returns exactly the owned cells, Nodup preserved (no double drop, nothing handed back while owned), clone clones each live cell once, failed create_within_capacity changes nothing; world-history form C04_all_histories (creation/removal/clear histories). Tie: instrumented Clone/Drop registry in harness/rt (per-op drops inside gecs, end-of-sequence balance, double-drop detection), incl. zero-sized and heap-owning components; a fixed ownership scenario over archetype shapes mixing components without drop glue, tracked ones and a zero-sized Drop type (rt shapes).",
                note=RT_NOTE + " Bit-copy semantics of swap_remove/realloc not running destructors: Miri on generated histories (thorough tier) as supporting evidence.", technique="Lean 4 proof (permutation invariant over labelled histories) + Clone/Drop registry correspondence", ref="§6 C04"),
    "C11": dict(text="Theorems over RefCell counter cells and guard trees with unwinding, for all access trees: no state with writer and readers, panics iff a static conflict exists (with the exact BorrowError/BorrowMutError kind), all cells unborrowed afterwards on both outcomes, clone panics iff a listed column has a writer, different column/archetype and shared-shared always granted. Tie: `nest` operation of harness/rt walks run-time trees over the real borrow_slice(_mut), Borrow::component(_mut), ecs_find_borrow!, ecs_iter_borrow!, clone (all pairs + random nestings) under catch_unwind with a post-sweep; implementation-only oracle over an event log of attempted/granted accesses (granted => no conflict held, refused => a conflict may be held).",
                note=RT_NOTE + " Trusted: std::cell::RefCell is the reader/writer counter.", technique="Lean 4 proof (mutual induction over guard trees with a ghost held-list abstraction) + differential correspondence", ref="§6 C11"),
    "C13": dict(text="Theorems: the clone has identical len/capacity/version/handles/free list/events and every lookup (any words, Entity or direct) answers identically, values equal under any Clone-preserved observation, clone satisfies the invariant and can be refilled to capacity, owned values disjoint when Clone produces fresh ones. C13_all_histories: for the world reached by ANY history. Independence is NOT exhibited by the functional model: it rests on the tie (the same probes on a world and its fresh clone, clone-and-diverge phases, drops in both orders with the registry, no handle reissued by a clone).",
                note=RT_NOTE, technique="Lean 4 proof (field equality + invariant) for identity; correspondence only for independence", ref="§6 C13"),
    "C14": dict(text="Theorems over Nat words for all 2^32 x 2^32 values and all 256 ids: pack/unpack (shift/or = arithmetic forms), raw round trip and from_raw rejecting exactly generation 0, try_from/from_any iff id match, Select* picks the unique archetype or InvalidEntityType, hash input injective and congruent, distinct (id, index, generation) give unequal handles, slot-index encoding. Tie: `conv` (every conversion incl. Select*), `cmp` (==, != and hash of handle pairs sharing a key word), `forge`, create lines of harness/rt over boundary words x ids.",
                note=RT_NOTE, technique="Lean 4 proof (arithmetic, omega + Nat bit lemmas, no bv_decide) + differential correspondence", ref="§6 C14"),
    "C17": dict(text="Theorems: along every labelled history the created/destroyed logs are the fold of the labels; after a clear exactly the handles created/destroyed since, in order; clear changes nothing else; feature off logs nothing; the generated world-level iterator (state machine) yields the concatenation of the per-archetype logs with an exact size_hint at every position; world-history forms C17_all_histories / C17_since_last_clear. Tie: events/clear lines of harness/rt built with the events feature, incl. world-level iterators and size_hint after each next().",
                note=RT_NOTE, technique="Lean 4 proof (fold over labelled histories; iterator state-machine invariant) + differential correspondence", ref="§6 C17"),
})

CLAIMS.update({
    "C06": dict(text="Theorems for all closures (observed by a wrapper proved not to change the run) and every Inv state: calls are made for dense indices 0,1,.. in order with exactly what the slices hold there (own handle, own cells, direct handle (idx, version)); run to the end every live entity exactly once (handles Nodup, count = len); only &mut-written cells change; Break ends the whole query across archetypes; without Break the count is the sum of len. Tie: iter/iterb/rows lines of harness/rt (per-call argument logs of the real macros; all slice/iterator paths compared); oracle: every live entity of every archetype satisfying the query exactly once with its own data, stop at Break.",
                note=RT_NOTE, technique="Lean 4 proof (loop invariant, closure instrumentation by simulation) + differential correspondence", ref="§6 C06"),
    "C07": dict(text="Theorem destroyLoop_spec for all closures: never UB, Inv afterwards, visited = reverse dense order of the population at loop start (at most once; exactly once when run to the end), (survivors ++ removed) ~ initial with removed = exactly the flagged entities, survivors keep handle and unwritten cells, unvisited prefix untouched, immediate global stop at Break/BreakDestroy, every direct handle handed to the closure is accepted in the storage the closure runs in and designates the visited entity (relies on the repaired per-step version read; the stale-version variant is refuted by a witness). Overflow panics are covered as one more way to stop. Tie: iterd lines of harness/rt with decision lists, direct handles probed after the loop; EVERY decision string over the four EcsStepDestroy values up to length 4 (quick) / 6 (thorough) on one and on two matched archetypes.",
                note=RT_NOTE, technique="Lean 4 proof (reverse-loop invariant: prefix intact, visited = reversed suffix, permutation) + differential correspondence", ref="§6 C07"),
    "C18": dict(text="(a) unsafe-freedom: decided universally over the template-token table generated from the generator sources on every run (decide +kernel), tied end-to-end by compiling harness/rt (worlds + 110 query call sites), ~650 generated probe programs and the end-to-end programs under #![forbid(unsafe_code)] and by scanning every emitted stream in harness/mac. (c) auto traits: structural rule evaluated over the generated field table: world never Sync, Send iff components Send, handles Send+Sync regardless (probes with components whose Send and Sync differ: Cell, MutexGuard). (b) borrow envelope: PARTIAL by nature — decided on a signature-level model with one borrow rule over the generated API signature table for the full product holders x structural operations, plus the reference-to-reference conversion impls of src/** (generated table: result lifetime tied to the argument; stretch-to-static probes), validated program by program against rustc (unsound program must fail with a borrow/auto-trait error, sound twin must compile). A proof about rustc's borrow checker for all client programs is not possible with what is installed.",
                note="Trusted: Lean kernel + standard axioms (decide +kernel over generated tables); tools/extract.py; rustc as the implementation of the envelope. Not formalised: Rust's type system / borrow checker.", technique="Lean 4 proof over translator-generated tables (tokens, fields, signatures) + rustc accept/reject corpus with twins", ref="§6 C18"),
})

CLAIMS.update({
    "C01": dict(text="Theorems over world histories (run: any finite list of operations with arbitrary forged handles and arbitrary closures, continuing after panics): in every reachable world, for any Entity words, contains/fetch/toDirect accept iff the words are in the archetype's dense array (alive) and then designate that very entity; all four uses (typed/dynamic x archetype/world level) of a live handle route to its archetype and agree, in debug and release; a handle that left the dense array is rejected forever whatever happens later (non-wrapping); destroy removes exactly the designated entity. Tie: probe after structural ops over all issued handles (live and stale, positions reused many times) through every path; the invariant (decidable checker proved equivalent to Inv: invCheck_iff) evaluated on implementation dumps; trace oracles.",
                note=RT_NOTE + " Wrapping configuration: false by design after a wrap (witness proved); see C08/C19.", technique="Lean 4 proof (representation invariant + history induction with a ghost 'seen' set) + differential correspondence", ref="§6 C01"),
    "C03": dict(text="Theorems: run never reaches undefined behaviour for ANY handle words in any operation (every unchecked access of the modelled code has its precondition implied by the invariant plus the checks the code performs); lookups with arbitrary dynamic words never UB and never change the world; an accepted dynamic key (or typed key in debug, or typed key with matching id) is bit-identical to the handle of the live entity it reaches; direct keys accepted iff (index, version) is what to_direct would issue now; unknown id: clean panic at world level, None at archetype level. PARTIAL for typed keys made by from_any_unchecked with a foreign id in release builds (known finding F3: matches on (index, generation) only; witness proved).",
                note=RT_NOTE + " Pointer arithmetic and allocation are modelled, not verified (Miri on forged-handle histories in the thorough tier as supporting evidence; a harness process killed by a signal is reported as a concrete violation).", technique="Lean 4 proof (Out.ub unreachable under the invariant; case analysis of the checks) + state-derived forgery sweep in debug and release", ref="§6 C03"),
    "C08": dict(text="Theorems (non-wrapping): a handle newly appearing in an archetype was never in it before at any earlier point of the history (three-point and create-step forms), so no create ever returns a handle issued earlier; handles of different archetypes differ in the id byte; at generation vmax the removal panics and leaves the state unchanged (nothing is reissued); with wrapping_version the documented exception is exhibited by a proved witness. vmax/maxCap come from the translator-generated constants. Tie: all issued handles checked for uniqueness per world by the oracle; preset counters near 2^32 (hook H2) then churn across the boundary in default and wrapping builds; thorough: 2^32-1 REAL create/destroy cycles on one position without the hook.",
                note=RT_NOTE, technique="Lean 4 proof (ghost invariant: stale generation < slot generation) + differential correspondence incl. overflow boundary", ref="§6 C08"),
    "C09": dict(text="Theorems over world histories (non-wrapping): a direct handle (d, version) issued for e is accepted at issue; whenever accepted later it designates e; after any loss of an entity of its archetype the version is strictly larger and every lookup answers None; while the version is unchanged (in particular under creations, growth, writes, clears, and operations on other archetypes) it stays accepted; to_direct with a direct key validates it (defect F4 repaired) and what to_direct mints is accepted. Closure-minted direct handles: C07 theorem minted_direct_designates. Tie: direct handles harvested from to_direct and from closures of all five macros, re-probed after later operations through all paths.",
                note=RT_NOTE, technique="Lean 4 proof (version strictly monotone per removal; prefix stability between removals) + differential correspondence", ref="§6 C09"),
})

CLAIMS.update({
    "C10": dict(text="Theorems: for every operation (arbitrary closures and handles) on an invariant world, whatever the outcome — return or panic — the carried world satisfies the invariant (each entity whole or absent: dense/sparse bijection, all columns of length len), same schema, storages related by atomic steps; never UB; run continues after every panic and the invariant holds after arbitrary further use; the overflow panics of destroy, the capacity overflow of create and with_capacity beyond the limit leave the state UNCHANGED; closure panics in iter/iter_destroy/find keep the invariant; regression witness: with the ORIGINAL statement order of force_destroy (defect F1, repaired) an overflow panic violates the invariant. Tie: fault sweep in harness/rt — k-th closure call of each macro, k-th Clone::clone, k-th Drop::drop (world drop and destroyed tuple), counters preset to the 2^32 boundary then destroy by every key kind and iter_destroy, borrow conflicts — each followed by dump+invariant, rows, probes, continued use and an end-of-sequence registry balance (leaks predicted exactly); thorough: the generation overflow reached by 2^32-1 real cycles; Miri on fault/overflow histories.",
                note=RT_NOTE + " Cannot be exhibited by the model: unwinding through real stack frames, allocation failure, the Layout overflow panic inside DataPtr::grow.", technique="Lean 4 proof (per-operation, per-panic-point invariant preservation) + fault enumeration against the real code", ref="§6 C10"),
    "C12": dict(text="Theorems for symbolic maxCap (value 2^24 from the translator): len = number of live entities (Nodup dense handles), is_empty agrees, len <= capacity <= maxCap, capacity monotone along every history, with_capacity(n) succeeds iff n <= maxCap and then n create_within_capacity succeed without growing, create_within_capacity succeeds iff len < capacity (capacity unchanged, else state unchanged), create succeeds whenever len < maxCap under any admissible growth (the code's own formula is admissible), at the limit it panics with the state unchanged, after ANY history exactly capacity - len further create_within_capacity succeed (every freed position reusable) and the next is refused. Tie: len/capacity/version in every observation, refill-to-capacity probes, invariant evaluated on dumps of the implementation's slot array.",
                note=RT_NOTE + " The real 2^24 boundary is exercised on the implementation alone (rt boundary, both tiers; the list model is not run at 2^24 elements).", technique="Lean 4 proof (free-chain length invariant) + differential correspondence + invariant on implementation dumps", ref="§6 C12"),
    "C19": dict(text="Theorems: events only adds logs (erasing the logs commutes with every storage operation, stepOp and run, for arbitrary closures/handles); wrapping_version changes nothing until a generation at vmax is released (run-level equality on overflow-free histories) and beyond that keeps the invariant and never reaches UB (documented reuse exhibited by a witness); debug assertions change nothing for in-range keys and issued keys never trip them, the only difference for forged out-of-range keys is a clean panic vs None; the invariant and all theorems are arity-generic. The feature list and storage arities come from the translator. Tie: the rt streams re-run under 6 (quick) / 16 (thorough) configurations against the model with the matching Cfg, plus implementation-vs-implementation replay of the same operation lists across configurations differing in exactly one feature or the profile; thorough: the 2^32 boundary by real cycles in rel-none, rel-w and dbg-w.",
                note=RT_NOTE, technique="Lean 4 proof (parametricity in Cfg, simulation lifted to run) + cross-configuration differential replay", ref="§6 C19"),
})

NOT_YET = {}

ALL = ["C%02d" % i for i in range(1, 20)]


def main():
    checks = []
    for pid in ALL:
        if pid in CLAIMS:
            c = CLAIMS[pid]
            checks.append({
                "property_id": pid,
                "quick_cmd": f"./check {pid} --tier quick",
                "thorough_cmd": f"./check {pid} --tier thorough",
                "evidence_file": f"/verif/evidence/{pid}.json",
                "replay_cmd_template": "./check --replay {path}",
                "engine": "lean4-proof+correspondence",
                "level_claimed": {"category": "proof", "text": c["text"], "design_ref": c["ref"]},
                "level_note": c["note"],
                "technique": c["technique"],
            })
    na = [{"property_id": p, "reason": NOT_YET.get(p, "not claimed yet: machinery for this property is still being built (see DESIGN.md §6)")}
          for p in ALL if p not in CLAIMS]
    m = {
        "version": 1,
        "setup_cmd": "./check --setup",
        "hooks": {
            "guard": "cfg(gecs_verif)",
            "enable": "RUSTFLAGS=\"--cfg gecs_verif\" when building harness/rt against /repo (path dependency)",
            "baseline_off_cmd": "cd /repo && cargo test --workspace --no-fail-fast --offline",
            "source_commits": ["d09ee2c"],
            "add_only": True,
        },
        "engines": [
            {"name": "lean4-proof+correspondence", "path": "/verif/lean + /verif/harness + /verif/tools",
             "serves_properties": sorted(CLAIMS.keys()),
             "kind_free_text": "Lean 4 theorems about executable models; models tied to /repo on every run by differential replay against the real code (line protocol) and by translator-generated constants"},
        ],
        "checks": checks,
        "not_applicable": na,
        "notes": "Single entry point ./check <Cxx> [--tier quick|thorough] | --replay <file> | --setup. fix: commits in /repo: b8012bf (F1), 605cf9e (F2), e73fcbd (F4); known findings F3 (C03) and F5 (C16) in /verif/known-findings.txt. Seeded changes used to test the checks: /verif/seeded/ (DESIGN.md section 9).",
    }
    json.dump(m, open(os.path.join(VERIF, "MANIFEST.json"), "w"), indent=1)
    print("wrote MANIFEST.json with", len(checks), "checks")


if __name__ == "__main__":
    main()
