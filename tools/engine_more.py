"""Handlers for the properties that are not plain rt-stream properties:
C05 / C15 / C16 (macro logic: harness/mac), and — added below as they are built —
C10, C11, C18, C19."""
import os, sys, json, time, subprocess, shutil, re, hashlib

import engine
from engine import (VERIF, REPO, CACHE, ENV, MODEL_BIN, Lock, sh, tdir, lean_obligations, is_known, write_replay,
                    log, TRUSTED_BASE, EVID)
import mac as macmod

HANDLERS = {}

# ----------------------------------------------------------------------------- harness/mac


def build_mac():
    target = os.path.join(CACHE, "target-mac")
    built = os.path.join(target, "debug", "mac")
    os.makedirs(os.path.join(tdir(), "bin"), exist_ok=True)
    binp = os.path.join(tdir(), "bin", "mac")      # per-tree copy, see engine.build_rt
    marker = os.path.join(tdir(), "mac-build.json")
    with Lock("cargo-mac"):
        if os.path.exists(marker):
            r = json.load(open(marker))
            if r["ok"] and os.path.exists(binp):
                return r
        t0 = time.time()
        hdir = os.path.join(VERIF, "harness", "mac")
        shutil.copy(os.path.join(REPO, "Cargo.lock"), os.path.join(hdir, "Cargo.lock"))
        env = dict(ENV, CARGO_TARGET_DIR=target, RUSTFLAGS="-Awarnings")
        rc, out = sh(["cargo", "build", "--offline"], cwd=hdir, env=env, timeout=3600)
        if rc == 0:
            shutil.copy2(built, binp)
        r = {"ok": rc == 0, "bin": binp, "wall_s": round(time.time() - t0, 1), "log_tail": out[-4000:]}
        json.dump(r, open(marker, "w"))
        return r


def run_mac_lines(lines, workdir):
    b = build_mac()
    f = os.path.join(workdir, "cases.txt")
    open(f, "w").write("\n".join(lines) + "\n")
    if not b["ok"]:
        return None, None, "harness/mac does not build:\n" + b["log_tail"][-1500:]
    p = subprocess.run([b["bin"], "run", f], stdout=subprocess.PIPE, stderr=subprocess.PIPE, text=True, env=ENV)
    impl = p.stdout.splitlines()
    with open(f) as fh:
        m = subprocess.run([engine.model_bin(), "mac"], stdin=fh, stdout=subprocess.PIPE, stderr=subprocess.PIPE, text=True)
    model = m.stdout.splitlines()
    err = None
    if p.returncode != 0:
        err = f"harness/mac exited with {p.returncode}: {p.stderr[-300:]}"
    return impl, model, err


def run_mac_stream(seed, n_worlds, kmax):
    key = f"mac-{seed}-{n_worlds}-{kmax}"
    out = os.path.join(tdir(), "streams")
    os.makedirs(out, exist_ok=True)
    jf = os.path.join(out, key + ".json")
    with Lock("stream-" + key):
        if os.path.exists(jf):
            return json.load(open(jf))
        t0 = time.time()
        lines, meta = macmod.gen_cases(seed, n_worlds, kmax)
        work = os.path.join(out, key)
        os.makedirs(work, exist_ok=True)
        impl, model, err = run_mac_lines(lines, work)
        res = {"key": key, "cases": len(lines), "crashed": err, "diffs": [], "oracle_hits": [], "stats": {}}
        if impl is not None:
            by_id_case = {l.split()[1]: l for l in lines}
            mi = {}
            for l in impl:
                p = macmod.parse_out(l)
                if p:
                    mi[p["id"]] = (l, p)
            mm = {}
            for l in model:
                p = macmod.parse_out(l)
                if p:
                    mm[p["id"]] = (l, p)
            for cid, case in by_id_case.items():
                a = mi.get(cid, ("<no output>", None))
                b = mm.get(cid, ("<no output>", None))
                if a[0] != b[0]:
                    parts = []
                    if a[1] and b[1]:
                        for k in ("wpreds", "world", "qpreds", "query"):
                            if a[1][k] != b[1][k]:
                                parts.append(k)
                    res["diffs"].append({"case": case, "impl": a[0], "model": b[0], "parts": parts or ["all"]})
            hits = macmod.run_oracles(lines, meta, {k: v[1] for k, v in mi.items()})
            for h in hits:
                h["case_line"] = by_id_case.get(h["case"], "")
                h["twin_line"] = by_id_case.get(h["case"] + "e", "")
            res["oracle_hits"] = hits
            # distribution
            st = {"world_ok": 0, "world_err_duplicate": 0, "world_err_exceeds": 0, "world_err_parse": 0, "query_ok": 0,
                  "query_err_noMatch": 0, "query_err_ambiguous": 0, "query_err_cfgOnOneOf": 0, "query_err_parse": 0,
                  "with_predicates": 0, "assignments_max_k": 0}
            for cid, (l, p) in mi.items():
                w = p["world"]
                st["world_ok" if w.startswith("ok") else "world_err_" + (w.split(":")[1] if w.split(":")[1] in ("duplicate", "exceeds") else "parse")] += 1
                if p["query"]:
                    q = p["query"]
                    if q.startswith("ok"):
                        st["query_ok"] += 1
                    else:
                        c = q.split()[1].split(":")[0]
                        st["query_err_" + (c if c in ("noMatch", "ambiguous", "cfgOnOneOf") else "parse")] += 1
            for cid, mt in meta.items():
                if mt["k"] > 0:
                    st["with_predicates"] += 1
                st["assignments_max_k"] = max(st["assignments_max_k"], mt["k"])
            st["distinct_worlds"] = len({json.dumps(m["world"]) for m in meta.values()})
            st["distinct_nontrivial"] = len({json.dumps([m["world"], sorted(m["rho"].items()), m["query"]]) for m in meta.values()
                                             if m["k"] > 0 or any(a[1] is not None for a in m["world"][1])})
            res["stats"] = st
            res["samples"] = [{"case": lines[i], "impl": impl[i] if i < len(impl) else None} for i in (0, 2, 4) if i < len(lines)]
        res["wall_s"] = round(time.time() - t0, 2)
        shutil.rmtree(work, ignore_errors=True)
        json.dump(res, open(jf, "w"))
        return res


MAC_PARTS = {"C15": {"world"}, "C05": {"query"}, "C16": {"wpreds", "qpreds", "world", "query"}}


def run_e2e(seed, n_cases):
    """End-to-end programs compiled and run by the real toolchain (tools/e2e.py); cached per tree."""
    import e2e
    jf = os.path.join(tdir(), f"e2e-{seed}-{n_cases}.json")
    with Lock("e2e"):
        if os.path.exists(jf):
            return json.load(open(jf))
        progs = e2e.gen_programs(seed, n_cases)
        try:
            r = e2e.run_programs(progs, os.path.join(CACHE, "e2e-crate"), os.path.join(CACHE, "target-e2e"), ENV)
        except Exception as ex:  # noqa
            r = {"results": [], "hits": [], "unexpected": [], "crashed": repr(ex), "wall_s": 0}
        if not any(x.get("compiled") for x in r["results"]) and not r.get("crashed"):
            r["crashed"] = "no end-to-end program compiled: " + r.get("stderr_tail", "")[-500:]
        for h in r["hits"]:
            src = os.path.join(CACHE, "e2e-crate", "src", "bin", h["program"] + ".rs")
            h["source"] = open(src).read() if os.path.exists(src) else None
            res = next((x for x in r["results"] if x["name"] == h["program"]), {})
            h["case"] = res.get("case")
            h["rho"] = res.get("rho")
            h["output"] = res.get("output")
            h["expected_output"] = next((pp.get("expected") for pp in progs if pp["name"] == h["program"]), None)
            if h["class"] in ("e2e-erasure", "e2e-erasure-verdict"):
                tw = next((x for x in r["results"] if x["name"] == h["program"] + "_twin"), {})
                h["expected_output"] = tw.get("output")
        r["programs"] = len(progs)
        json.dump(r, open(jf, "w"))
        return r


def check_mac(prop, tier, seed):
    t0 = time.time()
    lean = lean_obligations(prop)
    if tier == "thorough":
        lc = engine.leancheck_all()
        lean["leanchecker"] = {"modules_rechecked": lc["modules"], "failed": lc["failed"], "wall_s": lc["wall_s"]}
        for f in lc["failed"]:
            lean["broken"].append(f"leanchecker rejects {f['module']}")
        streams = [run_mac_stream(seed + i, 1500, 6) for i in range(4)]
    else:
        streams = [run_mac_stream(seed, 250, 4)]
    known_lines, violation = [], None
    for s in streams:
        for h in s["oracle_hits"]:
            if h["property"] != prop:
                continue
            k = is_known(h, "mac")
            if k:
                msg = "KNOWN-FINDING: " + k['text'].split(' ', 1)[1]
                if msg not in known_lines:
                    known_lines.append(msg)
                continue
            violation = violation or ("oracle", h)
    # C15 also has implementation-side oracles on harness/rt `conv` lines (what the Select*
    # conversions report for the world Wa with explicit, non-positional ids)
    if prop == "C15":
        for c in engine.QUICK_CONFIGS:
            srt = engine.run_stream(c, "forge", seed, 30, 200)
            h = next((x for x in srt.get("oracle_hits", []) if x["property"] == "C15"), None)
            if h is not None:
                ops = engine.seq_ops(srt["trace"], h["seq"])
                pred = lambda r: any(x["property"] == "C15" and x["class"] == h["class"] for x in r["hits"])
                try:
                    small, final, trace_text = engine.shrink(c, ops, pred)
                except Exception:  # noqa
                    small, trace_text = ops, ""
                path = write_replay(prop, "oracle-" + h["class"], {"property": prop, "kind": "oracle", "config": c, "seed": seed, "profile": "forge",
                                                                   "what": h["what"], "class": h["class"], "ops": small, "trace": trace_text.splitlines()})
                print(f"VIOLATION property={prop} replay={path}")
                engine.write_evidence(prop, tier, seed, lean, [srt], 1, [], None, t0)
                return 1
    e2 = run_e2e(seed, 120 if tier == "thorough" else 28)
    e2_hit = next((h for h in e2["hits"] if h["property"] == prop), None)
    broken_tie = []
    if e2.get("crashed"):
        broken_tie.append({"kind": "e2e-crash", "detail": e2["crashed"]})
    for u in e2.get("unexpected", [])[:3]:
        broken_tie.append({"kind": "e2e-unexpected-verdict", "detail": f"program {u['name']} ({u['why']}) — compiled={u['compiled']} errors={u['errors'][:2]}", "case": u.get("case")})
    for s in streams:
        if s.get("crashed"):
            broken_tie.append({"kind": "crash", "detail": s["crashed"]})
        for d in s["diffs"]:
            if set(d["parts"]) & MAC_PARTS[prop] or d["parts"] == ["all"]:
                if prop == "C16" and " rho - " in d["case"] and not d["case"].split()[1].endswith("e"):
                    continue  # no predicate involved: charged to C15 / C05 only
                broken_tie.append({"kind": "mismatch", **d})
                break
    for l in known_lines:
        print(l)
    rc = 0
    if e2_hit and not violation:
        path = write_replay(prop, "oracle-" + e2_hit["class"], {"property": prop, "kind": "e2e-program", "class": e2_hit["class"], "what": e2_hit["what"],
                                                                "declaration": e2_hit.get("case"), "truth_assignment": e2_hit.get("rho"),
                                                                "observed_output": e2_hit.get("output"), "expected_output": e2_hit.get("expected_output"), "program": e2_hit.get("source"),
                                                                "how": "compile the program against /repo (cargo build) and run it"})
        print(f"VIOLATION property={prop} replay={path}")
        rc = 1
    elif violation:
        kind, h = violation
        path = write_replay(prop, "oracle-" + h["class"], {"property": prop, "kind": "mac-oracle", "class": h["class"],
                                                            "what": h["what"], "case_lines": [h["case_line"], h["twin_line"]]})
        print(f"VIOLATION property={prop} replay={path}")
        rc = 1
    elif broken_tie or lean["broken"]:
        # failing-input search: the oracles already ran over every case; widen once
        found = None
        if tier != "thorough":
            s2 = run_mac_stream(seed + 17, 1500, 6)
            for h in s2["oracle_hits"]:
                if h["property"] == prop and not is_known(h, "mac"):
                    found = h
                    break
        if found:
            path = write_replay(prop, "oracle-" + found["class"], {"property": prop, "kind": "mac-oracle", "class": found["class"],
                                                                    "what": found["what"], "case_lines": [found["case_line"], found["twin_line"]]})
            print(f"VIOLATION property={prop} replay={path}")
        else:
            data = {"property": prop, "kind": "mac-correspondence" if broken_tie else "proof", "broken_obligations": lean["broken"],
                    "broken_correspondence": broken_tie[:3],
                    "case_lines": [broken_tie[0]["case"]] if broken_tie and "case" in broken_tie[0] else [],
                    "note": "no concrete input violating the property itself was found within the search budget; the property is no longer shown to hold"}
            path = write_replay(prop, "unproved", data)
            print(f"VIOLATION property={prop} replay={path} no-failing-input-found")
        rc = 1
    st = {}
    for s in streams:
        for k, v in s.get("stats", {}).items():
            st[k] = max(st.get(k, 0), v) if k == "assignments_max_k" else st.get(k, 0) + v
    cov = {
        "obligations": lean["obligations"], "discharged": lean["discharged"], "checker_cmd": lean["checker_cmd"],
        "trusted_base": TRUSTED_BASE + ["harness/mac: the real macros/src/{data,parse,generate} included by path; in harness/mac rustc's evaluation of the #[cfg] macro_rules chain is simulated (one boolean per predicate in chain order); the end-to-end expansion by rustc is exercised by tools/e2e.py (generated programs compiled and run) and by the worlds of harness/rt"],
        "theorems": lean.get("names", []), "axioms_per_theorem": lean["axioms"], "broken_obligations": lean["broken"],
        "evaluations": sum(s["cases"] for s in streams),
        "traces_validated_against_impl": sum(s["cases"] for s in streams),
        "distinct_nontrivial": st.get("distinct_nontrivial", 0),
        "rule": "cases = (declaration, truth assignment, query) triples from tools/mac.py, every assignment of the predicates used (sampled above 16), each with its erased twin; distinct = distinct triples; non-trivial = uses a predicate or an explicit id",
        "samples": [x for s in streams[:1] for x in s.get("samples", [])] + [{"obligation": n, "axioms": lean["axioms"].get(n)} for n in lean.get("names", [])[:5]],
        "distribution": st,
        "model_vs_impl_disagreements": sum(len(s["diffs"]) for s in streams),
        "impl_vs_oracle_failures": sum(1 for s in streams for h in s["oracle_hits"] if h["property"] == prop and not is_known(h, "mac")),
        "known_findings_reported": known_lines,
        "leanchecker": lean.get("leanchecker"),
        "end_to_end_programs": {"compiled_and_run": sum(1 for x in e2["results"] if x["expect"] in ("run", "twin") and x.get("compiled")),
                                "must_not_compile": sum(1 for x in e2["results"] if x["expect"] == "fail"),
                                "oracle_failures": len(e2["hits"]), "unexpected_verdicts": len(e2.get("unexpected", [])), "wall_s": e2.get("wall_s"),
                                "what": "generated declarations + queries compiled by rustc against /repo and run: emitted ARCHETYPE_ID/COMPONENT_ID constants, ecs_component_id!, handles' archetype_id(), archetypes visited by each query, decorated program vs erased twin"},
    }
    ev = {"property_id": prop, "tier": tier, "seed": seed, "level": "proof", "coverage": cov, "assumptions": cov["trusted_base"],
          "wall_s": round(time.time() - t0, 2), "violations": 1 if rc else 0}
    os.makedirs(EVID, exist_ok=True)
    json.dump(ev, open(os.path.join(EVID, prop + ".json"), "w"), indent=1)
    if rc == 0:
        print(f"PASS property={prop} tier={tier} obligations={lean['discharged']}/{lean['obligations']} cases={cov['evaluations']} e2e_programs={e2.get('programs', 0)}")
    return rc


for _p in ("C05", "C15", "C16"):
    HANDLERS[_p] = check_mac


# ----------------------------------------------------------------------------- C18: rustc probes

def run_probes():
    import rustc_probes as rp
    jf = os.path.join(tdir(), "rustc-probes.json")
    with Lock("rustc-probes"):
        if os.path.exists(jf):
            return json.load(open(jf))
        engine.lean_build()   # runs the translator: Gen/sigs.json
        sj = os.path.join(VERIF, "lean", "Gecs", "Gen", "sigs.json")
        res = {"crashed": None, "results": [], "wall_s": 0}
        if not os.path.exists(sj):
            res["crashed"] = "signature table was not generated (translator failed)"
        else:
            sigs = json.load(open(sj))
            rj = os.path.join(VERIF, "lean", "Gecs", "Gen", "refimpls.json")
            ref_impls = json.load(open(rj)) if os.path.exists(rj) else []
            probes = rp.gen_corpus(sigs, ref_impls)
            results, rc, err, wall = rp.run_corpus(probes, os.path.join(CACHE, "rustc-probes"), os.path.join(CACHE, "target-probes"), ENV)
            res.update({"results": results, "cargo_rc": rc, "wall_s": wall, "n": len(probes)})
            if not any(r.get("compiled") for r in results):
                res["crashed"] = "no probe compiled at all: " + err[-600:]
        json.dump(res, open(jf, "w"))
        return res


def check_c18(prop, tier, seed):
    t0 = time.time()
    lean = lean_obligations(prop)
    build = engine.lean_build()
    if tier == "thorough":
        lc = engine.leancheck_all()
        for f in lc["failed"]:
            lean["broken"].append(f"leanchecker rejects {f['module']}")
    pr = run_probes()
    # (a) end-to-end: the harness that declares worlds and 120 query call sites is compiled under
    # #![forbid(unsafe_code)] in both quick configurations
    rt_builds = {c: engine.build_rt(c) for c in engine.QUICK_CONFIGS}
    mac = run_mac_stream(seed, 250, 4)
    unsound = [r for r in pr["results"] if r["expect"] == "fail" and not r["agree"]]
    twins = [r for r in pr["results"] if r["expect"] == "ok" and not r["agree"]]
    missing = [r for r in pr["results"] if r["expect"] in ("missing-sig", "missing-template")]
    unsafe_emitted = [d for d in mac.get("diffs", []) if "UNSAFE" in d.get("impl", "")]
    rc = 0
    if twins and not (unsound or unsafe_emitted):
        # a SOUND program (the twin of an unsound one, or a handle Send/Sync/Copy requirement) is
        # rejected: the property demands that it compiles
        r = twins[0]
        src = os.path.join(CACHE, "rustc-probes", "src", "bin", r["name"] + ".rs")
        data = {"property": prop, "kind": "rustc-probe", "class": "sound-program-rejected", "name": r["name"], "why": r["why"], "expected": "must compile",
                "observed": f"does not compile: {r.get('errors')}", "program": open(src).read() if os.path.exists(src) else None, "must_compile": True}
        path = write_replay(prop, "sound-program-rejected", data)
        print(f"VIOLATION property={prop} replay={path}")
        rc = 1
    elif unsound or unsafe_emitted:
        if unsound:
            r = unsound[0]
            src = os.path.join(CACHE, "rustc-probes", "src", "bin", r["name"] + ".rs")
            data = {"property": prop, "kind": "rustc-probe", "name": r["name"], "why": r["why"], "expected": "must not compile",
                    "observed": "compiles" if r.get("compiled") else f"fails, but not with a borrow/auto-trait error: {r.get('errors')}",
                    "program": open(src).read() if os.path.exists(src) else None}
        else:
            data = {"property": prop, "kind": "mac-oracle", "class": "unsafe-token", "what": "a generator emitted a forbidden token",
                    "case_lines": [unsafe_emitted[0]["case"]]}
        path = write_replay(prop, "unsound-program-compiles" if unsound else "unsafe-token", data)
        print(f"VIOLATION property={prop} replay={path}")
        rc = 1
    elif lean["broken"] or twins or missing or pr.get("crashed") or not build.get("extract_ok", True) or not all(b["ok"] for b in rt_builds.values()):
        data = {"property": prop, "kind": "proof" if lean["broken"] else "rustc-correspondence", "broken_obligations": lean["broken"],
                "twins_that_do_not_compile": twins[:5], "signature_table_vs_corpus": missing[:10], "crashed": pr.get("crashed"),
                "translator": build.get("extract_log") if not build.get("extract_ok", True) else None,
                "harness_rt_under_forbid_unsafe_code": {c: b["ok"] for c, b in rt_builds.items()},
                "note": "no unsound program was found to compile; the property is no longer shown to hold"}
        path = write_replay(prop, "unproved", data)
        print(f"VIOLATION property={prop} replay={path} no-failing-input-found")
        rc = 1
    n_bad = sum(1 for r in pr["results"] if r["expect"] == "fail")
    cov = {
        "obligations": lean["obligations"], "discharged": lean["discharged"], "checker_cmd": lean["checker_cmd"],
        "trusted_base": TRUSTED_BASE + ["tools/extract.py (tokenizer-based translator: template tokens, struct fields, unsafe impls, API signatures)",
                                        "rustc is the implementation for the envelope; the borrow checker itself is not formalised: (b) is decided for the signature-level model and validated program by program over the generated corpus"],
        "theorems": lean.get("names", []), "axioms_per_theorem": lean["axioms"], "broken_obligations": lean["broken"],
        "programs": len(pr["results"]), "disagreements_checked": len(unsound) + len(twins),
        "evaluations": len(pr["results"]), "distinct_nontrivial": n_bad,
        "rule": "one program per (borrowing API item, structural operation) pair of the generated signature table + clone + closure arguments of the five macros + two-&mut + &mut entity + thread/auto-trait cases; each unsound program has a sound twin; non-trivial = programs that must NOT compile",
        "samples": [{"name": r["name"], "expect": r["expect"], "why": r["why"], "errors": r.get("errors", [])[:1]} for r in pr["results"][:3]] +
                   [{"obligation": n, "axioms": lean["axioms"].get(n)} for n in lean.get("names", [])[:4]],
        "must_not_compile": n_bad, "must_compile": sum(1 for r in pr["results"] if r["expect"] == "ok"),
        "unsound_programs_that_compile": len(unsound), "twins_that_fail": len(twins),
        "rustc_wall_s": pr.get("wall_s"), "harness_rt_compiles_under_forbid_unsafe_code": {c: b["ok"] for c, b in rt_builds.items()},
        "emitted_streams_scanned_for_forbidden_tokens": mac.get("cases", 0),
    }
    ev = {"property_id": prop, "tier": tier, "seed": seed, "level": "proof", "coverage": cov, "assumptions": cov["trusted_base"],
          "wall_s": round(time.time() - t0, 2), "violations": 1 if rc else 0}
    os.makedirs(EVID, exist_ok=True)
    json.dump(ev, open(os.path.join(EVID, prop + ".json"), "w"), indent=1)
    if rc == 0:
        print(f"PASS property={prop} tier={tier} obligations={lean['discharged']}/{lean['obligations']} programs={len(pr['results'])}")
    return rc


HANDLERS["C18"] = check_c18


# ----------------------------------------------------------------------------- C19: configurations

C19_QUICK = ["dbg-none", "rel-ew3", "dbg-e", "dbg-w", "dbg-3", "rel-none"]
# pairs differing in exactly one feature / the profile, and the generator profiles on which the
# two builds must behave identically (forging is excluded when debug assertions differ; the
# 2^32 boundary when wrapping differs)
C19_PAIRS = [("dbg-none", "dbg-e", ["churn", "query", "clone"]), ("dbg-none", "dbg-w", ["churn", "query", "grow"]),
             ("dbg-none", "dbg-3", ["churn", "query", "clone"]), ("dbg-none", "rel-none", ["churn", "query", "clone", "grow"])]


def normalise(line, events_differ, arity_differ):
    """Canonical form of one trace line for cross-configuration comparison."""
    if " => " not in line:
        return None
    op, rest = line.split(" => ", 1)
    k = op.split()[0]
    if events_differ and k in ("events", "clear"):
        return None
    if arity_differ and k == "conv":
        return None
    obs, _, summ = rest.partition(" # ")
    if arity_differ:
        summ = " ".join(summ.split()[:5])
        # the probed "other" archetype is (a + 1) mod the number of archetypes, which differs with 32_components
        obs = re.sub(r" o[crdvb]=\S+", "", obs)
        if k == "cmp":
            # one entry per archetype: compare the five archetypes both worlds have
            obs = re.sub(r"t=\[([^\]]*)\]", lambda m: "t=[" + " ".join(m.group(1).split()[:5]) + "]", obs)
    return f"{op} => {obs} # {summ}"


def cross_config(base, other, profile, seed, nseq, maxops):
    """Replay the operation lists generated under `base` on the harness built as `other`
    (implementation vs implementation, no model involved) and compare the observations."""
    key = f"cross-{base}-{other}-{profile}-{seed}-{nseq}-{maxops}"
    out = os.path.join(tdir(), "streams")
    jf = os.path.join(out, key + ".json")
    with Lock("stream-" + key):
        if os.path.exists(jf):
            return json.load(open(jf))
        sb = engine.run_stream(base, profile, seed, nseq, maxops)
        bo = engine.build_rt(other)
        res = {"key": key, "base": base, "other": other, "profile": profile, "diffs": [], "lines": 0, "crashed": None}
        if not bo["ok"] or sb.get("crashed"):
            res["crashed"] = f"build/base stream failed: {sb.get('crashed') or bo['log_tail'][-300:]}"
        else:
            tf = os.path.join(out, key + ".trace")
            with open(tf, "w") as fh:
                p = subprocess.run([bo["bin"], "run", sb["trace"]], stdout=fh, stderr=subprocess.PIPE, text=True, env=ENV)
            if p.returncode != 0:
                res["crashed"] = f"harness {other} exited with {p.returncode}: {p.stderr[-300:]}"
            fb, fo = engine.CONFIGS[base][1], engine.CONFIGS[other][1]
            ev = ("events" in fb) != ("events" in fo)
            ar = ("32_components" in fb) != ("32_components" in fo)
            la = [l.rstrip("\n") for l in open(sb["trace"], errors="replace") if " => " in l or l.startswith("seq ")]
            lb = [l.rstrip("\n") for l in open(tf, errors="replace") if " => " in l or l.startswith("seq ")]
            seqname = "?"
            dbg_differs = engine.CONFIGS[base][0] != engine.CONFIGS[other][0]
            tainted = False
            for x, y in zip(la, lb):
                if x.startswith("seq "):
                    seqname = x
                    tainted = False
                    continue
                nx, ny = normalise(x, ev, ar), normalise(y, ev, ar)
                res["lines"] += 1
                if nx != ny and not tainted:
                    if dbg_differs and ("DebugAssert" in x or "DebugAssert" in y):
                        # the documented effect of debug assertions on FORGED keys (clean panic vs. an
                        # answer; for unchecked typed conversions the known finding F3): from here on
                        # the two runs legitimately hold different variables.  Assertions tripped by
                        # handles the world issued itself are judged by the oracle
                        # `debug-assert-on-issued-handle` on the debug trace.
                        tainted = True
                        res["debug_assert_lines"] = res.get("debug_assert_lines", 0) + 1
                        continue
                    res["diffs"].append({"seq": seqname, "base": x[:600], "other": y[:600]})
                    if len(res["diffs"]) >= 5:
                        break
            if len(la) != len(lb):
                res["diffs"].append({"seq": "length", "base": str(len(la)), "other": str(len(lb))})
        json.dump(res, open(jf, "w"))
        return res


def check_c19(prop, tier, seed):
    t0 = time.time()
    lean = lean_obligations(prop)
    t = engine.tiers(tier)
    cfgs = list(engine.CONFIGS.keys()) if tier == "thorough" else C19_QUICK
    profiles = engine.ALL_PROFILES if tier == "thorough" else ["mix", "overflow", "events"]
    streams = []
    for c in cfgs:
        for pr in profiles:
            streams.append(engine.run_stream(c, pr, seed, t["nseq"], t["maxops"]))
    for c in cfgs:
        cs = engine.run_corpus(c)
        if cs is not None:
            streams.append(cs)
    pairs = C19_PAIRS
    if tier == "thorough":
        pairs = C19_PAIRS + [("rel-none", "rel-e", ["churn", "query", "clone"]), ("rel-none", "rel-w", ["churn", "query", "grow"]),
                             ("rel-none", "rel-3", ["churn", "query"]), ("dbg-ew3", "rel-ew3", ["churn", "query", "clone", "events"]),
                             ("dbg-e", "dbg-ew", ["churn", "events"]), ("dbg-w", "dbg-w3", ["churn", "overflow"])]
    crosses = [cross_config(b, o, pr, seed, t["nseq"], t["maxops"]) for (b, o, prs) in pairs for pr in prs]
    cross_bad = [c for c in crosses if c["diffs"] or c["crashed"]]
    extra = {"configurations": cfgs, "cross_configuration_pairs": [f"{c['base']} vs {c['other']} on {c['profile']}: {c['lines']} lines, {len(c['diffs'])} differences" for c in crosses],
             "cross_configuration_lines_compared": sum(c["lines"] for c in crosses)}
    if cross_bad and not any(h for s in streams for h in s.get("oracle_hits", []) if not is_known(h, s["config"]) and h["property"] not in ("MEMSAFE",)):
        # two builds of the implementation disagree where the features document no difference:
        # that IS a concrete failing input for this property
        c = cross_bad[0]
        path = write_replay(prop, "cross-config", {"property": prop, "kind": "cross-config", "base": c["base"], "other": c["other"],
                                                   "profile": c["profile"], "seed": seed, "nseq": t["nseq"], "maxops": t["maxops"],
                                                   "differences": c["diffs"][:5], "crashed": c["crashed"],
                                                   "note": "the same operation list gives different observations under two configurations that should only differ in what the feature documents"})
        print(f"VIOLATION property={prop} replay={path}")
        engine.write_evidence(prop, tier, seed, lean, streams, 1, [], extra, t0)
        return 1
    ex2 = engine.thorough_extras(prop, tier, seed, lean, streams)
    if ex2:
        extra.update(ex2)
    return engine.decide(prop, tier, seed, lean, streams, lambda line: True, extra_cov=extra, t0=t0)


HANDLERS["C19"] = check_c19


def replay_mac(data):
    work = os.path.join(tdir(), "replay-mac-%d" % os.getpid())
    os.makedirs(work, exist_ok=True)
    lines = [l for l in data.get("case_lines", []) if l]
    impl, model, err = run_mac_lines(lines, work)
    shutil.rmtree(work, ignore_errors=True)
    print("cases:")
    for l in lines:
        print("  " + l)
    print("implementation:")
    for l in impl or []:
        print("  " + l)
    print("model:")
    for l in model or []:
        print("  " + l)
    return 1 if (impl != model or data.get("kind") == "mac-oracle") else 0


def setup():
    b = build_mac()
    log(f"harness mac ok={b['ok']} ({b['wall_s']} s)")
    from concurrent.futures import ThreadPoolExecutor
    with ThreadPoolExecutor(max_workers=4) as ex:
        for c, r in zip(C19_QUICK, ex.map(engine.build_rt, C19_QUICK)):
            log(f"harness {c} ok={r['ok']} ({r['wall_s']} s)")
