#!/usr/bin/env python3
"""try_seed.py <patch.diff> <Cxx> [<Cxx> ...] [--tier quick]
Applies a seeded change to /repo, runs the listed checks, ALWAYS restores /repo, prints verdicts."""
import sys, subprocess, os, json, time

def main():
    patch = os.path.abspath(sys.argv[1])
    props = [a for a in sys.argv[2:] if not a.startswith("--")]
    st = subprocess.run(["git", "-C", "/repo", "status", "--porcelain"], capture_output=True, text=True).stdout.strip()
    if st:
        print("refusing: /repo is not clean:\n" + st)
        return 2
    r = subprocess.run(["git", "-C", "/repo", "apply", patch], capture_output=True, text=True)
    if r.returncode != 0:
        print("patch does not apply:", r.stderr)
        return 2
    out = {}
    try:
        for p in props:
            t0 = time.time()
            c = subprocess.run(["/verif/check", p, "--tier", "quick"], capture_output=True, text=True, cwd="/verif")
            lines = [l for l in c.stdout.splitlines() if l.startswith(("VIOLATION", "PASS", "KNOWN"))]
            out[p] = {"rc": c.returncode, "lines": [l[:300] for l in lines], "wall_s": round(time.time() - t0, 1)}
            print(p, c.returncode, [l[:200] for l in lines if not l.startswith("KNOWN")], f"{out[p]['wall_s']}s", flush=True)
    finally:
        subprocess.run(["git", "-C", "/repo", "checkout", "--", "."], check=True)
        st = subprocess.run(["git", "-C", "/repo", "status", "--porcelain"], capture_output=True, text=True).stdout.strip()
        print("repo restored, status:", repr(st))
        # the checks regenerated lean/Gecs/Gen/* from the PATCHED sources: bring the tracked copies back to the clean tree
        subprocess.run([sys.executable, "/verif/tools/extract.py"], capture_output=True, text=True)
    print(json.dumps(out))
    return 0

if __name__ == "__main__":
    sys.exit(main())
