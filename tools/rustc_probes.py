"""rustc probes: the compile-time envelope of C18, program by program against rustc.

Generates a crate of minimal client programs (src/bin/*.rs) that use the REAL macros and
API, every one under `#![forbid(unsafe_code)]`: for each (holder, structural operation) pair
of the signature table generated from src/traits.rs one unsound program (hold -> op -> use)
and its sound twin (hold -> use -> release -> op), plus the other cases C18 names (two
mutable accesses to one component in one query, `&mut` entity parameter, sharing a world
between threads, Send iff components Send, handles Copy+Send+Sync regardless).
The expected verdict comes from the model (Gecs/Model/Env.lean: `rejected`), rustc is the
implementation."""
import os, json, subprocess, shutil, re, time

PRELUDE = """#![forbid(unsafe_code)]
#![allow(unused)]
use gecs::prelude::*;
#[derive(Clone)] pub struct CompA(pub u32);
#[derive(Clone)] pub struct CompB(pub u32);
ecs_world! {
    ecs_archetype!(ArchFoo, CompA, CompB);
    ecs_archetype!(ArchBar, CompA);
}
fn main() {
    let mut world = EcsWorld::default();
    let e = world.create::<ArchFoo>((CompA(1), CompB(2)));
    let e2 = world.create::<ArchFoo>((CompA(3), CompB(4)));
    let eb = world.create::<ArchBar>((CompA(5),));
"""

# holder name -> (sig item it exercises, statements creating the hold, statement using it)
HOLDERS = {
    "world_view": ("World::view", "let mut h = world.view::<ArchFoo, _>(e).unwrap();", "h.component_mut::<CompA>().0 += 1;"),
    "arch_view": ("Archetype::view", "let mut h = world.arch_foo.view(e).unwrap();", "h.component_mut::<CompA>().0 += 1;"),
    "world_borrow": ("World::borrow", "let h = world.borrow::<ArchFoo, _>(e).unwrap();", "let _x = h.component::<CompA>().0;"),
    "arch_borrow": ("Archetype::borrow", "let h = world.arch_foo.borrow(e).unwrap();", "let _x = h.component::<CompA>().0;"),
    "borrow_component": ("Borrow::component", "let b = world.borrow::<ArchFoo, _>(e).unwrap(); let h = b.component::<CompA>();", "let _x = h.0;"),
    "borrow_component_mut": ("Borrow::component_mut", "let b = world.borrow::<ArchFoo, _>(e).unwrap(); let mut h = b.component_mut::<CompA>();", "h.0 += 1;"),
    "borrow_entity": ("Borrow::entity", "let b = world.borrow::<ArchFoo, _>(e).unwrap(); let h = b.entity();", "let _x = *h;"),
    "view_component": ("View::component", "let v = world.view::<ArchFoo, _>(e).unwrap(); let h = v.component::<CompA>();", "let _x = h.0;"),
    "view_component_mut": ("View::component_mut", "let mut v = world.view::<ArchFoo, _>(e).unwrap(); let h = v.component_mut::<CompA>();", "h.0 += 1;"),
    "world_archetype": ("World::archetype", "let h = world.archetype::<ArchFoo>();", "let _x = h.len();"),
    "world_archetype_mut": ("World::archetype_mut", "let h = world.archetype_mut::<ArchFoo>();", "let _x = h.len();"),
    "arch_entities": ("Archetype::entities", "let h = world.arch_foo.entities();", "let _x = h.len();"),
    "arch_iter": ("Archetype::iter", "let mut h = world.arch_foo.iter();", "let _x = h.next().is_some();"),
    "arch_iter_item": ("Archetype::iter", "let h = world.arch_foo.iter().next().unwrap();", "let _x = (h.1).0;"),
    "arch_iter_mut": ("Archetype::iter_mut", "let mut h = world.arch_foo.iter_mut();", "let _x = h.next().is_some();"),
    "arch_iter_mut_item": ("Archetype::iter_mut", "let h = world.arch_foo.iter_mut().next().unwrap();", "(h.1).0 += 1;"),
    "arch_all_slices": ("Archetype::get_all_slices_mut", "let h = world.arch_foo.get_all_slices_mut();", "let _x = h.comp_a.len();"),
    "arch_get_slice": ("Archetype::get_slice", "let h = world.arch_foo.get_slice::<CompA>();", "let _x = h.len();"),
    "arch_get_slice_mut": ("Archetype::get_slice_mut", "let h = world.arch_foo.get_slice_mut::<CompA>();", "h[0].0 += 1;"),
    "arch_borrow_slice": ("Archetype::borrow_slice", "let h = world.arch_foo.borrow_slice::<CompA>();", "let _x = h.len();"),
    "arch_borrow_slice_mut": ("Archetype::borrow_slice_mut", "let mut h = world.arch_foo.borrow_slice_mut::<CompA>();", "h[0].0 += 1;"),
    "world_iter_created": ("World::iter_created", "let mut h = world.iter_created();", "let _x = h.next().is_some();"),
    "world_iter_destroyed": ("World::iter_destroyed", "let mut h = world.iter_destroyed();", "let _x = h.next().is_some();"),
    "arch_iter_created": ("Archetype::iter_created", "let mut h = world.arch_foo.iter_created();", "let _x = h.next().is_some();"),
    "arch_iter_destroyed": ("Archetype::iter_destroyed", "let mut h = world.arch_foo.iter_destroyed();", "let _x = h.next().is_some();"),
    # handle REFERENCES that borrow from the world, converted reference-to-reference
    "entities_elem_as_any_ref": ("Archetype::entities", "let h: &EntityAny = (&world.arch_foo.entities()[0]).into();", "let _x = h.archetype_id();"),
    "iter_item_entity_as_any_ref": ("Archetype::iter", "let h: &EntityAny = world.arch_foo.iter().next().unwrap().0.into();", "let _x = h.archetype_id();"),
    "borrow_entity_as_any_ref": ("Borrow::entity", "let b = world.borrow::<ArchFoo, _>(e).unwrap(); let h: &EntityAny = b.entity().into();", "let _x = h.archetype_id();"),
}

# holders obtained through an outer holder: the chain of API items from the world to the hold
CHAINS = {
    "borrow_component": ["World::borrow"], "borrow_component_mut": ["World::borrow"], "borrow_entity": ["World::borrow"],
    "view_component": ["World::view"], "view_component_mut": ["World::view"],
    "borrow_entity_as_any_ref": ["World::borrow"],
}

# structural operation name -> (sig item or None for macro / std, statement)
OPS = {
    "world_create": ("World::create", "world.create::<ArchFoo>((CompA(7), CompB(8)));"),
    "world_create_within": ("World::create_within_capacity", "let _r = world.create_within_capacity::<ArchFoo>((CompA(7), CompB(8)));"),
    "world_destroy": ("World::destroy", "world.destroy(e2);"),
    "world_clear_events": ("World::clear_events", "world.clear_events();"),
    "arch_create": ("Archetype::create", "world.arch_foo.create((CompA(7), CompB(8)));"),
    "arch_create_within": ("Archetype::create_within_capacity", "let _r = world.arch_foo.create_within_capacity((CompA(7), CompB(8)));"),
    "arch_destroy": ("Archetype::destroy", "world.arch_foo.destroy(e2);"),
    "arch_clear_events": ("Archetype::clear_events", "world.arch_foo.clear_events();"),
    "iter_destroy": (None, "ecs_iter_destroy!(world, |_c: &CompA| EcsStepDestroy::ContinueDestroy);"),
    "drop": (None, "drop(world);"),
}

BORROW_CODES = {"E0499", "E0502", "E0505", "E0506", "E0503", "E0713", "E0716", "E0597", "E0521", "E0373", "E0382", "E0594", "E0596"}


def program(body):
    return PRELUDE + body + "\n}\n"


def ref_impl_probes(ref_impls):
    """One stretch program (+ twin) per reference conversion impl found in src/** by the translator."""
    probes = []
    for n, r in enumerate(ref_impls):
        if r.get("trait") != "From" or not r.get("src_ref"):
            probes.append({"name": f"uncovered_refimpl_{n}", "src": None, "expect": "missing-template", "why": f"reference impl `{r.get('text')}` has no probe template"})
            continue
        src, dst = r["src"], r["dst"]
        for tp in r.get("type_params", []):
            src = re.sub(r"\b%s\b" % re.escape(tp), "ArchFoo", src)
            dst = re.sub(r"\b%s\b" % re.escape(tp), "ArchFoo", dst)
        m = "mut " if r.get("mut") else ""
        tn = re.sub(r"\W", "", r["src"]) + ("_mut" if r.get("mut") else "")
        bad = program(f"    fn stretch<'s>(x: &'s {m}{src}) -> &'static {m}{dst} {{ x.into() }}")
        twin = program(f"    fn same<'s>(x: &'s {m}{src}) -> &'s {m}{dst} {{ x.into() }}")
        probes.append({"name": f"bad_stretch_ref_{tn}", "src": bad, "expect": "fail", "codes": None, "msg": "lifetime may not live long enough",
                       "why": f"`{r['text']}`: the converted reference must not outlive the reference it was made from"})
        probes.append({"name": f"twin_stretch_ref_{tn}", "src": twin, "expect": "ok", "why": "same lifetime on both sides"})
    return probes


def gen_corpus(sigs, ref_impls=None):
    """sigs: list of {item, recv, borrows} from Gen/sigs.json.  Returns list of probes:
    {name, src, expect: 'fail'|'ok', codes: set|None, msg: str|None, why}"""
    by_item = {s["item"]: s for s in sigs}
    probes = ref_impl_probes(ref_impls or [])
    covered = set()
    for hn, (item, hold, use) in HOLDERS.items():
        sig = by_item.get(item)
        if sig is None:
            probes.append({"name": f"missing_{hn}", "src": None, "expect": "missing-sig", "why": f"holder template for {item}, which is no longer in the signature table"})
            continue
        covered.add(item)
        # the hold may go through an outer holder (a View / Borrow obtained from the world): the
        # world is borrowed as strongly as the strongest link of the chain
        chain = [by_item[c] for c in CHAINS.get(hn, []) if c in by_item] + [sig]
        sig = {"item": item, "borrows": all(c["borrows"] for c in chain),
               "recv": "exclusive" if any(c["recv"] == "exclusive" for c in chain[:-1]) else (chain[0]["recv"] if len(chain) > 1 else sig["recv"])}
        for on, (oitem, op) in OPS.items():
            # the single modelled rule (Env.rejected): a live borrowing result vs an exclusive / owning op
            rejected = sig["borrows"] and sig["recv"] in ("shared", "exclusive")
            bad = program(f"    {hold}\n    {op}\n    {use}")
            twin = program(f"    {{\n        {hold}\n        {use}\n    }}\n    {op}")
            probes.append({"name": f"bad_{hn}__{on}", "src": bad, "expect": "fail" if rejected else "ok", "codes": BORROW_CODES, "why": f"hold {item} across {oitem or on}"})
            probes.append({"name": f"twin_{hn}__{on}", "src": twin, "expect": "ok", "why": f"release {item} before {oitem or on}"})
        # clone is a shared use: only exclusive holds conflict
        bad = program(f"    {hold}\n    let _w2 = world.clone();\n    {use}")
        probes.append({"name": f"bad_{hn}__clone", "src": bad, "expect": "fail" if (sig["borrows"] and sig["recv"] == "exclusive") else "ok", "codes": BORROW_CODES, "why": f"hold {item} across clone"})
    uncovered = [s["item"] for s in sigs if s["borrows"] and s["item"] not in covered]
    for it in uncovered:
        probes.append({"name": "uncovered_" + it.replace("::", "_"), "src": None, "expect": "missing-template", "why": f"API item {it} returns a borrow of its receiver but the corpus has no holder template for it"})
    # closure arguments cannot be kept at all
    for mac, call in (("iter", "ecs_iter!(world, |c: &CompA| { keep = Some(c); });"),
                      ("iter_borrow", "ecs_iter_borrow!(world, |c: &CompA| { keep = Some(c); });"),
                      ("find", "ecs_find!(world, e, |c: &CompA| { keep = Some(c); });"),
                      ("find_borrow", "ecs_find_borrow!(world, e, |c: &CompA| { keep = Some(c); });"),
                      ("iter_destroy", "ecs_iter_destroy!(world, |c: &CompA| { keep = Some(c); EcsStepDestroy::Continue });")):
        bad = program(f"    let mut keep: Option<&CompA> = None;\n    {call}\n    world.destroy(e2);\n    let _x = keep.unwrap().0;")
        twin = program(f"    let mut sum = 0u32;\n    {call.replace('keep = Some(c);', 'sum += c.0;')}\n    world.destroy(e2);")
        probes.append({"name": f"bad_closure_arg_{mac}", "src": bad, "expect": "fail", "codes": BORROW_CODES, "why": f"keep a closure argument of ecs_{mac}! across destroy"})
        probes.append({"name": f"twin_closure_arg_{mac}", "src": twin, "expect": "ok", "why": "use the argument inside the closure only"})
    bad = program("    let mut keep: Option<&EntityAny> = None;\n    ecs_iter!(world, |en: &Entity<ArchFoo>| { keep = Some(en.into()); });\n    world.destroy(e2);\n    let _x = keep.unwrap().archetype_id();")
    probes.append({"name": "bad_closure_arg_entity_ref_as_any", "src": bad, "expect": "fail", "codes": BORROW_CODES | {None}, "why": "keep a converted entity-handle reference of a closure across destroy"})
    # two mutable accesses to one component in one query
    for mac, bad_call, ok_call in (
            ("iter", "ecs_iter!(world, |a: &mut CompA, b: &mut CompA| { a.0 += b.0; });", "ecs_iter!(world, |a: &mut CompA, b: &CompB| { a.0 += b.0; });"),
            ("find", "ecs_find!(world, e, |a: &mut CompA, b: &mut CompA| { a.0 += b.0; });", "ecs_find!(world, e, |a: &mut CompA, b: &CompB| { a.0 += b.0; });"),
            ("iter_destroy", "ecs_iter_destroy!(world, |a: &mut CompA, b: &mut CompA| { a.0 += b.0; EcsStepDestroy::Continue });", "ecs_iter_destroy!(world, |a: &mut CompA, b: &CompB| { a.0 += b.0; EcsStepDestroy::Continue });")):
        probes.append({"name": f"bad_two_mut_{mac}", "src": program("    " + bad_call), "expect": "fail", "codes": BORROW_CODES, "why": f"two &mut to one component in ecs_{mac}!"})
        probes.append({"name": f"twin_two_mut_{mac}", "src": program("    " + ok_call), "expect": "ok", "why": "distinct components"})
    # mutable access to an entity-handle parameter
    for ty in ("Entity<ArchFoo>", "Entity<_>", "EntityAny", "EntityDirect<ArchFoo>", "EntityDirect<_>", "EntityDirectAny"):
        tn = re.sub(r"\W", "", ty)
        probes.append({"name": f"bad_mut_entity_{tn}", "src": program(f"    ecs_iter!(world, |x: &mut {ty}| {{ }});"), "expect": "fail", "codes": None, "msg": "mut entity access is forbidden", "why": f"&mut {ty} parameter"})
        probes.append({"name": f"twin_mut_entity_{tn}", "src": program(f"    ecs_iter!(world, |x: &{ty}| {{ }});"), "expect": "ok", "why": f"&{ty} parameter"})
    # threads / auto traits
    rc_prelude = PRELUDE.replace("#[derive(Clone)] pub struct CompA(pub u32);", "#[derive(Clone)] pub struct CompA(pub std::rc::Rc<u32>);") \
        .replace("CompA(1)", "CompA(std::rc::Rc::new(1))").replace("CompA(3)", "CompA(std::rc::Rc::new(3))").replace("CompA(5)", "CompA(std::rc::Rc::new(5))")
    share = "    std::thread::scope(|s| { s.spawn(|| { let _x = world.arch_foo.len(); }); });"
    move_ = "    std::thread::scope(|s| { s.spawn(move || { let w = world; let _x = w.arch_foo.len(); }); });"
    need = "    fn need<T: Copy + Send + Sync>() {}\n    need::<Entity<ArchFoo>>(); need::<EntityDirect<ArchFoo>>(); need::<EntityAny>(); need::<EntityDirectAny>();"
    # components whose Send and Sync DIFFER: Cell<u32> is Send + !Sync, MutexGuard<'static, u32> is Sync + !Send
    def prelude_with(ty, mk):
        return PRELUDE.replace("#[derive(Clone)] pub struct CompA(pub u32);", f"pub struct CompA(pub {ty});") \
            .replace("CompA(1)", f"CompA({mk})").replace("CompA(3)", f"CompA({mk})").replace("CompA(5)", f"CompA({mk})")
    need_send = "    fn need_send<T: Send>() {}\n    need_send::<EcsWorld>(); need_send::<ArchFoo>();"
    cell_prelude = prelude_with("std::cell::Cell<u32>", "std::cell::Cell::new(1)")
    guard_prelude = "static M: std::sync::Mutex<u32> = std::sync::Mutex::new(0);\n" + prelude_with("std::sync::MutexGuard<'static, u32>", "M.lock().unwrap()")
    guard_prelude = guard_prelude.replace("let e2 = world.create::<ArchFoo>((CompA(M.lock().unwrap()), CompB(4)));", "let e2 = e;").replace("let eb = world.create::<ArchBar>((CompA(M.lock().unwrap()),));", "")
    # the raw-pointer iterators behind Archetype::iter / iter_mut must not be sendable when the
    # components are not: an iterator yielding &mut T moved to another thread moves T's there
    it_send = "    fn need_send<T: Send>(_t: T) {}\n    need_send(world.arch_foo.iter_mut());"
    it_send_shared = "    fn need_send<T: Send>(_t: T) {}\n    need_send(world.arch_foo.iter());"
    it_scope = "    let it = world.arch_foo.iter_mut();\n    std::thread::scope(|s| { s.spawn(move || { for (_e, a, _b) in it { let _x = a; } }); });"
    probes.append({"name": "bad_iter_mut_of_sync_not_send_component_is_send", "src": guard_prelude + it_send + "\n}\n", "expect": "fail", "codes": {"E0277"}, "why": "Archetype::iter_mut() over a Sync-but-not-Send component (a MutexGuard) must not be Send: it hands out &mut to the values"})
    probes.append({"name": "bad_iter_mut_of_sync_not_send_component_moved_to_thread", "src": guard_prelude + it_scope + "\n}\n", "expect": "fail", "codes": {"E0277"}, "why": "Archetype::iter_mut() over a MutexGuard component must not be moved to another thread"})
    probes.append({"name": "bad_iter_of_send_not_sync_component_is_send", "src": cell_prelude + it_send_shared + "\n}\n", "expect": "fail", "codes": {"E0277"}, "why": "Archetype::iter() over a Send-but-not-Sync component (a Cell) must not be Send: it hands out & to the values"})
    probes.append({"name": "bad_iter_mut_with_rc_component_is_send", "src": rc_prelude + it_send + "\n}\n", "expect": "fail", "codes": {"E0277"}, "why": "Archetype::iter_mut() over an Rc component must not be Send"})
    probes.append({"name": "twin_world_with_send_not_sync_component_is_send", "src": cell_prelude + need_send + "\n}\n", "expect": "ok", "why": "a world whose components are Send (but not Sync) is Send"})
    probes.append({"name": "twin_world_with_send_not_sync_component_moved_to_thread", "src": cell_prelude + move_ + "\n}\n", "expect": "ok", "why": "a world whose components are Send (but not Sync) can be moved to a thread"})
    probes.append({"name": "bad_world_with_sync_not_send_component_is_send", "src": guard_prelude + need_send + "\n}\n", "expect": "fail", "codes": {"E0277"}, "why": "a world with a Sync-but-not-Send component (a MutexGuard) is not Send"})
    probes.append({"name": "bad_world_with_sync_not_send_component_moved_to_thread", "src": guard_prelude + move_ + "\n}\n", "expect": "fail", "codes": {"E0277"}, "why": "a world holding a MutexGuard must not be moved to another thread"})
    probes.append({"name": "bad_world_with_send_not_sync_component_shared", "src": cell_prelude + share + "\n}\n", "expect": "fail", "codes": {"E0277"}, "why": "a world is never Sync (Send-only components)"})
    probes.append({"name": "bad_world_shared_between_threads", "src": program(share), "expect": "fail", "codes": {"E0277"}, "why": "a world is never Sync"})
    probes.append({"name": "twin_world_moved_to_thread", "src": program(move_), "expect": "ok", "why": "a world of Send components is Send"})
    probes.append({"name": "bad_world_with_rc_moved_to_thread", "src": rc_prelude + move_ + "\n}\n", "expect": "fail", "codes": {"E0277"}, "why": "a world with a !Send component is not Send"})
    probes.append({"name": "ok_handles_copy_send_sync_with_rc_components", "src": rc_prelude + need + "\n}\n", "expect": "ok", "why": "handles are Copy+Send+Sync regardless of components"})
    probes.append({"name": "ok_handles_copy_send_sync", "src": program(need), "expect": "ok", "why": "handles are Copy+Send+Sync"})
    return probes


def run_corpus(probes, crate_dir, target_dir, env):
    if os.path.exists(crate_dir):
        shutil.rmtree(crate_dir)
    os.makedirs(os.path.join(crate_dir, "src", "bin"))
    os.makedirs(os.path.join(crate_dir, ".cargo"))
    open(os.path.join(crate_dir, ".cargo", "config.toml"), "w").write("[net]\noffline = true\n")
    open(os.path.join(crate_dir, "Cargo.toml"), "w").write(
        '[package]\nname = "probes"\nversion = "0.0.0"\nedition = "2021"\n\n[workspace]\n\n[dependencies]\n'
        'gecs = { path = "/repo", features = ["events"] }\n')
    shutil.copy("/repo/Cargo.lock", os.path.join(crate_dir, "Cargo.lock"))
    for p in probes:
        if p["src"] is not None:
            open(os.path.join(crate_dir, "src", "bin", p["name"] + ".rs"), "w").write(p["src"])
    t0 = time.time()
    e = dict(env, CARGO_TARGET_DIR=target_dir, RUSTFLAGS="-Awarnings")
    r = subprocess.run(["cargo", "check", "--offline", "--bins", "--keep-going", "--message-format=json"], cwd=crate_dir,
                       env=e, stdout=subprocess.PIPE, stderr=subprocess.PIPE, text=True)
    errors = {}
    finished = set()
    for line in r.stdout.splitlines():
        try:
            m = json.loads(line)
        except ValueError:
            continue
        if m.get("reason") == "compiler-message" and m["message"].get("level") == "error":
            name = m["target"]["name"]
            code = (m["message"].get("code") or {}).get("code")
            errors.setdefault(name, []).append({"code": code, "msg": m["message"].get("message", "")[:200]})
        if m.get("reason") == "compiler-artifact":
            finished.add(m["target"]["name"])
    results = []
    for p in probes:
        if p["src"] is None:
            results.append({**{k: v for k, v in p.items() if k not in ("src", "codes")}, "verdict": p["expect"], "agree": False})
            continue
        errs = [x for x in errors.get(p["name"], []) if not x["msg"].startswith("aborting due to") and not x["msg"].startswith("could not compile")]
        compiled = p["name"] in finished and not errs
        if p["expect"] == "ok":
            agree = compiled
        else:
            if compiled or not errs:
                agree = False
            elif p.get("codes"):
                agree = any(x["code"] in p["codes"] for x in errs)
            else:
                agree = any(p.get("msg", "") in x["msg"] for x in errs)
        results.append({"name": p["name"], "expect": p["expect"], "why": p["why"], "compiled": compiled,
                        "errors": errs[:3], "agree": agree})
    return results, r.returncode, r.stderr[-2000:], round(time.time() - t0, 1)
