#!/bin/bash
# verify_seed.sh <id>: confirm in the scratch worktree /tmp/seed-<id> that the seeded change
# (1) compiles and keeps the existing suite green, (2) makes the demonstration fail, and
# (3) the demonstration passes without it.
flags="$2"; id=$1; pre=${SEED_PREFIX:-seed}; wt=/tmp/$pre-$id; out=/tmp/$pre-$id-out
export CARGO_NET_OFFLINE=true RUST_BACKTRACE=0
cd $wt || exit 2
cp $out/seed_demo.rs tests/seed_demo.rs 2>/dev/null
git checkout -q -- src macros; git apply $out/patch.diff || { echo "patch does not apply"; exit 2; }
extra=""; grep -q gecs_verif tests/seed_demo.rs && extra='--cfg gecs_verif'
RUSTFLAGS="$extra" cargo test $flags --workspace --no-fail-fast --offline 2>&1 | grep -E "^test result|Running|FAILED|failed" > /tmp/$pre-$id-with.log
with_existing_fail=$(grep -B1 "FAILED\|[1-9][0-9]* failed" /tmp/$pre-$id-with.log | grep Running | grep -v seed_demo | wc -l)
with_demo_fail=$(awk '/seed_demo/{f=1;next} f&&/^test result/{print; f=0}' /tmp/$pre-$id-with.log | grep -c "FAILED")
git apply -R $out/patch.diff
RUSTFLAGS="$extra" cargo test $flags --test seed_demo --offline 2>&1 | grep -E "^test result" > /tmp/$pre-$id-without.log
without_demo_ok=$(grep -c "test result: ok" /tmp/$pre-$id-without.log)
git apply $out/patch.diff
echo "seed $id: existing targets failing with change: $with_existing_fail ; demo fails with change: $with_demo_fail ; demo passes without: $without_demo_ok"
