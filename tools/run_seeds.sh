#!/bin/bash
# run_seeds.sh [<id> ...]: for each seeded change under /verif/seeded/<id>/ (ids C01..C19, W2-Cxx,
# W3-Cxx, W4-Cxx) apply patch.diff to /repo, run the quick checks listed below, restore /repo
# (tools/try_seed.py always restores), and store the verdict lines in seeded/<id>/result.json and
# the replays in seeded/<id>/replay-<prop>.json.  Never leaves /repo modified.
cd /verif
declare -A CHECKS=(
 [C01]="C01 C08" [C02]="C02 C01" [C03]="C03" [C04]="C04" [C05]="C05" [C06]="C06 C07" [C07]="C07 C06"
 [C08]="C08 C01" [C09]="C09" [C10]="C10" [C11]="C11" [C12]="C12" [C13]="C13" [C14]="C14" [C15]="C15"
 [C16]="C16 C05" [C17]="C17" [C18]="C18" [C19]="C19"
)
ids="$@"; [ -z "$ids" ] && ids=$(ls seeded | grep -E "^(W[0-9]-)?C[0-9][0-9]$")
for id in $ids; do
  [ -f seeded/$id/patch.diff ] || continue
  c=${id##*-}
  python3 tools/try_seed.py seeded/$id/patch.diff ${CHECKS[$c]} > /tmp/seedrun-$id.log 2>&1
  tail -1 /tmp/seedrun-$id.log > seeded/$id/result.json
  for p in ${CHECKS[$c]}; do
    f=$(grep -o "replay=/verif/evidence/replays/$p-[A-Za-z0-9_.-]*json" /tmp/seedrun-$id.log | head -1 | cut -d= -f2)
    [ -n "$f" ] && [ -f "$f" ] && cp "$f" seeded/$id/replay-$p.json
  done
  echo "$id: $(grep -E '^C[0-9]+ ' /tmp/seedrun-$id.log | cut -c1-160 | tr '\n' ';')"
done
git -C /repo status --short
echo ALLDONE
