#!/usr/bin/env python3
"""Statement-order translator: /repo/src/archetype/{storage.rs,slot.rs} -> lean/Gecs/Gen/Steps.lean.

For `StorageN::force_destroy`, `StorageN::force_create`, `StorageN::grow`, `Slot::assign` and
`Slot::release` the body is split into statements (nested `unsafe { }` blocks are flattened, a
`#[cfg(feature = "events")] { … }` block and a `#( … )*` repetition count as one statement), every
statement is classified against a table of exact token patterns, and the constructors are emitted IN
SOURCE ORDER as a Lean list.  Model/Steps.lean gives each constructor its meaning; Lemmas/GenSteps.lean
proves that running the list is the hand-written primitive of Model/Storage.lean.

Robustness: comments, whitespace, `debug_assert!`s and the NAMES of locals / parameters do not matter
(a `let` whose initialiser is recognised renames its binder to the canonical name for the rest of the
body).  A statement that matches no pattern becomes `.unknown`, which the interpreter turns into `ub`,
so the tie theorem stops checking: nothing is silently dropped.
"""
import re

from extract import tokenize, read, block_end, OPEN, ExtractError  # noqa: E402  (imported by extract.py at call time)

IDENT = r"[A-Za-z_][A-Za-z0-9_]*"


def toks_of(src_toks, lo, hi):
    return [t for (_, t) in src_toks[lo:hi]]


def find_fn(toks, name, lo=0, hi=None):
    """(params tokens, body lo, body hi) of the first `fn name` at or after lo."""
    hi = len(toks) if hi is None else hi
    i = lo
    while i < hi:
        if toks[i][1] == "fn" and toks[i + 1][1] == name:
            j = i + 2
            if toks[j][1] == "<":   # generics (may contain `#( … )*` groups)
                depth = 0
                while True:
                    t = toks[j][1]
                    depth += {"<": 1, ">": -1, ">>": -2}.get(t, 0)
                    j += 1
                    if depth <= 0:
                        break
            if toks[j][1] != "(":
                raise ExtractError(f"fn {name}: parameter list not found")
            pe = block_end(toks, j)
            params = toks_of(toks, j + 1, pe - 1)
            k = pe
            while toks[k][1] != "{":
                k += 1
            return params, k + 1, block_end(toks, k) - 1
        i += 1
    raise ExtractError(f"fn {name} not found")


def param_names(params):
    """names of the non-self parameters, in order."""
    out, depth, cur = [], 0, []
    parts = []
    for t in params:
        if t in OPEN or t == "<":
            depth += 1
        elif t in OPEN.values() or t == ">":
            depth -= 1
        if t == "," and depth == 0:
            parts.append(cur)
            cur = []
        else:
            cur.append(t)
    if cur:
        parts.append(cur)
    for p in parts:
        if "self" in p[:3]:
            continue
        if ":" in p:
            out.append(p[0] if p[0] != "mut" else p[1])
    return out


def _end_of(ts, i):
    """index just after the bracket group opening at ts[i]."""
    depth = 0
    j = i
    while True:
        if ts[j] in OPEN:
            depth += 1
        elif ts[j] in OPEN.values():
            depth -= 1
            if depth == 0:
                return j + 1
        j += 1


def split_stmts(ts):
    """Flat list of statements (token lists) of a body, in source order.  `unsafe { … }` blocks are
    flattened; `let x = unsafe { …; x };` is flattened with its tail dropped when the tail is `x`
    (otherwise the whole `let` stays one statement and will not be recognised)."""
    out = []
    i, n = 0, len(ts)
    while i < n:
        t = ts[i]
        if t == ";":
            i += 1
            continue
        if t == "#" and i + 1 < n and ts[i + 1] == "(":
            e = _end_of(ts, i + 1)
            if e < n and ts[e] == "*":
                e += 1
            out.append(ts[i:e])
            i = e
            continue
        if t == "unsafe" and i + 1 < n and ts[i + 1] == "{":
            e = _end_of(ts, i + 1)
            out += split_stmts(ts[i + 2:e - 1])
            i = e
            continue
        # let x [: T] = unsafe { … } ;
        if t == "let":
            j = i + 1
            while j < n and ts[j] not in ("=", ";"):
                j += 1
            if j + 2 < n and ts[j] == "=" and ts[j + 1] == "unsafe" and ts[j + 2] == "{" and re.fullmatch(IDENT, ts[i + 1]):
                e = _end_of(ts, j + 2)
                inner = split_stmts(ts[j + 3:e - 1])
                if inner and inner[-1] == [ts[i + 1]] and e < n and ts[e] == ";":
                    out += inner[:-1]
                    i = e + 1
                    continue
        # generic statement: attributes, then either a block-like item or up to `;`
        j = i
        while j < n and ts[j] == "#" and j + 1 < n and ts[j + 1] == "[":
            j = _end_of(ts, j + 1)
        if j < n and ts[j] == "{":
            e = _end_of(ts, j)
            out.append(ts[i:e])
            i = e
            continue
        if j < n and ts[j] in ("if", "for", "while", "loop", "match"):
            k = j
            while True:
                while ts[k] != "{":
                    k = _end_of(ts, k) if ts[k] in OPEN else k + 1
                k = _end_of(ts, k)
                if k < n and ts[k] == "else":
                    k += 1
                    continue
                break
            out.append(ts[i:k])
            i = k
            continue
        k = j
        while k < n and ts[k] != ";":
            k = _end_of(ts, k) if ts[k] in OPEN else k + 1
        out.append(ts[i:k + 1] if k < n else ts[i:k])
        i = k + 1
    return out


DBG = (r"^debug_assert(_eq|_ne)? ! \(.*\) ;$", "debugAssert", None)

EVENTS = r'# \[ cfg \( feature = "events" \) \] '

DESTROY = [
    (r"^let \( (?P<slot_index>\w+) , (?P<dense_index>\w+) \) = indices ;$", "bindIndices", None),
    (r"^let (?P<slot_index_usize>\w+) : usize = slot_index \. into \( \) ;$", "bindIndices", None),
    (r"^let (?P<dense_index_usize>\w+) : usize = dense_index \. into \( \) ;$", "bindIndices", None),
    DBG,
    (r"^let (?P<entities>\w+) = self \. entities \. slice \( self \. len \) ;$", "bindEntities", None),
    (r"^let (?P<next_slot_version>\w+) = self \. slots \. slice \( self \. capacity (\( \) )?\) \. get_unchecked \( slot_index_usize \) \. version \( \) \. next \( \) ;$",
     "nextSlotVersion", None),
    (r"^let (?P<next_version>\w+) = self \. version (\( \) )?\. next \( \) ;$", "nextArchVersion", None),
    (r"^" + EVENTS + r"\{ self \. destroyed \. push \( \* entities \. get_unchecked \( dense_index_usize \) \) ; \}$", "pushDestroyed", None),
    (r"^let (?P<last_dense_index>\w+) = self \. len - 1 ;$", "lastDenseIndex", None),
    (r"^let (?P<last_entity>\w+) = \* entities \. get_unchecked \( last_dense_index \) ;$", "lastEntity", None),
    (r"^let (?P<last_slot_index>\w+) : usize = last_entity \. slot_index \( \) \. into \( \) ;$", "lastSlotIndex", None),
    (r"^self \. entities \. swap_remove \( dense_index_usize , self \. len \) ;$", "swapRemoveEntities", None),
    (r"^let (?P<result>\w+) = < A :: Components as \$ components < # \( T ~ I , \) \* (> >|>>) :: raw_new \( # \( self \. d ~ I \. get_mut \( \) \. swap_remove \( dense_index_usize , self \. len \) , \) \* \) ;$",
     "swapRemoveColumns", None),
    (r"^let (?P<slots>\w+) = self \. slots \. slice_mut \( self \. capacity (\( \) )?\) ;$", "bindSlots", None),
    (r"^slots \. get_unchecked_mut \( last_slot_index \) \. assign \( dense_index \) ;$", "assignLast", None),
    (r"^slots \. get_unchecked_mut \( slot_index_usize \) \. release \( self \. free_head , next_slot_version \) ;$", "releaseTarget", None),
    (r"^self \. version = next_version ;$", "setVersion", None),
    (r"^self \. free_head = SlotIndex :: new_free \( slot_index \) ;$", "setFreeHead", None),
    (r"^self \. len -= 1 ;$", "decLen", None),
    (r"^result$", "returnResult", None),
]

CREATE = [
    DBG,
    (r"^let (?P<slot_index>\w+) = self \. free_head \. index_free \( \) \. unwrap_unchecked \( \) ;$", "slotIndex", None),
    (r"^let (?P<dense_index>\w+) = TrimmedIndex :: new_usize \( self \. len \) \. unwrap_unchecked \( \) ;$", "denseIndex", None),
    (r"^let (?P<slots>\w+) = self \. slots \. slice_mut \( self \. capacity (\( \) )?\) ;$", "bindSlots", None),
    (r"^let (?P<slot>\w+) = slots \. get_unchecked_mut \( Into :: < usize > :: into \( slot_index \) \) ;$", "bindSlot", None),
    (r"^self \. free_head = slot \. index \( \) ;$", "setFreeHeadFromSlot", None),
    (r"^slot \. assign \( dense_index \) ;$", "assignSlot", None),
    (r"^let (?P<entity>\w+) = Entity :: new \( slot_index , slot \. version \( \) \) ;$", "newEntity", None),
    (r"^let (?P<index>\w+) = self \. len ;$", "bindIndex", None),
    (r"^self \. len \+= 1 ;$", "incLen", None),
    (r"^debug_checked_assume ! \( index < self \. len \) ;$", "assumeIndexLtLen", None),
    (r"^let (?P<data_raw>\w+) = data \. raw_get \( \) ;$", "rawGet", None),
    (r"^self \. entities \. write \( index , entity \) ;$", "writeEntity", None),
    (r"^# \( self \. d ~ I \. get_mut \( \) \. write \( index , data_raw \. I \) ; \) \*$", "writeColumns", None),
    (r"^" + EVENTS + r"\{ self \. created \. push \( entity \) ; \}$", "pushCreated", None),
    (r"^entity$", "returnEntity", None),
]

GROW = [
    (r"^if self \. capacity (\( \) )?>= MAX_DATA_CAPACITY as usize \{ return false ; \}$", "checkRoom", None),
    DBG,
    (r"^self \. slots \. grow \( self \. capacity , new_capacity \) ;$", "growSlots", None),
    (r"^self \. entities \. grow \( self \. capacity , new_capacity \) ;$", "growEntities", None),
    (r"^# \( self \. d ~ I \. get_mut \( \) \. grow \( self \. capacity , new_capacity \) ; \) \*$", "growColumns", None),
    (r"^let (?P<free_start>\w+) = TrimmedIndex :: new_usize \( self \. len \) \. unwrap_unchecked \( \) ;$", "freeStart", None),
    (r"^let (?P<slots>\w+) = self \. slots \. raw_data \( new_capacity \) ;$", "bindSlots", None),
    (r"^self \. free_head = Slot :: populate_free_list \( free_start , slots \) ;$", "populate", None),
    (r"^self \. capacity = new_capacity ;$", "setCapacity", None),
    (r"^true$", "returnTrue", None),
    # the VALUE of the new capacity is not translated (a growth witness checked against `GrowOk` on every grown
    # sequence): any pure `let new_capacity = <expr>;` (no assignment inside) binds it
    (r"^let (?P<new_capacity>\w+) = [^;=]* ;$", "newCapacity", None),
]

DBGCFG = r"# \[ cfg \( debug_assertions \) \] "

RESOLVE_ENTITY = [
    (r"^debug_assert ! \( self \. len <= self \. capacity (\( \) )?\) ;$", "dbgLenLeCap", None),
    (r"^if self \. len (\( \) )?== 0 \{ return None ; \}$", "ifEmptyReturnNone", None),
    (r"^let (?P<slot_index>\w+) = entity \. slot_index \( \) ;$", "bindSlotIndex", None),
    (r"^let (?P<slot_index_usize>\w+) : usize = slot_index \. into \( \) ;$", "bindSlotIndexUsize", None),
    (r'^debug_assert ! \( slot_index_usize < self \. capacity (\( \) )?(, "[^"]*" )?\) ;$', "dbgSlotInRange", None),
    (r"^if slot_index_usize >= self \. capacity (\( \) )?\{ return None ; \}$", "ifSlotOutOfRangeReturnNone", None),
    (r"^let (?P<slots>\w+) = self \. slots \. slice \( self \. capacity (\( \) )?\) ;$", "bindSlots", None),
    (r"^let (?P<slot>\w+) = slots \. get_unchecked \( slot_index_usize \) ;$", "bindSlot", None),
    (r"^if \( slot \. version \( \) != entity \. version \( \) \) \|\| slot \. is_free \( \) \{ return None ; \}$", "ifStaleOrFreeReturnNone", None),
    (r"^let (?P<dense_index>\w+) = slot \. index \( \) \. index_data \( \) \. unwrap_unchecked \( \) ;$", "bindDense", None),
    (r"^" + DBGCFG + r"\{ let (?P<dense_index_usize>\w+) : usize = dense_index \. into \( \) ; "
     r"debug_assert ! \( dense_index_usize < self \. len (\( \) )?\) ; "
     r"let (?P<entities>\w+) = self \. entities \. slice \( self \. len (\( \) )?\) ; "
     r"let (?P<lookup>\w+) = (?P=entities) \. get_unchecked \( (?P=dense_index_usize) \) ; "
     r"debug_assert ! \( (?P=lookup) \. slot_index \( \) == entity \. slot_index \( \) \) ; "
     r"debug_assert ! \( (?P=lookup) \. version \( \) == entity \. version \( \) \) ; \}$", "debugCrossCheck", None),
    (r"^Some \( \( slot_index , dense_index \) \)$", "returnSome", None),
]

RESOLVE_DIRECT = [
    (r"^debug_assert ! \( self \. len <= self \. capacity (\( \) )?\) ;$", "dbgLenLeCap", None),
    (r"^if self \. len (\( \) )?== 0 \{ return None ; \}$", "ifEmptyReturnNone", None),
    (r"^if entity \. version \( \) != self \. version (\( \) )?\{ return None ; \}$", "ifVersionMismatchReturnNone", None),
    (r"^let (?P<dense_index>\w+) = entity \. dense_index \( \) ;$", "bindDenseIndex", None),
    (r"^let (?P<dense_index_usize>\w+) : usize = dense_index \. into \( \) ;$", "bindDenseIndexUsize", None),
    (r'^debug_assert ! \( dense_index_usize < self \. len (\( \) )?(, "[^"]*" )?\) ;$', "dbgDenseInRange", None),
    (r"^if dense_index_usize >= self \. len (\( \) )?\{ return None ; \}$", "ifDenseOutOfRangeReturnNone", None),
    (r"^let (?P<entities>\w+) = self \. entities \. slice \( self \. len (\( \) )?\) ;$", "bindEntities", None),
    (r"^let (?P<lookup>\w+) = entities \. get_unchecked \( dense_index_usize \) ;$", "bindLookup", None),
    (r"^let (?P<slot_index>\w+) = lookup \. slot_index \( \) ;$", "bindSlotIndex", None),
    (r"^" + DBGCFG + r"\{ let (?P<slot_index_usize>\w+) : usize = slot_index \. into \( \) ; "
     r"debug_assert ! \( (?P=slot_index_usize) < self \. capacity (\( \) )?\) ; "
     r"let (?P<slots>\w+) = self \. slots \. slice \( self \. capacity (\( \) )?\) ; "
     r"let (?P<slot>\w+) = (?P=slots) \. get_unchecked \( (?P=slot_index_usize) \) ; "
     r"debug_assert ! \( lookup \. version \( \) == (?P=slot) \. version \( \) \) ; "
     r"debug_assert ! \( (?P=slot) \. is_free \( \) == false \) ; \}$", "debugCrossCheck", None),
    (r"^Some \( \( slot_index , dense_index \) \)$", "returnSome", None),
]

CLONE = [
    (r"^# \( let ref_d ~ I = self \. d ~ I \. borrow \( \) ; \) \*$", "borrowColumns", None),
    (r"^let mut (?P<new_slots>\w+) = DataPtr :: with_capacity \( self \. capacity (\( \) )?\) ;$", "allocSlots", "first"),
    (r"^let mut (?P<new_entities>\w+) = DataPtr :: with_capacity \( self \. capacity (\( \) )?\) ;$", "allocEntities", "second"),
    (r"^# \( let mut new_d ~ I = DataPtr :: with_capacity \( self \. capacity (\( \) )?\) ; \) \*$", "allocColumns", None),
    (r"^let (?P<old_slots>\w+) = self \. slots \. slice \( self \. capacity (\( \) )?\) ;$", "bindOldSlots", None),
    (r"^let (?P<old_entities>\w+) = self \. entities \. slice \( self \. len (\( \) )?\) ;$", "bindOldEntities", None),
    (r"^# \( let old_ ~ I = ref_d ~ I \. slice \( self \. len (\( \) )?\) ; \) \*$", "bindOldColumns", None),
    (r"^for (?P<idx>\w+) in 0 \.\. self \. capacity (\( \) )?\{ new_slots \. write \( (?P=idx) , old_slots \. get_unchecked \( (?P=idx) \) \. clone \( \) \) ; \}$",
     "copySlotsLoop", None),
    (r"^for (?P<idx>\w+) in 0 \.\. self \. len (\( \) )?\{ new_entities \. write \( (?P=idx) , old_entities \. get_unchecked \( (?P=idx) \) \. clone \( \) \) ; "
     r"# \( new_d ~ I \. write \( (?P=idx) , old_ ~ I \. get_unchecked \( (?P=idx) \) \. clone \( \) \) ; \) \* \}$", "copyRowsLoop", None),
    (r"^Self \{ .* \}$", "returnSelfLiteral", None),
]

CLONE_FIELDS = [
    (r"^len : self \. len$", "lenFromSelf", None),
    (r"^version : self \. version$", "versionFromSelf", None),
    (r"^capacity : self \. capacity$", "capacityFromSelf", None),
    (r"^free_head : self \. free_head$", "freeHeadFromSelf", None),
    (r"^slots : new_slots$", "slotsNew", None),
    (r"^entities : new_entities$", "entitiesNew", None),
    (r"^# \( d ~ I : RefCell :: new \( new_d ~ I \) , \) \*$", "columnsNew", None),
    (r"^" + EVENTS + r"created : self \. created \. clone \( \)$", "createdClone", None),
    (r"^" + EVENTS + r"destroyed : self \. destroyed \. clone \( \)$", "destroyedClone", None),
]

DROP = [
    (r"^# \( self \. d ~ I \. get_mut \( \) \. drop_to \( self \. len \) ; \) \*$", "dropColumnsToLen", None),
    (r"^self \. slots \. dealloc \( self \. capacity \) ;$", "deallocSlots", None),
    (r"^self \. entities \. dealloc \( self \. capacity \) ;$", "deallocEntities", None),
    (r"^# \( self \. d ~ I \. get_mut \( \) \. dealloc \( self \. capacity \) ; \) \*$", "deallocColumns", None),
]


def split_fields(ts):
    """items of a struct literal body: top-level commas; a `#( … )*` group is an item of its own."""
    out, cur, i, n = [], [], 0, len(ts)
    while i < n:
        t = ts[i]
        if t == "#" and i + 1 < n and ts[i + 1] == "(" and not cur:
            e = _end_of(ts, i + 1)
            if e < n and ts[e] == "*":
                e += 1
            out.append(ts[i:e])
            i = e
            continue
        if t in OPEN:
            e = _end_of(ts, i)
            cur += ts[i:e]
            i = e
            continue
        if t == ",":
            if cur:
                out.append(cur)
            cur = []
        else:
            cur.append(t)
        i += 1
    if cur:
        out.append(cur)
    return out


def find_seq(toks, seq, lo=0):
    n = len(seq)
    for i in range(lo, len(toks) - n):
        if [t for (_, t) in toks[i:i + n]] == seq:
            return i
    raise ExtractError(f"`{' '.join(seq)}` not found")

PUSH = [
    (r"^debug_assert ! \( self \. len <= self \. capacity (\( \) )?\) ;$", "dbgLenLeCap", None),
    (r'^if self \. len >= self \. capacity (\( \) )?\{ (debug_assert ! \( [^;]* \) ; )?if self \. grow \( \) == false \{ panic ! \( "capacity overflow" \) ; \} \}$',
     "growIfFullOrPanic", "push"),
    (r"^if self \. len >= self \. capacity (\( \) )?\{ (debug_assert ! \( [^;]* \) ; )?return Err \( data \) ; \}$", "errIfFull", "push_within_capacity"),
    (r"^self \. force_create \( data \)$", "tailForceCreate", "push"),
    (r"^Ok \( unsafe \{ self \. force_create \( data \) \} \)$", "tailOkForceCreate", "push_within_capacity"),
]

KEYGLUE = [
    (r"^let \( _ , (?P<dense_index>\w+) \) = self \. resolve_entity \( entity \) \? ;$", "bindDenseFromResolveEntity", None),
    (r"^let \( _ , (?P<dense_index>\w+) \) = self \. resolve_direct \( entity \) \? ;$", "bindDenseFromResolveDirect", None),
    (r"^let (?P<dense_index_usize>\w+) (: usize )?= dense_index \. into \( \) ;$", "bindDenseUsize", None),
    (r"^debug_checked_assume ! \( self \. len <= MAX_DATA_CAPACITY as usize \) ;$", "assumeLenLeMax", None),
    (r"^debug_checked_assume ! \( self \. len >= dense_index_usize \) ;$", "assumeLenGeDense", None),
    (r"^Some \( dense_index_usize \)$", "returnSomeDenseUsize", None),
    (r"^Some \( EntityDirect :: new \( dense_index , self \. version (\( \) )?\) \)$", "returnSomeDirectCurrentVersion", None),
    (r"^self \. resolve_direct \( entity \) \. map \( \| _ \| entity \)$", "returnResolveDirectMapEntity", None),
    (r"^Some \( self \. force_destroy \( self \. resolve_entity \( entity \) \? \) \)$", "returnSomeForceDestroyResolveEntity", None),
    (r"^Some \( self \. force_destroy \( self \. resolve_direct \( entity \) \? \) \)$", "returnSomeForceDestroyResolveDirect", None),
]

WITHCAP = [
    (r"^num_assert_leq ! \(.*\) ;$", "numAssert", None),
    (r'^if capacity > MAX_DATA_CAPACITY as usize \{ panic ! \( "capacity may not exceed \{\}" , MAX_DATA_CAPACITY \) ; \}$', "panicIfTooLarge", None),
    (r"^let mut (?P<slots>\w+) : DataPtr < Slot > = DataPtr :: with_capacity \( capacity \) ;$", "allocSlots", None),
    (r"^let (?P<raw_data>\w+) = unsafe \{ slots \. raw_data \( capacity \) \} ;$", "rawData", None),
    (r"^let (?P<free_head>\w+) = Slot :: populate_free_list \( TrimmedIndex :: zero \( \) , raw_data \) ;$", "populateFromZero", None),
    (r"^Self \{ .* \}$", "returnSelfLiteral", None),
]

WITHCAP_FIELDS = [
    (r"^version : ArchetypeVersion :: start \( \)$", "versionStart", None),
    (r"^len : 0$", "lenZero", None),
    (r"^capacity( : capacity)?$", "capacityParam", None),
    (r"^free_head( : free_head)?$", "freeHeadLocal", None),
    (r"^slots( : slots)?$", "slotsLocal", None),
    (r"^entities : DataPtr :: with_capacity \( capacity \)$", "entitiesAlloc", None),
    (r"^# \( d ~ I : RefCell :: new \( DataPtr :: with_capacity \( capacity \) \) , \) \*$", "columnsAlloc", None),
    (r"^" + EVENTS + r"created : Vec :: new \( \)$", "createdNew", None),
    (r"^" + EVENTS + r"destroyed : Vec :: new \( \)$", "destroyedNew", None),
]

CLEAR = [
    (r"^self \. created \. clear \( \) ;$", "clearCreated", None),
    (r"^self \. destroyed \. clear \( \) ;$", "clearDestroyed", None),
]

ITER_NEXT = [
    (r"^if self \. remaining == 0 \{ return None ; \}$", "ifExhaustedReturnNone", None),
    (r"^let (?P<result>\w+) = \( & \* self \. ptr_entity , # \( & (mut )?\* self \. ptr_d ~ I , \) \* \) ;$", "bindResult", None),
    (r"^self \. ptr_entity = self \. ptr_entity \. offset \( 1 \) ;$", "advanceEntity", None),
    (r"^# \( self \. ptr_d ~ I = self \. ptr_d ~ I \. offset \( 1 \) ; \) \*$", "advanceColumns", None),
    (r"^self \. remaining -= 1 ;$", "decRemaining", None),
    (r"^Some \( result \)$", "returnSomeResult", None),
]

ITER_FIELDS = [
    (r"^remaining : self \. len$", "remainingLen", None),
    (r"^ptr_entity : self \. entities \. ptr_data \( \)$", "ptrEntityStart", None),
    (r"^# \( ptr_d ~ I : self \. d ~ I \. get_mut \( \) \. ptr_data \( \) , \) \*$", "ptrColumnsStart", None),
    (r"^phantom : PhantomData$", "phantom", None),
]


def impl_fn_names(toks, at):
    """names of the fns defined directly in the impl block whose header contains position `at`."""
    j = at
    while toks[j][1] != "{":
        j += 1
    e = block_end(toks, j)
    names, k, depth = [], j + 1, 0
    while k < e - 1:
        t = toks[k][1]
        if t in OPEN:
            depth += 1
        elif t in OPEN.values():
            depth -= 1
        elif t == "fn" and depth == 0:
            names.append(toks[k + 1][1])
        k += 1
    return names

QBLOCK = [
    (r"^type MatchedArchetype = # Archetype ;$", "aliasArchetype", None),
    (r"^let mut closure = \| .* \| # body ;$", "bindClosure", None),
    (r"^let archetype = # get_archetype ;$", "bindArchetype", None),
    (r"^let version = archetype \. version \( \) ;$", "readVersion", None),
    (r"^let len = archetype \. len \( \) ;$", "readLen", None),
    (r"^let slices = # get_slices ;$", "fetchSlices", None),
]

QARM = [
    (r"^let entity = slices \. entity \[ idx \] ;$", "bindEntityAtIdx", None),
    (r"^archetype \. destroy \( entity \) ;$", "destroyEntity", None),
    (r"^return ;$", "ret", None),
]


def loop_template(toks, fn):
    """LoopT record (as Lean text) of the per-archetype `quote!( { … } )` pushed inside `fn`."""
    params, lo, hi = find_fn(toks, fn)
    ts = toks_of(toks, lo, hi)
    n = len(ts)
    at = [i for i in range(n - 6) if ts[i:i + 6] == ["queries", ".", "push", "(", "quote", "!"]]
    if len(at) != 1:
        raise ExtractError(f"{fn}: expected exactly one `queries.push(quote!(…))`")
    q = at[0] + 6
    qe = _end_of(ts, q)
    inner = ts[q + 1:qe - 1]
    if not inner or inner[0] != "{" or _end_of(inner, 0) != len(inner):
        raise ExtractError(f"{fn}: the pushed template is not a single block")
    stmts = split_stmts(inner[1:-1])
    loops = [k for k, st in enumerate(stmts) if st and st[0] == "for"]
    if len(loops) != 1:
        raise ExtractError(f"{fn}: expected exactly one `for` loop in the template")
    k = loops[0]
    pre = classify(stmts[:k], QBLOCK)
    post = classify(stmts[k + 1:], QBLOCK)
    f = stmts[k]
    text = " ".join(f)
    m = re.match(r"^for idx in (0 \.\. len|\( 0 \.\. len \) \. rev \( \)) \{ (.*) \}$", text)
    if not m:
        raise ExtractError(f"{fn}: loop header not recognised: {text[:80]}")
    rev = m.group(1) != "0 .. len"
    b = f.index("{")
    body_stmts = split_stmts(f[b + 1:-1])
    mt = [j for j, st in enumerate(body_stmts) if st and st[0] == "match"]
    if len(mt) != 1 or mt[0] != len(body_stmts) - 1:
        raise ExtractError(f"{fn}: the loop body must end with exactly one `match`")
    body = classify(body_stmts[:-1], QBLOCK)
    mm = body_stmts[-1]
    mtext = " ".join(mm)
    if not re.match(r"^match closure \( # \( # attrs # bind \) , \* \) \. into \( \) \{", mtext):
        raise ExtractError(f"{fn}: match scrutinee not recognised: {mtext[:80]}")
    mb = mm.index("{", mm.index("into"))
    arms_toks = mm[mb + 1:-1]
    arms = []
    i = 0
    while i < len(arms_toks):
        if arms_toks[i] == ",":
            i += 1
            continue
        j = i
        while arms_toks[j] != "=>":
            j += 1
        path = arms_toks[i:j]
        if arms_toks[j + 1] != "{":
            raise ExtractError(f"{fn}: arm body is not a block")
        e = _end_of(arms_toks, j + 1)
        rows = classify(split_stmts(arms_toks[j + 2:e - 1]), QARM)
        arms.append((path[-1] if len(path) == 3 and path[1] == "::" else "?" + " ".join(path), rows))
        i = e
    wrapped = any(ts[i:i + 13] == ["(", "|", "|", "{", "#", "(", "#", "queries", ")", "*", "}", ")", "("] for i in range(n - 13)) \
        or any(ts[i:i + 12] == ["(", "||", "{", "#", "(", "#", "queries", ")", "*", "}", ")", "("] for i in range(n - 12))

    def lst(rows):
        return "[" + ", ".join("." + c for (c, _) in rows) + "]"
    src = lambda rows: "; ".join(t for (_, t) in rows)
    lines = ["{ pre := " + lst(pre) + ",   -- " + src(pre)[:200],
             f"    rev := {'true' if rev else 'false'},   -- {' '.join(f[:f.index('{')])}",
             "    body := " + lst(body) + ",   -- " + src(body),
             "    arms := [" + ", ".join(f'("{nm}", {lst(rows)})' for (nm, rows) in arms) + "],",
             "    post := " + lst(post) + ",",
             f"    wrapped := {'true' if wrapped else 'false'} }}"]
    return "\n".join(lines)

DIRECT = r"& :: gecs :: __internal :: new_entity_direct :: < MatchedArchetype > \( (idx|found \. index \( \)) , version \)"
BIND_KINDS = [
    (r"^& mut slices \. # ident \[ idx \]$", "compMut"),
    (r"^& slices \. # ident \[ idx \]$", "compRef"),
    (r"^& mut archetype \. borrow_slice_mut :: < # ident > \( \) \[ idx \]$", "compMut"),
    (r"^& archetype \. borrow_slice :: < # ident > \( \) \[ idx \]$", "compRef"),
    (r"^& mut found \. component_mut :: < # ident > \( \)$", "compMut"),
    (r"^& found \. component :: < # ident > \( \)$", "compRef"),
    (r"^found \. # ident$", "compField"),
    (r"^& slices \. entity \[ idx \]$", "entityAtIdx"),
    (r"^& archetype \. entities \( \) \[ idx \]$", "entityAtIdx"),
    (r"^found \. entity( \( \))?$", "entityAtIdx"),
    (r"^& slices \. entity \[ idx \] \. into \( \)$", "entityAtIdxIntoAny"),
    (r"^& archetype \. entities \( \) \[ idx \] \. into \( \)$", "entityAtIdxIntoAny"),
    (r"^& \( \* found \. entity( \( \))? \) \. into \( \)$", "entityAtIdxIntoAny"),
    (r"^" + DIRECT + r"$", "directIdxVersion"),
    (r"^" + DIRECT + r" \. into \( \)$", "directIdxVersionIntoAny"),
]
PVARS = ["Component", "Entity", "EntityAny", "EntityWild", "EntityDirect", "EntityDirectAny", "EntityDirectWild",
         "OneOf", "Option", "With", "Without"]


def bind_kind(q):
    text = " ".join(q)
    for pat, k in BIND_KINDS:
        if re.match(pat, text):
            return k
    return "unknown"


def quote_body(ts, i):
    """tokens inside `quote ! ( … )` starting at ts[i] == 'quote'; returns (tokens, index after)."""
    if ts[i:i + 3] != ["quote", "!", "("]:
        raise ExtractError("expected quote!(")
    e = _end_of(ts, i + 2)
    return ts[i + 3:e - 1], e


def bind_table(toks, fn):
    """rows (variant, isMut or None, kind, source text) of a `fn …_bind_…(param) -> TokenStream`."""
    params, lo, hi = find_fn(toks, fn)
    ts = toks_of(toks, lo, hi)
    if ts[:6] != ["match", "&", "param", ".", "param_type", "{"] or _end_of(ts, 5) != len(ts):
        raise ExtractError(f"{fn}: body is not a single `match &param.param_type`")
    arms = ts[6:-1]
    rows, i = [], 0
    while i < len(arms):
        if arms[i] == ",":
            i += 1
            continue
        j = i
        while arms[j] != "=>":
            j = _end_of(arms, j) if arms[j] in OPEN else j + 1
        pat = arms[i:j]
        v = pat[2] if pat[:2] == ["ParseQueryParamType", "::"] and len(pat) >= 3 and pat[2] in PVARS else "other"
        if arms[j + 1] == "{":
            e = _end_of(arms, j + 1)
            body = arms[j + 2:e - 1]
        else:
            e = j + 1
            while e < len(arms) and arms[e] != ",":
                e = _end_of(arms, e) if arms[e] in OPEN else e + 1
            body = arms[j + 1:e]
        # optional `let ident = to_snake_ident ( ident ) ;`
        if body[:8] == ["let", "ident", "=", "to_snake_ident", "(", "ident", ")", ";"]:
            body = body[8:]
        if body[:2] in (["panic", "!"], ["todo", "!"]):
            rows.append((v, None, "unsupported", " ".join(body)))
        elif body[:1] == ["quote"]:
            q, after = quote_body(body, 0)
            rows.append((v, None, bind_kind(q) if after == len(body) else "unknown", " ".join(body)))
        elif body[:6] == ["match", "param", ".", "is_mut", "{"] + body[5:6] and body[4] == "{":
            inner = body[5:_end_of(body, 4) - 1]
            k = 0
            while k < len(inner):
                if inner[k] == ",":
                    k += 1
                    continue
                if inner[k] in ("true", "false") and inner[k + 1] == "=>" and inner[k + 2] == "quote":
                    q, after = quote_body(inner, k + 2)
                    rows.append((v, inner[k] == "true", bind_kind(q), " ".join(inner[k:after])))
                    k = after
                else:
                    rows.append((v, None, "unknown", " ".join(inner[k:k + 12])))
                    break
        else:
            rows.append((v, None, "unknown", " ".join(body)[:120]))
        i = e
    return rows


def find_template(toks, fn="generate_query_find"):
    params, lo, hi = find_fn(toks, fn)
    ts = toks_of(toks, lo, hi)
    n = len(ts)
    at = [i for i in range(n - 6) if ts[i:i + 6] == ["queries", ".", "push", "(", "quote", "!"]]
    if len(at) != 1:
        raise ExtractError(f"{fn}: expected exactly one `queries.push(quote!(…))`")
    q = at[0] + 6
    inner = ts[q + 1:_end_of(ts, q) - 1]
    # arms: `# __WorldSelectTotal :: # Archetype ( # resolved_entity ) => { … }` and the `Direct` twin
    arms, i = [], 0
    while i < len(inner):
        j = i
        while inner[j] != "=>":
            j = _end_of(inner, j) if inner[j] in OPEN else j + 1
        pat = " ".join(inner[i:j])
        m = re.match(r"^# __WorldSelectTotal :: # (Archetype|ArchetypeDirect) \( # resolved_entity \)$", pat)
        if inner[j + 1] != "{":
            raise ExtractError(f"{fn}: arm body is not a block")
        e = _end_of(inner, j + 1)
        stmts = split_stmts(inner[j + 2:e - 1])
        tail = " ".join(stmts[-1]) if stmts else ""
        tk = "fetchMapClosure" if re.match(r"^# fetch \. map \( \| found \| closure \( # \( # attrs # bind \) , \* \) \)$", tail) else "unknown"
        FQ = QBLOCK[:1] + [(r"^let mut closure = \| .* \| # ret # body ;$", "bindClosure", None)] + QBLOCK[2:]
        arms.append((m.group(1) if m else "?", classify(stmts[:-1], FQ), tk))
        i = e
    names = [a[0] for a in arms]
    if names != ["Archetype", "ArchetypeDirect"]:
        raise ExtractError(f"{fn}: expected the arms #Archetype, #ArchetypeDirect, found {names}")
    # wrapper
    text = " ".join(ts)
    default_none = re.search(r"# \( # queries \) \* _ => None ,? \}", text) is not None
    expect = re.search(r'match # __WorldSelectTotal :: try_from \( # entity \) \. expect \( "invalid entity type" \) \{', text) is not None

    def lst(rows):
        return "[" + ", ".join("." + c for (c, _) in rows) + "]"
    return ("{ armTyped := " + lst(arms[0][1]) + ", tailTyped := ." + arms[0][2] + ",\n"
            "    armDirect := " + lst(arms[1][1]) + ", tailDirect := ." + arms[1][2] + ",\n"
            f"    defaultNone := {'true' if default_none else 'false'}, expectInvalid := {'true' if expect else 'false'} }}")

DATAPTR_SWAP = [
    DBG,
    (r"^let (?P<last>\w+) = len - 1 ;$", "bindLast", None),
    (r"^let (?P<array_ptr>\w+) = self \. 0 \. as_ptr \( \) ;$", "bindArrayPtr", None),
    (r"^let (?P<result>\w+) = ptr :: read \( array_ptr \. add \( index \) \) \. assume_init \( \) ;$", "readIndex", None),
    (r"^ptr :: copy \( array_ptr \. add \( last \) , array_ptr \. add \( index \) , 1 \) ;$", "copyLastToIndex", None),
    (r"^\* array_ptr \. add \( last \) = MaybeUninit :: uninit \( \) ;$", "uninitLast", None),
    (r"^result$", "returnResult", None),
]

DATAPTR_DROP = [
    (r"^for (?P<i>\w+) in 0 \.\. len \{ let (?P<i_ptr>\w+) = self \. 0 \. as_ptr \( \) \. add \( (?P=i) \) ; "
     r"ptr :: drop_in_place \( (?P=i_ptr) as \* mut T \) ; ptr :: write \( (?P=i_ptr) , MaybeUninit :: uninit \( \) \) ; \}$", "dropLoopToLen", None),
]

POPULATE = [
    (r"^let (?P<start_idx>\w+) (: usize )?= start \. into \( \) ;$", "bindStartIdx", None),
    (r"^let (?P<end_idx>\w+) = slots \. len \( \) - 1 ;$", "bindEndIdx", None),
    (r"^for (?P<idx>\w+) in start_idx \.\. end_idx \{ let (?P<next>\w+) = TrimmedIndex :: new_usize \( (?P=idx) \+ 1 \) \. unwrap \( \) ; "
     r"let (?P<slot>\w+) = Slot :: new_free \( SlotIndex :: new_free \( (?P=next) \) \) ; "
     r"slots \. get_mut \( (?P=idx) \) \. unwrap \( \) \. write \( (?P=slot) \) ; \}$", "loopLinkNext", None),
    (r"^let (?P<last_slot>\w+) = Slot :: new_free \( SlotIndex :: free_end \( \) \) ;$", "bindLastSlot", None),
    (r"^slots \. get_mut \( end_idx \) \. unwrap \( \) \. write \( last_slot \) ;$", "writeLast", None),
    (r"^SlotIndex :: new_free \( start \)$", "returnNewFreeStart", None),
]

NEWFREE_FIELDS = [
    (r"^index : p0$", "indexNextFree", None),
    (r"^version : SlotVersion :: start \( \)$", "versionStart", None),
]


def populate_template(slo, start_at):
    params, lo, hi = find_fn(slo, "populate_free_list", start_at)
    names = param_names(params)
    ts = toks_of(slo, lo, hi)
    ren = {nm: c for nm, c in zip(names, ["start", "slots"])}
    ts = [ren.get(t, t) for t in ts]
    text = " ".join(ts)
    m = re.match(r"^if slots \. len \( \) > 0 \{", text)
    if not m or ts[0] != "if":
        return "{ guardNonEmpty := false, thenSteps := [.unknown], elseTail := .unknown }   -- body is not `if slots.len() > 0 { … } else { … }`"
    b = ts.index("{")
    e = _end_of(ts, b)
    then = split_stmts(ts[b + 1:e - 1])
    rows = classify(then, POPULATE)
    els = "unknown"
    if ts[e:e + 2] == ["else", "{"] and _end_of(ts, e + 1) == len(ts):
        if " ".join(ts[e + 2:-1]) == "SlotIndex :: free_end ( )":
            els = "freeEnd"
    if len(names) != 2:
        rows.append(("unknown", "unexpected parameter list"))
    return ("{ guardNonEmpty := true,\n    thenSteps := [" + ", ".join("." + c for (c, _) in rows) + "],   -- " + "; ".join(t for (_, t) in rows)[:300].replace("-/", "- /")
            + f"\n    elseTail := .{els} }}")

WKEYS = {"Entity < # Archetype >": "entity", "EntityDirect < # Archetype >": "entityDirect",
         "EntityAny": "entityAny", "EntityDirectAny": "entityDirectAny"}
WOPS = {"resolve_contains": "contains", "resolve_direct": "toDirect", "resolve_destroy": "destroy"}
WCALL = {"contains": "contains", "to_direct": "toDirect", "destroy": "destroy"}


def world_dispatch(toks):
    """(rows, tryfrom rows) from the `quote!` of generate_world."""
    params, lo, hi = find_fn(toks, "generate_world")
    ts = toks_of(toks, lo, hi)
    n = len(ts)
    rows, tfs = [], []
    i = 0
    while i < n - 4:
        if ts[i] == "impl" and ts[i + 1] == "WorldCanResolve" and ts[i + 2] == "<":
            j = i + 3
            depth = 1
            while depth:
                depth += {"<": 1, ">": -1, ">>": -2}.get(ts[j], 0)
                j += 1
            raw = ts[i + 3:j]
            # closing may be `>` or part of `>>`
            ktext = " ".join(raw[:-1]) if raw[-1] == ">" else " ".join(raw[:-1] + [">"])
            key = WKEYS.get(ktext, "other")
            b = j
            while ts[b] != "{":
                b += 1
            e = _end_of(ts, b)
            k = b + 1
            while k < e - 1:
                if ts[k] == "fn":
                    name = ts[k + 1]
                    p = k + 2
                    while ts[p] != "(":
                        p += 1
                    p = _end_of(ts, p)
                    while ts[p] != "{":
                        p += 1
                    be = _end_of(ts, p)
                    body = " ".join(ts[p + 1:be - 1])
                    m1 = re.match(r"^self \. archetype(_mut)? :: < # Archetype > \( \) \. (contains|to_direct|destroy) \( entity \)$", body)
                    m2 = re.match(r'^match entity \. try_into \( \) \{ # \( Ok \( (SelectEntity|SelectEntityDirect) :: # Archetype \( entity \) \) => '
                                  r'self \. # archetype \. (contains|to_direct|destroy) \( entity \)( \. map \( \| e \| e \. into \( \) \)| \. map \( \| _ \| \( \) \))? , \) \* '
                                  r'Err \( _ \) => panic ! \( "invalid entity type" \) ,? \}$', body)
                    if m1:
                        kind = f"(.typedDelegate .{WCALL[m1.group(2)]} {'true' if m1.group(1) else 'false'})"
                    elif m2:
                        post = {None: "none", " . map ( | e | e . into ( ) )": "mapInto", " . map ( | _ | ( ) )": "mapUnit"}[m2.group(3)]
                        sel = "entity" if m2.group(1) == "SelectEntity" else "entityDirect"
                        kind = f"(.dynMatch .{sel} .{WCALL[m2.group(2)]} .{post})"
                    else:
                        kind = ".unknown"
                    rows.append((key, WOPS.get(name, "other"), kind, body))
                    k = be
                else:
                    k += 1
            i = e
            continue
        if ts[i] == "impl" and ts[i + 1] == "TryFrom" and ts[i + 2] == "<" and ts[i + 3] in ("EntityAny", "EntityDirectAny") and ts[i + 4] == ">" \
                and ts[i + 5] == "for" and ts[i + 6] in ("SelectEntity", "SelectEntityDirect"):
            src = "entityAny" if ts[i + 3] == "EntityAny" else "entityDirectAny"
            carries = "entity" if ts[i + 6] == "SelectEntity" else "entityDirect"
            b = i + 7
            while ts[b] != "{":
                b += 1
            e = _end_of(ts, b)
            blk = ts[b + 1:e - 1]
            f = blk.index("fn")
            p = f
            while blk[p] != "{":
                p = _end_of(blk, p) if blk[p] in OPEN else p + 1
            body = " ".join(blk[p + 1:_end_of(blk, p) - 1])
            m = re.match(r"^match entity \. archetype_id \( \) \{ # \( # Archetype :: ARCHETYPE_ID => \{ Ok \( (SelectEntity|SelectEntityDirect) :: # Archetype \( "
                         r"(Entity|EntityDirect) :: < # Archetype > :: from_any_unchecked \( entity \) \) \) \} , \) \* _ => Err \( EcsError :: InvalidEntityType \) ,? \}$", body)
            if m and m.group(1) == ts[i + 6]:
                kind = "(.okFromAnyUnchecked ." + ("entity" if m.group(2) == "Entity" else "entityDirect") + ")"
            else:
                kind = ".unknown"
            tfs.append((src, carries, kind, body))
            i = e
            continue
        i += 1
    return rows, tfs

ACCESS = [
    (r"^< Self as StorageCanResolve < K (> >|>>) :: (?P<m>\w+) \( self , entity \)$", "delegate"),
    (r"^self \. resolve \( entity \) \. map \( \| index \| \$ borrow \{ index , source : self \} \)$", "borrowAtResolved"),
    (r"^self \. resolve \( entity \) \. map \( \| index \| unsafe \{ E :: new \( index , self \. entities \. slice \( self \. len \) \. get_unchecked \( index \) , "
     r"# \( self \. d ~ I \. get_mut \( \) \. slice_mut \( self \. len \) \. get_unchecked_mut \( index \) , \) \* \) \} \)$", "viewAtResolved"),
    (r"^(debug_checked_assume ! \( self \. len <= MAX_DATA_CAPACITY as usize \) ; )?S :: new \( self \. entities \. slice \( self \. len \) , "
     r"# \( self \. d ~ I \. get_mut \( \) \. slice_mut \( self \. len \) , \) \* \)$", "allSlicesToLen"),
    (r"^(debug_checked_assume ! \( self \. len <= MAX_DATA_CAPACITY as usize \) ; )?self \. entities \. slice \( self \. len \)$", "entitiesToLen"),
    (r"^(debug_checked_assume ! \( self \. len <= MAX_DATA_CAPACITY as usize \) ; )?self \. d ~ I \. get_mut \( \) \. slice \( self \. len \)$", "columnToLen false false"),
    (r"^(debug_checked_assume ! \( self \. len <= MAX_DATA_CAPACITY as usize \) ; )?self \. d ~ I \. get_mut \( \) \. slice_mut \( self \. len \)$", "columnToLen true false"),
    (r"^Ref :: map \( self \. d ~ I \. borrow \( \) , \| slice \| unsafe \{ (debug_checked_assume ! \( self \. len <= MAX_DATA_CAPACITY as usize \) ; )?slice \. slice \( self \. len \) \} \)$", "columnToLen false true"),
    (r"^RefMut :: map \( self \. d ~ I \. borrow_mut \( \) , \| slice \| unsafe \{ (debug_checked_assume ! \( self \. len <= MAX_DATA_CAPACITY as usize \) ; )?slice \. slice_mut \( self \. len \) \} \)$", "columnToLen true true"),
]


def accessor_rows(sto):
    rows = []
    for fn, tilde in (("destroy", False), ("resolve", False), ("to_direct", False), ("begin_borrow", False), ("get_view_mut", False),
                      ("get_all_slices_mut", False), ("get_slice_entities", False),
                      ("get_slice_", True), ("get_slice_mut_", True), ("borrow_slice_", True), ("borrow_slice_mut_", True)):
        try:
            # `fn get_slice_~I` tokenises as get_slice_ ~ I
            i = 0
            found = None
            while i < len(sto) - 3:
                if sto[i][1] == "fn" and sto[i + 1][1] == fn and ((sto[i + 2][1] == "~" and sto[i + 3][1] == "I") == tilde):
                    found = i
                    break
                i += 1
            if found is None:
                raise ExtractError(f"fn {fn} not found")
            j = found
            while sto[j][1] != "(":
                j = block_end(sto, j) if sto[j][1] in OPEN else j + 1
                if sto[j - 1][1] == ">" and False:
                    pass
            # skip generics that may contain parens: find the parameter list = the paren group directly before `->` or `{`/where
            k = found + 2
            depth = 0
            while True:
                t = sto[k][1]
                if t == "<":
                    depth += 1
                elif t == ">":
                    depth -= 1
                elif t == ">>":
                    depth -= 2
                elif t == "(" and depth <= 0:
                    break
                k += 1
            k = block_end(sto, k)
            while sto[k][1] != "{":
                k += 1
            e = block_end(sto, k)
            body = [t for (_, t) in sto[k + 1:e - 1]]
            # strip one enclosing `unsafe { … }`
            if body[:2] == ["unsafe", "{"] and _end_of(body, 1) == len(body):
                body = body[2:-1]
            text = " ".join(body)
            shape = "unknown"
            for pat, sh in ACCESS:
                m = re.match(pat, text)
                if m:
                    shape = sh if sh != "delegate" else 'delegate "' + m.group("m") + '"'
                    break
            rows.append((fn + ("~I" if tilde else ""), shape, text))
        except (ExtractError, IndexError) as ex:
            rows.append((fn, "unknown", f"NOT RECOGNISED: {ex}"))
    return rows


def event_iter_template(wtoks):
    params, lo, hi = find_fn(wtoks, "section_event_iter")
    ts = toks_of(wtoks, lo, hi)
    text = " ".join(ts)
    block = re.search(r"fn next \( & mut self \) -> Option < Self :: Item > \{ # \( if self \. which == # index as ArchetypeId \{ "
                      r"match self \. # iter \. next \( \) \{ Some \( next \) => return Some \( next \. into \( \) \) , None => # next ,? \} \} \) \* (None) \}", text)
    sched = re.search(r"for _ in 0 \.\. _world_data \. archetypes \. len \( \) - 1 \{ next \. push \( quote ! \( self \. which \+= 1 \) \) ; \} "
                      r"next \. push \( quote ! \( \{ \} \) \) ;", text)
    ok = block is not None
    return ("{ blockOk := %s, tailNone := %s, incAllButLast := %s, lastEmpty := %s }" %
            (("true" if ok else "false"), ("true" if ok else "false"), ("true" if sched else "false"), ("true" if sched else "false")))

SLOT = [
    DBG,
    (r"^self \. index = SlotIndex :: new_data \( p0 \) ;$", "indexNewData", None),
    (r"^self \. index = p0 ;$", "indexNextFree", "release"),
    (r"^self \. version = p1 ;$", "versionNext", "release"),
]


def classify(stmts, table, rename=None, only=None):
    """[(constructor, source text)] — binder names of recognised `let`s are canonicalised for the rest."""
    rename = dict(rename or {})
    out = []
    for st in stmts:
        ts = [rename.get(t, t) if re.fullmatch(IDENT, t) else t for t in st]
        text = " ".join(ts)
        hit = None
        for (pat, ctor, restrict) in table:
            if restrict in ("first", "second"):
                seen = sum(1 for (c, _) in out if c in ("allocSlots", "allocEntities"))
                if (restrict == "first") != (seen == 0):
                    continue
            elif restrict is not None and restrict != only:
                continue
            m = re.match(pat, text)
            if m:
                hit = ctor
                for canon, actual in m.groupdict().items():
                    if actual is not None and actual != canon:
                        rename[actual] = canon
                    # a rebinding under the canonical name (e.g. `data`) stays as is
                break
        out.append((hit or "unknown", " ".join(st)))
    classify.last_rename = rename
    return out


def lean_list(name, ty, rows, doc):
    lines = [f"/-- {doc} -/", f"def {name} : List {ty} := ["]
    for k, (ctor, src) in enumerate(rows):
        src = src.replace("-/", "- /").replace("/-", "/ -")
        if len(src) > 150:
            src = src[:147] + "..."
        lines.append(f"  .{ctor}{',' if k + 1 < len(rows) else ''}   -- {src}")
    lines.append("]")
    return "\n".join(lines)


def extract_steps():
    sto = tokenize(read("src/archetype/storage.rs"))
    slo = tokenize(read("src/archetype/slot.rs"))
    parts = []
    # --- slot.rs: impl Slot { fn assign / fn release }
    bodies = {}
    for fn in ("assign", "release"):
        try:
            # the Slot impl is the one after `pub struct Slot`
            start = next(i for i in range(len(slo) - 2) if slo[i][1] == "struct" and slo[i + 1][1] == "Slot")
            params, lo, hi = find_fn(slo, fn, start)
            names = param_names(params)
            ren = {nm: f"p{k}" for k, nm in enumerate(names)}
            rows = classify(split_stmts(toks_of(slo, lo, hi)), SLOT, ren, only=fn)
            if fn == "assign" and len(names) != 1 or fn == "release" and len(names) != 2:
                rows.append(("unknown", f"unexpected parameter list ({', '.join(names)})"))
        except (ExtractError, StopIteration, IndexError) as ex:
            rows = [("unknown", f"NOT RECOGNISED: {ex}")]
        bodies[fn] = rows
    parts.append(lean_list("slotAssign", "SlotSet", bodies["assign"], "src/archetype/slot.rs `Slot::assign(index_data)`"))
    parts.append(lean_list("slotRelease", "SlotSet", bodies["release"],
                           "src/archetype/slot.rs `Slot::release(index_next_free, next_version)`"))
    parts.append("def slotBodies : SlotBodies := { assign := slotAssign, release := slotRelease }")
    # --- Slot::populate_free_list (control skeleton) and Slot::new_free (literal fields)
    try:
        start = next(i for i in range(len(slo) - 2) if slo[i][1] == "struct" and slo[i + 1][1] == "Slot")
        rec = populate_template(slo, start)
    except (ExtractError, StopIteration, IndexError, ValueError) as ex:
        rec = "{ guardNonEmpty := false, thenSteps := [.unknown], elseTail := .unknown }   -- NOT RECOGNISED: " + str(ex)[:120]
    parts.append("/-- src/archetype/slot.rs `Slot::populate_free_list(start, slots)`: control skeleton and statements -/\ndef populateT : FreeListT :=\n  " + rec)
    try:
        params, lo, hi = find_fn(slo, "new_free", start)
        names = param_names(params)
        stmts = split_stmts(toks_of(slo, lo, hi))
        lit = [st for st in stmts if st and st[0] == "Self"]
        other = [st for st in stmts if st and st[0] != "Self" and not re.match(DBG[0], " ".join(st))]
        if len(lit) == 1 and not other and len(names) == 1:
            frows = classify(split_fields(lit[0][2:-1]), NEWFREE_FIELDS, {names[0]: "p0"})
        else:
            frows = [("unknown", "body is not debug_assert!s followed by one `Self { … }`")]
    except (ExtractError, IndexError, NameError) as ex:
        frows = [("unknown", f"NOT RECOGNISED: {ex}")]
    parts.append(lean_list("slotNewFreeFields", "SFField", frows, "src/archetype/slot.rs `Slot::new_free(next_free)`: field initialisers of the literal it returns"))
    # --- storage.rs
    for fn, table, ty, name, pren in (("force_destroy", DESTROY, "DStep", "forceDestroySteps", ["indices"]),
                                      ("force_create", CREATE, "CStep", "forceCreateSteps", ["data"]),
                                      ("grow", GROW, "GStep", "growSteps", [])):
        try:
            params, lo, hi = find_fn(sto, fn)
            names = param_names(params)
            ren = {nm: canon for nm, canon in zip(names, pren)}
            rows = classify(split_stmts(toks_of(sto, lo, hi)), table, ren)
            if len(names) != len(pren):
                rows.append(("unknown", f"unexpected parameter list ({', '.join(names)})"))
        except (ExtractError, IndexError) as ex:
            rows = [("unknown", f"NOT RECOGNISED: {ex}")]
        parts.append(lean_list(name, ty, rows, f"src/archetype/storage.rs `StorageN::{fn}`, statements in source order"))
    # --- the two validating lookups (the inherent `resolve_direct` is the FIRST fn of that name in the file;
    #     the trait method of the same name further down takes a key and delegates)
    for fn, table, ty, name, pren in (("resolve_entity", RESOLVE_ENTITY, "REStep", "resolveEntitySteps", ["entity"]),
                                      ("resolve_direct", RESOLVE_DIRECT, "RDStep", "resolveDirectSteps", ["entity"])):
        try:
            params, lo, hi = find_fn(sto, fn)
            names = param_names(params)
            ren = {nm: canon for nm, canon in zip(names, pren)}
            rows = classify(split_stmts(toks_of(sto, lo, hi)), table, ren)
            if len(names) != len(pren):
                rows.append(("unknown", f"unexpected parameter list ({', '.join(names)})"))
        except (ExtractError, IndexError) as ex:
            rows = [("unknown", f"NOT RECOGNISED: {ex}")]
        parts.append(lean_list(name, ty, rows, f"src/archetype/storage.rs `StorageN::{fn}`, statements in source order"))
    for fn, name in (("push", "pushSteps"), ("push_within_capacity", "pushWithinSteps")):
        try:
            params, lo, hi = find_fn(sto, fn)
            names = param_names(params)
            rows = classify(split_stmts(toks_of(sto, lo, hi)), PUSH, {nm: "data" for nm in names}, only=fn)
            if len(names) != 1:
                rows.append(("unknown", f"unexpected parameter list ({', '.join(names)})"))
        except (ExtractError, IndexError) as ex:
            rows = [("unknown", f"NOT RECOGNISED: {ex}")]
        parts.append(lean_list(name, "UStep", rows, f"src/archetype/storage.rs `StorageN::{fn}`, statements in source order"))
    # --- the six StorageCanResolve methods (glue between the public API and the lookups)
    for hdr, pre in ((["StorageCanResolve", "<", "Entity", "<"], "ent"), (["StorageCanResolve", "<", "EntityDirect", "<"], "dir")):
        for fn, suffix in (("resolve_for", "ResolveFor"), ("resolve_direct", "ToDirect"), ("resolve_destroy", "Destroy")):
            try:
                at = find_seq(sto, ["impl"] if False else hdr)
                # the impl header we want is the one followed by `for $name` (the trait DEFINITION is in traits.rs)
                while [t for (_, t) in sto[at:at + 40]].count("for") == 0:
                    at = find_seq(sto, hdr, at + 1)
                params, lo, hi = find_fn(sto, fn, at)
                names = param_names(params)
                rows = classify(split_stmts(toks_of(sto, lo, hi)), KEYGLUE, {nm: "entity" for nm in names})
                if len(names) != 1:
                    rows.append(("unknown", f"unexpected parameter list ({', '.join(names)})"))
            except (ExtractError, IndexError) as ex:
                rows = [("unknown", f"NOT RECOGNISED: {ex}")]
            kind = "Entity<A>" if pre == "ent" else "EntityDirect<A>"
            parts.append(lean_list(pre + suffix, "WStep", rows, f"src/archetype/storage.rs `StorageCanResolve<{kind}>::{fn}`, statements in source order"))
    # --- Archetype::iter / iter_mut: constructor literals (storage.rs) and the two `next` bodies (iter.rs)
    try:
        itr = tokenize(read("src/archetype/iter.rs"))
    except OSError as ex:
        itr = []
    for fn, macro_var, pre in (("iter", "iter", "iter"), ("iter_mut", "iter_mut", "iterMut")):
        try:
            params, lo, hi = find_fn(sto, fn)
            stmts = split_stmts(toks_of(sto, lo, hi))
            lit = [st for st in stmts if st[:2] == ["$", macro_var] and st[2:3] == ["{"]]
            if len(stmts) == 1 and len(lit) == 1:
                frows = classify(split_fields(lit[0][3:-1]), ITER_FIELDS)
            else:
                frows = [("unknown", " ".join(st)) for st in stmts] or [("unknown", "empty body")]
        except (ExtractError, IndexError) as ex:
            frows = [("unknown", f"NOT RECOGNISED: {ex}")]
        parts.append(lean_list(pre + "Fields", "IField", frows, f"src/archetype/storage.rs `StorageN::{fn}`: the field initialisers of the `${macro_var} {{ … }}` literal it returns"))
        try:
            at = find_seq(itr, ["Iterator", "for", "$", macro_var])
            names = impl_fn_names(itr, at)
            params, lo, hi = find_fn(itr, "next", at)
            rows = classify(split_stmts(toks_of(itr, lo, hi)), ITER_NEXT)
        except (ExtractError, IndexError) as ex:
            rows = [("unknown", f"NOT RECOGNISED: {ex}")]
            names = ["NOT RECOGNISED"]
        parts.append(lean_list(pre + "NextSteps", "IStep", rows, f"src/archetype/iter.rs `impl Iterator for ${macro_var}`: statements of `next`, in source order"))
        parts.append(f"/-- … and the names of ALL methods that impl block defines -/\ndef {pre}ImplMethods : List String := [" + ", ".join('"%s"' % n for n in names) + "]")
    # --- the loop templates of ecs_iter! / ecs_iter_destroy! (macros/src/generate/query.rs)
    try:
        qry = tokenize(read("macros/src/generate/query.rs"))
    except OSError:
        qry = []
    for fn, name in (("generate_query_iter", "iterLoopT"), ("generate_query_iter_destroy", "iterDestroyLoopT")):
        try:
            rec = loop_template(qry, fn)
        except (ExtractError, IndexError, ValueError) as ex:
            msg = str(ex).replace("-/", "- /")
            rec = "{ pre := [.unknown], rev := false, body := [], arms := [], post := [], wrapped := false }   -- NOT RECOGNISED: " + msg[:160]
        parts.append(f"/-- macros/src/generate/query.rs `{fn}`: control skeleton of the per-archetype block template -/\ndef {name} : LoopT :=\n  " + rec)
    try:
        rec = find_template(qry)
    except (ExtractError, IndexError, ValueError, AttributeError) as ex:
        rec = "{ armTyped := [.unknown], tailTyped := .unknown, armDirect := [.unknown], tailDirect := .unknown, defaultNone := false, expectInvalid := false }   -- NOT RECOGNISED: " + str(ex).replace("-/", "- /")[:160]
    parts.append("/-- macros/src/generate/query.rs `generate_query_find`: control skeleton of the two arms pushed per matched archetype and of the wrapper -/\ndef findT : FindT :=\n  " + rec)
    # --- the four parameter-binding tables of query.rs
    for fn, name in (("iter_bind_mut", "iterBindMut"), ("iter_bind_borrow", "iterBindBorrow"),
                     ("find_bind_mut", "findBindMut"), ("find_bind_borrow", "findBindBorrow")):
        try:
            rows = bind_table(qry, fn)
        except (ExtractError, IndexError, ValueError) as ex:
            rows = [("other", None, "unknown", f"NOT RECOGNISED: {ex}")]
        lines = [f"/-- macros/src/generate/query.rs `{fn}`: one row per `match` arm (and `is_mut` branch) -/", f"def {name} : List BindRow := ["]
        for k, (v, m, kind, src) in enumerate(rows):
            mm = "none" if m is None else ("some true" if m else "some false")
            src = src.replace("-/", "- /")[:150]
            lines.append(f"  ⟨.{v}, {mm}, .{kind}⟩{',' if k + 1 < len(rows) else ''}   -- {src}")
        lines.append("]")
        parts.append("\n".join(lines))
    # --- accessor surface of StorageN
    arows = accessor_rows(sto)
    lines = ["/-- src/archetype/storage.rs: bodies of the public wrappers and of the view / borrow / slice accessors of `StorageN`, classified -/",
             "def accessors : List (String × AccShape) := ["]
    for k, (nm, shape, src) in enumerate(arows):
        sh = ("(." + shape + ")") if " " in shape else ("." + shape)
        lines.append(f'  ("{nm}", {sh}){"," if k + 1 < len(arows) else ""}   -- {src.replace("-/", "- /")[:150]}')
    lines.append("]")
    parts.append("\n".join(lines))
    # --- world-level key dispatch (macros/src/generate/world.rs)
    try:
        wtoks = tokenize(read("macros/src/generate/world.rs"))
        wrows, wtf = world_dispatch(wtoks)
    except (ExtractError, IndexError, ValueError, OSError, KeyError) as ex:
        wrows, wtf = [("other", "other", ".unknown", f"NOT RECOGNISED: {ex}")], [("other", "other", ".unknown", f"NOT RECOGNISED: {ex}")]
    lines = ["/-- macros/src/generate/world.rs `generate_world`: bodies of the `WorldCanResolve<K>` methods -/", "def worldRows : List DRow := ["]
    for k, (key, op, kind, src) in enumerate(wrows):
        lines.append(f"  ⟨.{key}, .{op}, {kind}⟩{',' if k + 1 < len(wrows) else ''}   -- {src.replace('-/', '- /')[:140]}")
    lines.append("]")
    parts.append("\n".join(lines))
    lines = ["/-- … and of the `TryFrom<EntityAny> for SelectEntity` / `TryFrom<EntityDirectAny> for SelectEntityDirect` conversions -/", "def worldTryFrom : List TFRow := ["]
    for k, (src_, car, kind, src) in enumerate(wtf):
        lines.append(f"  ⟨.{src_}, .{car}, {kind}⟩{',' if k + 1 < len(wtf) else ''}   -- {src.replace('-/', '- /')[:140]}")
    lines.append("]")
    parts.append("\n".join(lines))
    try:
        rec = event_iter_template(wtoks)
    except (ExtractError, IndexError, ValueError, NameError) as ex:
        rec = "{ blockOk := false, tailNone := false, incAllButLast := false, lastEmpty := false }   -- NOT RECOGNISED: " + str(ex)[:120]
    parts.append("/-- macros/src/generate/world.rs `section_event_iter`: skeleton of the generated `EcsEventIterator::next` -/\ndef evT : EvT :=\n  " + rec)
    # --- with_capacity (statements + literal) and clear_events
    try:
        params, lo, hi = find_fn(sto, "with_capacity")
        names = param_names(params)
        stmts = split_stmts(toks_of(sto, lo, hi))
        rows = classify(stmts, WITHCAP, {nm: "capacity" for nm in names})
        ren = classify.last_rename
        lit = [st for st in stmts if st and st[0] == "Self"]
        frows = classify(split_fields(lit[0][2:-1]), WITHCAP_FIELDS, ren) if len(lit) == 1 else [("unknown", "expected exactly one `Self { … }` literal")]
        if len(names) != 1:
            rows.append(("unknown", f"unexpected parameter list ({', '.join(names)})"))
    except (ExtractError, IndexError) as ex:
        rows = [("unknown", f"NOT RECOGNISED: {ex}")]
        frows = [("unknown", f"NOT RECOGNISED: {ex}")]
    parts.append(lean_list("withCapacitySteps", "NStep", rows, "src/archetype/storage.rs `StorageN::with_capacity`, statements in source order"))
    parts.append(lean_list("withCapacityFields", "NField", frows, "… and the field initialisers of the `Self { … }` literal it returns"))
    try:
        params, lo, hi = find_fn(sto, "clear_events")
        rows = classify(split_stmts(toks_of(sto, lo, hi)), CLEAR)
    except (ExtractError, IndexError) as ex:
        rows = [("unknown", f"NOT RECOGNISED: {ex}")]
    parts.append(lean_list("clearEventsSteps", "EStep", rows, "src/archetype/storage.rs `StorageN::clear_events`, statements in source order"))
    # --- DataPtr<T>::swap_remove / drop_to (the two methods that move or destroy values)
    try:
        dp = find_seq(sto, ["impl", "<", "T", ">", "DataPtr", "<", "T", ">"])
    except ExtractError:
        dp = None
    for fn, table, name, pren in (("swap_remove", DATAPTR_SWAP, "dataSwapRemoveSteps", ["index", "len"]),
                                  ("drop_to", DATAPTR_DROP, "dataDropToSteps", ["len"])):
        try:
            if dp is None:
                raise ExtractError("impl<T> DataPtr<T> not found")
            params, lo, hi = find_fn(sto, fn, dp)
            names = param_names(params)
            rows = classify(split_stmts(toks_of(sto, lo, hi)), table, {nm: c for nm, c in zip(names, pren)})
            if len(names) != len(pren):
                rows.append(("unknown", f"unexpected parameter list ({', '.join(names)})"))
        except (ExtractError, IndexError) as ex:
            rows = [("unknown", f"NOT RECOGNISED: {ex}")]
        parts.append(lean_list(name, "MStep", rows, f"src/archetype/storage.rs `DataPtr::{fn}`, statements in source order"))
    # --- Clone / Drop impls of the storage
    try:
        at = find_seq(sto, ["Clone", "for", "$", "name"])
        params, lo, hi = find_fn(sto, "clone", at)
        stmts = split_stmts(toks_of(sto, lo, hi))
        rows = classify(stmts, CLONE)
        lit = [st for st in stmts if st and st[0] == "Self"]
        ren = {}
        for (c, src), st in zip(rows, stmts):
            pass
        # binder renames made while classifying the body also apply inside the literal
        ren = classify.last_rename
        frows = []
        if len(lit) == 1:
            frows = classify(split_fields(lit[0][2:-1]), CLONE_FIELDS, ren)
        else:
            frows = [("unknown", "expected exactly one `Self { … }` literal")]
    except (ExtractError, IndexError) as ex:
        rows = [("unknown", f"NOT RECOGNISED: {ex}")]
        frows = [("unknown", f"NOT RECOGNISED: {ex}")]
    parts.append(lean_list("cloneSteps", "KStep", rows, "src/archetype/storage.rs `Clone for StorageN`: statements of `clone`, in source order"))
    parts.append(lean_list("cloneFields", "KField", frows, "… and the field initialisers of the `Self { … }` literal it returns"))
    try:
        at = find_seq(sto, ["Drop", "for", "$", "name"])
        params, lo, hi = find_fn(sto, "drop", at)
        rows = classify(split_stmts(toks_of(sto, lo, hi)), DROP)
    except (ExtractError, IndexError) as ex:
        rows = [("unknown", f"NOT RECOGNISED: {ex}")]
    parts.append(lean_list("dropSteps", "PStep", rows, "src/archetype/storage.rs `Drop for StorageN`: statements of `drop`, in source order"))
    head = ("/- GENERATED by tools/extract.py (tools/extract_steps.py) from /repo/src/archetype/{storage.rs, slot.rs} on every run.\n"
            "   Do not edit.  The statements of the mutating primitives, classified and listed in source order; meaning:\n"
            "   Gecs/Model/Steps.lean; tie theorems: Gecs/Lemmas/GenSteps.lean. -/\n"
            "import Gecs.Model.Steps\nimport Gecs.Model.ResolveSteps\nimport Gecs.Model.CloneSteps\nimport Gecs.Model.PushSteps\nimport Gecs.Model.KeySteps\nimport Gecs.Model.InitSteps\nimport Gecs.Model.IterSteps\nimport Gecs.Model.LoopSteps\nimport Gecs.Model.BindSteps\nimport Gecs.Model.FindSteps\nimport Gecs.Model.MemSteps\nimport Gecs.Model.FreeListSteps\nimport Gecs.Model.DispatchSteps\nimport Gecs.Model.AccessSteps\nimport Gecs.Model.EventIterSteps\n\nnamespace Gecs.Gen\n\n")
    return head + "\n\n".join(parts) + "\n\nend Gecs.Gen\n"


if __name__ == "__main__":
    print(extract_steps())
