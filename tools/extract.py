#!/usr/bin/env python3
"""Translator part (DESIGN §4.1): regenerates lean/Gecs/Gen/*.lean from /repo's sources on
every run, so that the theorems that mention the constants, the template tokens, the API
signatures and the struct fields are re-checked against what the code says NOW.

A small Rust tokenizer (string / char / comment / raw-string aware) is used; nothing is
matched with regexes over raw text.  If a source no longer has the shape the extractor
recognises, it exits non-zero: that is a broken tie, handled like a broken correspondence."""
import os, sys, re, json

REPO = "/repo"
VERIF = os.path.dirname(os.path.dirname(os.path.abspath(__file__)))
GEN = os.path.join(VERIF, "lean", "Gecs", "Gen")


class ExtractError(Exception):
    pass


# ----------------------------------------------------------------------------- tokenizer

PUNCT3 = ["<<=", ">>=", "...", "..="]
PUNCT2 = ["::", "->", "=>", "==", "!=", "<=", ">=", "&&", "||", "+=", "-=", "*=", "/=", "%=", "^=", "&=", "|=", "<<", ">>", ".."]


def tokenize(src):
    """Returns a list of (kind, text): kind in ident, lit, punct, lifetime."""
    toks = []
    i, n = 0, len(src)
    while i < n:
        c = src[i]
        if c.isspace():
            i += 1
            continue
        if src.startswith("//", i):
            j = src.find("\n", i)
            i = n if j < 0 else j
            continue
        if src.startswith("/*", i):
            depth, i = 1, i + 2
            while i < n and depth:
                if src.startswith("/*", i):
                    depth += 1
                    i += 2
                elif src.startswith("*/", i):
                    depth -= 1
                    i += 2
                else:
                    i += 1
            continue
        # raw strings r"..", r#".."#, br".."
        m = re.match(r'b?r(#*)"', src[i:])
        if m:
            hashes = m.group(1)
            end = src.find('"' + hashes, i + len(m.group(0)))
            if end < 0:
                raise ExtractError("unterminated raw string")
            j = end + 1 + len(hashes)
            toks.append(("lit", src[i:j]))
            i = j
            continue
        if c == '"' or (c == "b" and i + 1 < n and src[i + 1] == '"'):
            j = i + (2 if c == "b" else 1)
            while j < n and src[j] != '"':
                j += 2 if src[j] == "\\" else 1
            toks.append(("lit", src[i:j + 1]))
            i = j + 1
            continue
        if c == "'":
            # char literal or lifetime
            m = re.match(r"'(\\.[^']*|[^'\\])'", src[i:])
            if m:
                toks.append(("lit", m.group(0)))
                i += len(m.group(0))
                continue
            m = re.match(r"'[A-Za-z_][A-Za-z0-9_]*", src[i:])
            if m:
                toks.append(("lifetime", m.group(0)))
                i += len(m.group(0))
                continue
        if c.isalpha() or c == "_":
            m = re.match(r"[A-Za-z_][A-Za-z0-9_]*", src[i:])
            toks.append(("ident", m.group(0)))
            i += len(m.group(0))
            continue
        if c.isdigit():
            m = re.match(r"[0-9][0-9A-Za-z_]*(\.[0-9][0-9A-Za-z_]*)?", src[i:])
            toks.append(("lit", m.group(0)))
            i += len(m.group(0))
            continue
        for p in PUNCT3 + PUNCT2:
            if src.startswith(p, i):
                toks.append(("punct", p))
                i += len(p)
                break
        else:
            toks.append(("punct", c))
            i += 1
    return toks


OPEN = {"(": ")", "[": "]", "{": "}"}


def read(path):
    return open(os.path.join(REPO, path)).read()


def find_const(toks, name):
    """tokens of the initialiser expression of `const NAME: T = <expr>;`"""
    for i, (k, t) in enumerate(toks):
        if t == "const" and i + 1 < len(toks) and toks[i + 1][1] == name:
            j = i
            while toks[j][1] != "=":
                j += 1
            e = j + 1
            depth = 0
            while not (toks[e][1] == ";" and depth == 0):
                if toks[e][1] in OPEN:
                    depth += 1
                if toks[e][1] in OPEN.values():
                    depth -= 1
                e += 1
            return [t for (_, t) in toks[j + 1:e]]
    raise ExtractError(f"const {name} not found")


def eval_const(expr, env):
    """Evaluate a constant expression made of integer literals, names in env, `u32::BITS`,
    `X::BITS`, `NonZeroU32::MIN`, parentheses and + - << | & !."""
    s = []
    i = 0
    while i < len(expr):
        t = expr[i]
        if i + 2 < len(expr) and expr[i + 1] == "::":
            path = t + "::" + expr[i + 2]
            if path in env:
                s.append(str(env[path]))
                i += 3
                continue
            raise ExtractError(f"unknown path {path}")
        if t in env:
            s.append(str(env[t]))
        elif re.fullmatch(r"[0-9][0-9_]*(u32|usize|u8|u64)?", t):
            s.append(re.sub(r"(u32|usize|u8|u64)$", "", t).replace("_", ""))
        elif t in ("(", ")", "+", "-", "<<", ">>", "|", "&", "*"):
            s.append(t)
        elif t == "!":
            s.append("0xFFFFFFFF ^ ")
        elif t == "as":
            i += 2
            continue
        else:
            raise ExtractError(f"unsupported token {t!r} in constant expression {' '.join(expr)}")
        i += 1
    return eval(" ".join(s), {"__builtins__": {}}) & 0xFFFFFFFFFFFFFFFF


def lean_str(s):
    return '"' + s.replace("\\", "\\\\").replace('"', '\\"') + '"'


# ----------------------------------------------------------------------------- Consts

def extract_consts():
    ent = tokenize(read("src/entity.rs"))
    # pub type ArchetypeId = u8;
    aid = None
    for i, (k, t) in enumerate(ent):
        if t == "type" and ent[i + 1][1] == "ArchetypeId":
            aid = ent[i + 3][1]
    bits = {"u8": 8, "u16": 16, "u32": 32}.get(aid)
    if bits is None:
        raise ExtractError("ArchetypeId type not recognised")
    env = {"u32::BITS": 32, "ArchetypeId::BITS": bits, "NonZeroU32::MIN": 1, "u32::MAX": 0xFFFFFFFF}
    env["ARCHETYPE_ID_BITS"] = eval_const(find_const(ent, "ARCHETYPE_ID_BITS"), env)
    idx = tokenize(read("src/index.rs"))
    env["MAX_DATA_CAPACITY"] = eval_const(find_const(idx, "MAX_DATA_CAPACITY"), env)
    env["MAX_DATA_INDEX"] = eval_const(find_const(idx, "MAX_DATA_INDEX"), env)
    slot = tokenize(read("src/archetype/slot.rs"))
    env["FREE_BIT"] = eval_const(find_const(slot, "FREE_BIT"), env)
    env["FREE_LIST_END"] = eval_const(find_const(slot, "FREE_LIST_END"), env)
    ver = tokenize(read("src/version.rs"))
    env["VERSION_START"] = eval_const(find_const(ver, "VERSION_START"), env)
    vt = [t for (_, t) in ver]
    # the two counters are NonZeroU32 advanced by checked_add(1) / wrapping_add(1)
    if vt.count("NonZeroU32") < 3 or "checked_add" not in vt or "wrapping_add" not in vt:
        raise ExtractError("version.rs: counters are no longer NonZeroU32 with checked_add / wrapping_add")
    # key packing: `(slot_index << ARCHETYPE_ID_BITS) | archetype_id` and `key >> ARCHETYPE_ID_BITS`
    et = [t for (_, t) in ent]
    pack = sum(1 for i in range(len(et) - 4) if et[i + 1] == "<<" and et[i + 2] == "ARCHETYPE_ID_BITS" and et[i + 4] == "|")
    unpack = sum(1 for i in range(len(et) - 2) if et[i] == "key" and et[i + 1] == ">>" and et[i + 2] == "ARCHETYPE_ID_BITS")
    if pack < 2 or unpack < 2:
        raise ExtractError("entity.rs: key packing expressions not recognised")
    # growth expression (diagnostic only)
    st = tokenize(read("src/archetype/storage.rs"))
    stt = [t for (_, t) in st]
    growth = None
    for i in range(len(stt) - 12):
        if stt[i] == "new_capacity" and stt[i + 1] == "=" and stt[i + 2] == "self":
            j = i + 2
            e = j
            while stt[e] != ";":
                e += 1
            growth = " ".join(stt[j:e])
            break
    if growth is None:
        raise ExtractError("storage.rs: growth expression not found")
    add = mul = None
    m = re.search(r"saturating_add \( (\d+) \) \. saturating_mul \( (\d+) \)", growth)
    if m:
        add, mul = int(m.group(1)), int(m.group(2))
    # storage arities from `seq!(N in A..=B { declare_storage_n!`
    ar = []
    for i in range(len(stt) - 8):
        if stt[i] == "seq" and stt[i + 1] == "!" and stt[i + 3] == "N" and stt[i + 4] == "in":
            lo, hi = stt[i + 5], stt[i + 7]
            if stt[i + 6] == "..=" and "declare_storage_n" in stt[i:i + 14]:
                ar.append((int(lo), int(hi)))
    if not ar:
        raise ExtractError("storage.rs: storage arities not found")
    # features
    cargo = read("Cargo.toml")
    feats = []
    sect = False
    for line in cargo.splitlines():
        if line.strip().startswith("["):
            sect = line.strip() == "[features]"
            continue
        if sect and "=" in line and not line.strip().startswith("#"):
            feats.append(line.split("=")[0].strip())
    out = ["/- GENERATED by tools/extract.py from /repo sources on every run. Do not edit. -/",
           "namespace Gecs.Gen", ""]
    for k in ("ARCHETYPE_ID_BITS", "MAX_DATA_CAPACITY", "MAX_DATA_INDEX", "FREE_BIT", "FREE_LIST_END", "VERSION_START"):
        out.append(f"def {k} : Nat := {env[k]}")
    out.append("def VERSION_MAX : Nat := 4294967295   -- NonZeroU32 counters: checked_add / wrapping_add on u32")
    out.append(f"def growthExpr : String := {lean_str(growth)}")
    out.append(f"def growthAdd : Option Nat := {'some ' + str(add) if add is not None else 'none'}")
    out.append(f"def growthMul : Option Nat := {'some ' + str(mul) if mul is not None else 'none'}")
    out.append("def features : List String := [" + ", ".join(lean_str(f) for f in feats) + "]")
    out.append("def storageArities : List (Nat × Nat) := [" + ", ".join(f"({a}, {b})" for a, b in ar) + "]")
    out += ["", "end Gecs.Gen", ""]
    return "\n".join(out)


# ----------------------------------------------------------------------------- Tokens (C18 a)

def quote_bodies(toks):
    """Token lists inside every quote!( .. ) / quote! { .. } / quote_spanned!( span => .. )."""
    bodies = []
    i = 0
    while i < len(toks) - 2:
        if toks[i][1] in ("quote", "quote_spanned") and toks[i + 1][1] == "!" and toks[i + 2][1] in OPEN:
            close = OPEN[toks[i + 2][1]]
            depth, j = 0, i + 2
            while True:
                t = toks[j][1]
                if t in OPEN:
                    depth += 1
                elif t in OPEN.values():
                    depth -= 1
                    if depth == 0:
                        break
                j += 1
            body = toks[i + 3:j]
            if toks[i][1] == "quote_spanned":
                k = 0
                while body[k][1] != "=>":
                    k += 1
                body = body[k + 1:]
            bodies.append(body)
            i = j + 1
        else:
            i += 1
    return bodies


def extract_tokens():
    files = sorted(f for f in os.listdir(os.path.join(REPO, "macros/src/generate")) if f.endswith(".rs"))
    rows = []
    nquotes = 0
    for f in files:
        toks = tokenize(read("macros/src/generate/" + f))
        for body in quote_bodies(toks):
            nquotes += 1
            for (k, t) in body:
                rows.append(t)
    if nquotes < 40:
        raise ExtractError(f"only {nquotes} quote! bodies found in macros/src/generate: source restructured?")
    uniq = sorted(set(rows))
    out = ["/- GENERATED by tools/extract.py from /repo/macros/src/generate/*.rs on every run. Do not edit.",
           f"   {nquotes} quote!/quote_spanned! bodies, {len(rows)} tokens, {len(uniq)} distinct. -/",
           "namespace Gecs.Gen", "",
           "/-- every distinct token that occurs inside a `quote!` / `quote_spanned!` template -/",
           "def templateTokens : List String := ["]
    out.append(",\n".join("  " + lean_str(t) for t in uniq))
    out += ["]", "", f"def templateQuoteCount : Nat := {nquotes}", f"def templateTokenCount : Nat := {len(rows)}", "",
            "end Gecs.Gen", ""]
    return "\n".join(out)


# ----------------------------------------------------------------------------- Fields / impls (C18 c)

def struct_fields(toks, name_pred):
    """(name, [(field, type-token-list)]) for `struct NAME<..> { fields }` matching name_pred."""
    res = []
    raw = [t for (_, t) in toks]
    # merge macro metavariables `$` `name` into one token
    tt = []
    k = 0
    while k < len(raw):
        if raw[k] == "$" and k + 1 < len(raw) and re.fullmatch(r"[A-Za-z_][A-Za-z0-9_]*", raw[k + 1]):
            tt.append("$" + raw[k + 1])
            k += 2
        else:
            tt.append(raw[k])
            k += 1
    i = 0
    while i < len(tt) - 2:
        if tt[i] == "struct" and name_pred(tt[i + 1]):
            name = tt[i + 1]
            j = i + 2
            # skip generics
            if tt[j] == "<":
                d = 0
                while True:
                    if tt[j] == "<":
                        d += 1
                    if tt[j] == ">":
                        d -= 1
                        if d == 0:
                            break
                    j += 1
                j += 1
            while tt[j] not in ("{", "(", ";"):
                j += 1
            fields = []
            if tt[j] in ("{", "("):
                opener = tt[j]
                d, ad, k = 0, 0, j
                cur = []
                while True:
                    t = tt[k]
                    if t in OPEN:
                        d += 1
                    if t in OPEN.values():
                        d -= 1
                        if d == 0:
                            if cur:
                                fields.append(cur)
                            break
                    if d >= 1:
                        if t == "<":
                            ad += 1
                        elif t == ">":
                            ad -= 1
                        elif t == ">>":
                            ad -= 2
                    if d == 1 and ad == 0 and t == ",":
                        fields.append(cur)
                        cur = []
                    elif not (d == 1 and t == opener and not cur and k == j):
                        cur.append(t)
                    k += 1
            res.append((name, fields))
            i = j
        i += 1
    return res


def extract_fields():
    st = tokenize(read("src/archetype/storage.rs"))
    ent = tokenize(read("src/entity.rs"))
    ver = tokenize(read("src/version.rs"))
    slot = tokenize(read("src/archetype/slot.rs"))
    rows = []

    def clean(f):
        # drop attributes `# [ ... ]` and visibility
        out, i = [], 0
        while i < len(f):
            if f[i] == "#" and i + 1 < len(f) and f[i + 1] == "(":
                # seq! repetition `#( d~I: T, )*`: one field per column
                d, j = 0, i + 1
                while True:
                    if f[j] in OPEN:
                        d += 1
                    if f[j] in OPEN.values():
                        d -= 1
                        if d == 0:
                            break
                    j += 1
                inner = [x for x in f[i + 2:j] if x != ","]
                out += inner
                i = j + 1
                if i < len(f) and f[i] == "*":
                    i += 1
                    out.append("/*per-column*/")
                continue
            if f[i] == "#" and i + 1 < len(f) and f[i + 1] == "[":
                d, i = 0, i + 1
                while True:
                    if f[i] in OPEN:
                        d += 1
                    if f[i] in OPEN.values():
                        d -= 1
                        if d == 0:
                            break
                    i += 1
                i += 1
                continue
            out.append(f[i])
            i += 1
        if out and out[0] == "pub":
            out = out[1:]
            if out and out[0] == "(":
                out = out[out.index(")") + 1:]
        return out

    for (src, toks, pred) in (("storage.rs", st, lambda n: n in ("$name", "DataPtr", "$borrow")),
                              ("entity.rs", ent, lambda n: n in ("Entity", "EntityDirect", "EntityAny", "EntityDirectAny")),
                              ("version.rs", ver, lambda n: n in ("SlotVersion", "ArchetypeVersion")),
                              ("slot.rs", slot, lambda n: n in ("Slot", "SlotIndex"))):
        for (name, fields) in struct_fields(toks, pred):
            split_fields = []
            for f in fields:
                f = clean(f)
                while "/*per-column*/" in f and ":" in f[:f.index("/*per-column*/")] and ":" in clean(f[f.index("/*per-column*/") + 1:]):
                    k = f.index("/*per-column*/")
                    split_fields.append(f[:k + 1])
                    f = clean(f[k + 1:])
                split_fields.append(f)
            for f in split_fields:
                if not f:
                    continue
                if ":" in f:
                    k = f.index(":")
                    fname, ftype = " ".join(f[:k]), " ".join(f[k + 1:])
                else:
                    fname, ftype = "0", " ".join(f)
                rows.append((name, fname, ftype))
    # unsafe impl Send / Sync lines: of EVERY source file of the crate (storage.rs first, then the
    # others in path order), so that a manual auto-trait impl added anywhere is in the table
    impls = []
    srcs = []
    for root, _, fs in os.walk(os.path.join(REPO, "src")):
        for f in fs:
            if f.endswith(".rs"):
                srcs.append(os.path.relpath(os.path.join(root, f), REPO))
    srcs.sort(key=lambda p_: (p_ != "src/archetype/storage.rs", p_))
    for sp in srcs:
        tt = [t for (_, t) in (st if sp == "src/archetype/storage.rs" else tokenize(read(sp)))]
        for i in range(len(tt) - 3):
            if tt[i] == "unsafe" and tt[i + 1] == "impl":
                j = i
                while tt[j] != "{":
                    j += 1
                impls.append(" ".join(tt[i:j]))
    if not any(r[0] == "$name" for r in rows) or not impls:
        raise ExtractError("storage struct fields / unsafe impls not recognised")
    global _FIELD_ROWS
    _FIELD_ROWS = rows
    out = ["/- GENERATED by tools/extract.py from /repo/src on every run. Do not edit. -/", "namespace Gecs.Gen", "",
           "/-- (struct, field, type) of the types a world is built from; `$name` = StorageN, `d~I` = one",
           "    field per component column -/",
           "def structFields : List (String × String × String) := ["]
    out.append(",\n".join(f"  ({lean_str(a)}, {lean_str(b)}, {lean_str(c)})" for (a, b, c) in rows))
    out += ["]", "", "def unsafeImpls : List String := [" + ", ".join(lean_str(x) for x in impls) + "]", "", "end Gecs.Gen", ""]
    return "\n".join(out)


PRIMS = {"u8", "u16", "u32", "u64", "usize", "isize", "i32", "bool", "NonZeroU32"}
PARAMS = {"A", "T", "K", "C"}


def parse_type(toks):
    """tokens (strings) -> Lean term of type Env.Ty"""
    toks = [t for tok in toks for t in ((">", ">") if tok == ">>" else (tok,))]
    per_col = False
    if "/*per-column*/" in toks:
        toks = [t for t in toks if t != "/*per-column*/"]
        per_col = True
    # join `T ~ I` into one name
    j, out = 0, []
    while j < len(toks):
        if j + 2 < len(toks) and toks[j + 1] == "~":
            out.append(toks[j] + "~" + toks[j + 2])
            j += 3
        else:
            out.append(toks[j])
            j += 1
    toks = out
    pos = [0]

    def peek():
        return toks[pos[0]] if pos[0] < len(toks) else None

    def take():
        t = toks[pos[0]]
        pos[0] += 1
        return t

    def ty():
        t = peek()
        if t == "&":
            take()
            if peek() and peek().startswith("'"):
                take()
            m = False
            if peek() == "mut":
                take()
                m = True
            return f"(.ref {'true' if m else 'false'} {ty()})"
        if t == "fn":
            # fn ( .. ) -> T
            take()
            d = 0
            while True:
                x = take()
                if x == "(":
                    d += 1
                if x == ")":
                    d -= 1
                    if d == 0:
                        break
            if peek() == "->":
                take()
                ty()
            return ".fnPtr"
        if t == "*":
            take()
            return '(.param "*")'
        name = take()
        args = []
        if peek() == "<":
            take()
            while peek() != ">":
                if peek() == ",":
                    take()
                    continue
                args.append(ty())
            take()
        if name in PRIMS:
            return f'(.prim {lean_str(name)})'
        if (name in PARAMS or "~" in name) and not args:
            return f'(.param {lean_str(name)})'
        return f'(.app {lean_str(name)} [{", ".join(args)}])'

    r = ty()
    if pos[0] != len(toks):
        raise ExtractError(f"type not fully parsed: {' '.join(toks)}")
    return f"(.perColumn {r})" if per_col else r


def fields_ast(rows):
    by = {}
    for (name, fname, ftype) in rows:
        by.setdefault(name, []).append(parse_type(ftype.split()))
    out = ["/- GENERATED by tools/extract.py from /repo/src on every run. Do not edit. -/",
           "import Gecs.Model.Env", "namespace Gecs.Gen", "open Gecs.Env", "",
           "/-- struct ↦ field types, as an AST for the structural auto-trait rule -/",
           "def fieldTable : Fields := ["]
    out.append(",\n".join(f"  ({lean_str(n)}, [{', '.join(ts)}])" for n, ts in by.items()))
    out += ["]", "", "end Gecs.Gen", ""]
    return "\n".join(out)


# ----------------------------------------------------------------------------- Sigs (C18 b)

def extract_sigs():
    toks = tokenize(read("src/traits.rs"))
    tt = [t for (_, t) in toks]
    rows = []
    trait = None
    depth = 0
    trait_depth = None
    i = 0
    while i < len(tt):
        t = tt[i]
        if t == "trait" and depth == 0:
            trait = tt[i + 1]
        if t == "{":
            depth += 1
        if t == "}":
            depth -= 1
            if depth == 0:
                trait = None
        if t == "fn" and trait in ("World", "Archetype", "View", "Borrow") and depth == 1:
            name = tt[i + 1]
            j = i + 2
            # skip generics
            if tt[j] == "<":
                d = 0
                while True:
                    if tt[j] == "<":
                        d += 1
                    if tt[j] == ">":
                        d -= 1
                    if tt[j] == ">>":
                        d -= 2
                    j += 1
                    if d <= 0:
                        break
            assert tt[j] == "(", (trait, name, tt[j])
            # receiver
            k = j + 1
            recv_toks = []
            d = 1
            while True:
                if tt[k] == "(":
                    d += 1
                if tt[k] == ")":
                    d -= 1
                    if d == 0:
                        break
                if tt[k] == "," and d == 1 and not recv_toks_done(recv_toks):
                    pass
                recv_toks.append(tt[k])
                k += 1
            first = []
            for x in recv_toks:
                if x == ",":
                    break
                first.append(x)
            if "self" in first:
                recv = "exclusive" if "mut" in first else ("shared" if "&" in first else "owned")
            else:
                recv = "none"
            # return type tokens up to `{`, `;` or `where`
            k += 1
            ret = []
            if tt[k] == "->":
                k += 1
                while tt[k] not in ("{", ";", "where"):
                    ret.append(tt[k])
                    k += 1
            borrows = any(x == "&" or x.startswith("'") or x in ("Ref", "RefMut") for x in ret)
            if not name.startswith("resolve_"):
                rows.append((f"{trait}::{name}", recv, borrows))
            i = k
            continue
        i += 1
    if len(rows) < 30:
        raise ExtractError(f"only {len(rows)} API signatures recognised in traits.rs")
    out = ["/- GENERATED by tools/extract.py from /repo/src/traits.rs on every run. Do not edit. -/",
           "import Gecs.Model.Env", "namespace Gecs.Gen", "open Gecs.Env", "",
           "/-- (item, receiver kind, does the result borrow the receiver?) -/",
           "def sigs : List Sig := ["]
    out.append(",\n".join(f"  ⟨{lean_str(n)}, .{r}, {'true' if b else 'false'}⟩" for (n, r, b) in rows))
    out += ["]", "", "end Gecs.Gen", ""]
    return "\n".join(out), rows


def recv_toks_done(x):
    return False


# ----------------------------------------------------------------------------- reference impls (C18 b)

def extract_ref_impls():
    """Every `impl … Trait<&'x [mut] S> for &'y [mut] D` in src/**: conversions that turn one
    reference into another (all of them are `unsafe { transmute }` bodies).  `tied` says whether
    the produced reference carries the SAME named lifetime as the consumed one; an elided or
    different lifetime in the impl header unties them (the result could outlive the source)."""
    rows = []
    for root, _, fs in sorted(os.walk(os.path.join(REPO, "src"))):
        for f in sorted(fs):
            if not f.endswith(".rs"):
                continue
            rel = os.path.relpath(os.path.join(root, f), REPO)
            tt = [t for (_, t) in tokenize(read(rel))]
            i = 0
            while i < len(tt):
                if tt[i] != "impl":
                    i += 1
                    continue
                j = i + 1
                hdr = []
                while j < len(tt) and tt[j] not in ("{", ";"):
                    hdr.append(tt[j])
                    j += 1
                i = j
                if "for" not in hdr:
                    continue
                k = hdr.index("for")
                dst = hdr[k + 1:]
                if "where" in dst:
                    dst = dst[:dst.index("where")]
                if not dst or dst[0] != "&":
                    continue
                # impl generics
                g = 0
                generics = []
                if hdr and hdr[0] == "<":
                    d = 0
                    while g < len(hdr):
                        if hdr[g] == "<":
                            d += 1
                        elif hdr[g] == ">":
                            d -= 1
                        elif hdr[g] == ">>":
                            d -= 2
                        g += 1
                        if d <= 0:
                            break
                    generics = hdr[1:g - 1]
                trait = hdr[g:k]
                tname = trait[0] if trait else "?"
                arg = trait[2:-1] if len(trait) > 3 and trait[1] == "<" else []
                if trait and trait[-1] == ">>":
                    arg = trait[2:-1] + [">"]

                def ref_parts(ts):
                    lt, mut, rest = None, False, list(ts[1:])
                    if rest and rest[0].startswith("'"):
                        lt = rest.pop(0)
                    if rest and rest[0] == "mut":
                        mut = True
                        rest.pop(0)
                    return lt, mut, rest
                dlt, dmut, dty = ref_parts(dst)
                if arg and arg[0] == "&":
                    slt, smut, sty = ref_parts(arg)
                else:
                    slt, smut, sty = None, False, arg
                tied = dlt is not None and dlt == slt and dlt not in ("'_", "'static")
                tparams = [generics[x] for x in range(len(generics)) if not generics[x].startswith("'") and (x == 0 or generics[x - 1] == ",") and generics[x][0].isupper()]
                rows.append({"file": rel, "text": "impl " + " ".join(hdr), "trait": tname, "src": " ".join(sty), "dst": " ".join(dty),
                             "src_ref": bool(arg and arg[0] == "&"), "mut": dmut, "tied": tied, "type_params": tparams})
    return rows



# ----------------------------------------------------------------------------- Exprs (bit-level expressions, translated)

# ---------------------------------------------------------------- locating expressions

def block_end(toks, i):
    """index just after the block that opens at toks[i] (one of ( [ { )."""
    depth = 0
    j = i
    while True:
        t = toks[j][1]
        if t in OPEN:
            depth += 1
        elif t in OPEN.values():
            depth -= 1
            if depth == 0:
                return j + 1
        j += 1


def impl_blocks(toks, header_pred):
    """yield (start, end) token ranges of the bodies of `impl ... {` blocks whose header tokens satisfy header_pred."""
    i = 0
    n = len(toks)
    while i < n:
        if toks[i][1] == "impl":
            j = i
            while toks[j][1] != "{":
                j += 1
            header = [t for (_, t) in toks[i:j]]
            e = block_end(toks, j)
            if header_pred(header):
                yield (j + 1, e - 1)
            i = j + 1
        else:
            i += 1


def fn_body(toks, lo, hi, name):
    """token range of the body of `fn name` inside [lo, hi)."""
    i = lo
    while i < hi:
        if toks[i][1] == "fn" and toks[i + 1][1] == name:
            j = i
            while toks[j][1] != "{":
                j += 1
            return (j + 1, block_end(toks, j) - 1)
        i += 1
    raise ExtractError(f"fn {name} not found")


def let_init(toks, lo, hi, var):
    """tokens of <expr> in `let var[: T] = <expr>;` inside [lo, hi)."""
    i = lo
    while i < hi:
        if toks[i][1] == "let" and toks[i + 1][1] == var:
            j = i
            while toks[j][1] != "=":
                j += 1
            e = j + 1
            depth = 0
            while not (toks[e][1] == ";" and depth == 0):
                if toks[e][1] in OPEN:
                    depth += 1
                if toks[e][1] in OPEN.values():
                    depth -= 1
                e += 1
            return [t for (_, t) in toks[j + 1:e]]
        i += 1
    raise ExtractError(f"let {var} not found")


def call_arg(toks, lo, hi, path):
    """tokens of the single argument of the first call `path(…)` inside [lo, hi); path = list of tokens."""
    i = lo
    n = len(path)
    while i < hi:
        if [t for (_, t) in toks[i:i + n]] == path and toks[i + n][1] == "(":
            e = block_end(toks, i + n)
            return [t for (_, t) in toks[i + n + 1:e - 1]]
        i += 1
    raise ExtractError(f"call {' '.join(path)} not found")


def tail_expr(toks, lo, hi):
    """the whole body as an expression (single-expression fn), comments already stripped."""
    return [t for (_, t) in toks[lo:hi]]


def match_scrutinee(toks, lo, hi):
    """tokens of <expr> in the first `match <expr> {` inside [lo, hi)."""
    i = lo
    while i < hi:
        if toks[i][1] == "match":
            j = i + 1
            while toks[j][1] != "{":
                j += 1
            return [t for (_, t) in toks[i + 1:j]]
        i += 1
    raise ExtractError("match not found")

# ---------------------------------------------------------------- parsing (Rust precedence)

BIN = [("||",), ("&&",), ("==", "!=", "<", ">", "<=", ">="), ("|",), ("^",), ("&",), ("<<", ">>"), ("+", "-"), ("*", "/", "%")]


class P:
    def __init__(self, toks):
        self.t = toks
        self.i = 0

    def peek(self):
        return self.t[self.i] if self.i < len(self.t) else None

    def take(self):
        x = self.t[self.i]
        self.i += 1
        return x

    def expr(self, lvl=0):
        if lvl == len(BIN):
            return self.cast()
        a = self.expr(lvl + 1)
        while self.peek() in BIN[lvl]:
            op = self.take()
            b = self.expr(lvl + 1)
            a = ("bin", op, a, b)
        return a

    def cast(self):
        a = self.unary()
        while self.peek() == "as":
            self.take()
            ty = self.take()
            a = ("as", ty, a)
        return a

    def unary(self):
        if self.peek() == "!":
            self.take()
            return ("not", self.unary())
        return self.postfix()

    def postfix(self):
        a = self.atom()
        while True:
            if self.peek() == "." and self.i + 1 < len(self.t):
                nxt = self.t[self.i + 1]
                if re.fullmatch(r"[0-9]+", nxt) or (re.fullmatch(r"[a-z_][a-z0-9_]*", nxt) and (self.i + 2 >= len(self.t) or self.t[self.i + 2] != "(")):
                    self.take()
                    f = self.take()
                    a = ("field", a, f)
                    continue
                if nxt in ("into", "get") and self.t[self.i + 2] == "(" and self.t[self.i + 3] == ")":
                    # `.into()` (widening) and NonZero `.get()`: the same number
                    self.i += 4
                    continue
            return a

    def atom(self):
        t = self.take()
        if t == "(":
            a = self.expr()
            if self.take() != ")":
                raise ExtractError("expected )")
            return a
        if re.fullmatch(r"[0-9][0-9_]*(u8|u32|u64|usize)?", t):
            return ("lit", int(re.sub(r"(u8|u32|u64|usize)$", "", t).replace("_", "")))
        if t == "Into" and self.t[self.i:self.i + 7][0] == "::":
            # Into::<u32>::into(e)
            j = self.i
            while self.t[j] != "(":
                j += 1
            self.i = j + 1
            a = self.expr()
            if self.take() != ")":
                raise ExtractError("expected ) after Into::into")
            return a
        if re.fullmatch(r"[A-Za-z_][A-Za-z0-9_]*", t):
            return ("var", t)
        raise ExtractError(f"unsupported token {t!r} in expression {' '.join(self.t)}")


def parse(toks):
    p = P(toks)
    a = p.expr()
    if p.i != len(toks):
        raise ExtractError(f"trailing tokens in expression {' '.join(toks)} at {p.i}")
    return a

# ---------------------------------------------------------------- printing as Lean

CONSTS = {"ARCHETYPE_ID_BITS", "FREE_BIT", "FREE_LIST_END", "MAX_DATA_CAPACITY", "MAX_DATA_INDEX"}
TYBITS = {"u8": 8, "ArchetypeId": 8, "u32": 32, "u64": 64, "usize": 64}


def lean(a, width, names):
    k = a[0]
    if k == "lit":
        return str(a[1])
    if k == "var":
        if a[1] in CONSTS:
            return a[1]
        if a[1] in names:
            return names[a[1]]
        raise ExtractError(f"unknown name {a[1]} in expression")
    if k == "field":
        base = a[1]
        if base == ("var", "self") and a[2] in names:
            return names[a[2]]
        raise ExtractError(f"unknown field access .{a[2]}")
    if k == "as":
        inner = lean(a[2], width, names)
        bits = TYBITS.get(a[1])
        if bits is None:
            raise ExtractError(f"unknown cast target {a[1]}")
        return inner if bits >= width else f"({inner} % {2 ** bits})"
    if k == "not":
        return f"({2 ** width - 1} - {lean(a[1], width, names)})"
    if k == "bin":
        op, l, r = a[1], lean(a[2], width, names), lean(a[3], width, names)
        if op == "<<":
            return f"(({l} <<< {r}) % {2 ** width})"
        if op in ("+", "*"):
            return f"(({l} {op} {r}) % {2 ** width})"
        m = {">>": ">>>", "|": "|||", "&": "&&&", "^": "^^^", "-": "-"}
        if op in m:
            return f"({l} {m[op]} {r})"
        if op in ("==", "!=", "<", ">", "<=", ">="):
            return f"(decide ({l} {'≠' if op == '!=' else '=' if op == '==' else op.replace('<=', '≤').replace('>=', '≥')} {r}))"
    raise ExtractError(f"cannot print {a!r}")


def extract_exprs():
    ent = tokenize(read("src/entity.rs"))
    slot = tokenize(read("src/archetype/slot.rs"))
    idx = tokenize(read("src/index.rs"))
    out = []

    def only(gen, what):
        l = list(gen)
        if len(l) != 1:
            raise ExtractError(f"{what}: expected exactly one impl block, found {len(l)}")
        return l[0]

    def add(name, params, ty, width, get_toks, names, doc):
        # an expression that is not found / not recognised any more (a refactoring) must break only
        # ITS tie theorem, not the whole translation: it is emitted as a default value with the reason
        try:
            toks = get_toks()
            ast = parse(toks)
            out.append((name, params, ty, lean(ast, width, names), " ".join(toks), doc))
        except (ExtractError, IndexError, ValueError, KeyError) as e:
            out.append((name, params, ty, "0" if ty == "Nat" else "false", f"NOT RECOGNISED: {e}", doc))

    inh = lambda T: (lambda h: h == ["impl", T])

    def in_fn(toks, header_pred, what, fn, getter):
        lo, hi = only(impl_blocks(toks, header_pred), what)
        b = fn_body(toks, lo, hi, fn)
        return getter(b[0], b[1])

    # entity.rs: key packing / unpacking / hashing
    for T, idxname, pre in (("EntityAny", "slot_index", "entityAny"), ("EntityDirectAny", "dense_index", "entityDirectAny")):
        add(pre + "NewKey", f"({idxname} archetype_id : Nat)", "Nat", 32,
            lambda T=T: in_fn(ent, inh(T), f"impl {T}", "new", lambda lo, hi: let_init(ent, lo, hi, "key")),
            {idxname: idxname, "archetype_id": "archetype_id"}, f"src/entity.rs `{T}::new`: `let key = …;`")
        add(pre + "ArchetypeId", "(key : Nat)", "Nat", 32,
            lambda T=T: in_fn(ent, inh(T), f"impl {T}", "archetype_id", lambda lo, hi: tail_expr(ent, lo, hi)),
            {"key": "key"}, f"src/entity.rs `{T}::archetype_id`")
        add(pre + "Index", "(key : Nat)", "Nat", 32,
            lambda T=T, f=idxname: in_fn(ent, inh(T), f"impl {T}", f, lambda lo, hi: call_arg(ent, lo, hi, ["TrimmedIndex", "::", "new_u32"])),
            {"key": "key"}, f"src/entity.rs `{T}::{idxname}`: the argument of `TrimmedIndex::new_u32`")

        def hash_word(T=T):
            def g(lo, hi):
                hi_w = let_init(ent, lo, hi, "index")
                lo_w = let_init(ent, lo, hi, "version")
                if [t for t in hi_w if t not in ("(", ")")] != ["self", ".", "key", ".", "into"] or "version" not in lo_w:
                    raise ExtractError(f"Hash for {T}: the two hashed words are not `self.key` and the version")
                return let_init(ent, lo, hi, "combined")
            return in_fn(ent, lambda h: h == ["impl", "Hash", "for", T], f"impl Hash for {T}", "hash", g)
        add(pre + "HashWord", "(index version : Nat)", "Nat", 64, hash_word, {"index": "index", "version": "version"},
            f"src/entity.rs `Hash for {T}`: `let combined = …;` over `index = self.key`, `version = self.version`")
    # slot.rs: SlotIndex encoding
    S = lambda fn, getter: (lambda: in_fn(slot, inh("SlotIndex"), "impl SlotIndex", fn, getter))
    add("slotNewFree", "(index : Nat)", "Nat", 32, S("new_free", lambda lo, hi: call_arg(slot, lo, hi, ["Self"])), {"index": "index"}, "src/archetype/slot.rs `SlotIndex::new_free`: the stored word")
    add("slotNewData", "(index : Nat)", "Nat", 32, S("new_data", lambda lo, hi: call_arg(slot, lo, hi, ["Self"])), {"index": "index"}, "src/archetype/slot.rs `SlotIndex::new_data`: the stored word")
    add("slotIsFree", "(x : Nat)", "Bool", 32, S("is_free", lambda lo, hi: tail_expr(slot, lo, hi)), {"0": "x"}, "src/archetype/slot.rs `SlotIndex::is_free`")
    add("slotIsFreeEnd", "(x : Nat)", "Bool", 32, S("is_free_end", lambda lo, hi: tail_expr(slot, lo, hi)), {"0": "x"}, "src/archetype/slot.rs `SlotIndex::is_free_end`")
    add("slotIndexFree", "(x : Nat)", "Nat", 32, S("index_free", lambda lo, hi: call_arg(slot, lo, hi, ["TrimmedIndex", "::", "new_u32"])), {"0": "x"}, "src/archetype/slot.rs `SlotIndex::index_free`: the argument of `TrimmedIndex::new_u32`")
    add("slotIndexData", "(x : Nat)", "Nat", 32, S("index_data", lambda lo, hi: call_arg(slot, lo, hi, ["TrimmedIndex", "::", "new_u32"])), {"0": "x"}, "src/archetype/slot.rs `SlotIndex::index_data`: the argument of `TrimmedIndex::new_u32`")
    # index.rs: range of a TrimmedIndex
    for fnn in ("new_u32", "new_usize"):
        add("trimmed" + fnn.title().replace("_", ""), "(index : Nat)", "Bool", 64,
            lambda fnn=fnn: in_fn(idx, inh("TrimmedIndex"), "impl TrimmedIndex", fnn, lambda lo, hi: match_scrutinee(idx, lo, hi)),
            {"index": "index"}, f"src/index.rs `TrimmedIndex::{fnn}`: the condition under which `Some` is returned")
    lines = ["/- GENERATED by tools/extract.py from /repo/src/{entity.rs, archetype/slot.rs, index.rs} on every run. Do not edit.",
             "   Small pure expressions of the handle / slot encoding, translated token by token (Rust operator",
             "   precedence, machine width explicit: `<<` `+` `*` truncate, `!` complements within the width, `as u8` is `% 256`).",
             "   Tie theorems: Gecs/Lemmas/GenExprs.lean. -/",
             "import Gecs.Gen.Consts", "", "namespace Gecs.Gen", ""]
    for (name, params, ty, body, src, doc) in out:
        lines.append(f"/-- {doc}: `{src}` -/")
        lines.append(f"def {name} {params} : {ty} := {body}")
        lines.append("")
    lines.append("end Gecs.Gen")
    lines.append("")
    return "\n".join(lines)


# ----------------------------------------------------------------------------- version step (translated)

W32 = 2 ** 32


def _split_top(toks, sep):
    out, cur, depth = [], [], 0
    for t in toks:
        if t in OPEN:
            depth += 1
        elif t in OPEN.values():
            depth -= 1
        if t == sep and depth == 0:
            out.append(cur)
            cur = []
        else:
            cur.append(t)
    out.append(cur)
    return out


class VP:
    """value := atom ('.' method '(' args ')')*   over u32 / NonZeroU32 / Option<…> values.
    Returns (kind, lean) with kind in {'nat', 'opt'}."""

    def __init__(self, toks):
        self.t = toks
        self.i = 0

    def peek(self, k=0):
        return self.t[self.i + k] if self.i + k < len(self.t) else None

    def take(self):
        x = self.t[self.i]
        self.i += 1
        return x

    def args(self):
        if self.take() != "(":
            raise ExtractError("expected (")
        depth, start = 1, self.i
        while depth:
            t = self.take()
            if t in OPEN:
                depth += 1
            elif t in OPEN.values():
                depth -= 1
        inner = self.t[start:self.i - 1]
        return [a for a in _split_top(inner, ",") if a]

    def value(self):
        t = self.take()
        if t == "self" and self.peek() == "." and self.peek(1) == "version":
            self.i += 2
            cur = ("nat", "v")
        elif t == "VERSION_START":
            cur = ("nat", "VERSION_START")
        elif re.fullmatch(r"[0-9][0-9_]*(u32)?", t):
            cur = ("nat", re.sub(r"u32$", "", t).replace("_", ""))
        elif t == "NonZeroU32" and self.peek() == "::" and self.peek(1) == "new":
            self.i += 2
            a = self.args()
            if len(a) != 1:
                raise ExtractError("NonZeroU32::new takes one argument")
            k, x = VP(a[0]).whole()
            if k != "nat":
                raise ExtractError("NonZeroU32::new of a non-number")
            cur = ("opt", f"(if {x} = 0 then none else some {x})")
        else:
            raise ExtractError(f"unsupported token {t!r} in version expression {' '.join(self.t)}")
        while self.peek() == ".":
            self.take()
            m = self.take()
            a = self.args()
            k, x = cur
            if m == "get" and not a and k == "nat":
                cur = ("nat", x)
            elif m in ("wrapping_add", "checked_add", "saturating_add") and len(a) == 1 and k == "nat":
                ka, y = VP(a[0]).whole()
                if ka != "nat":
                    raise ExtractError(f"{m} of a non-number")
                if m == "wrapping_add":
                    cur = ("nat", f"(({x} + {y}) % {W32})")
                elif m == "checked_add":
                    cur = ("opt", f"(if {x} + {y} < {W32} then some ({x} + {y}) else none)")
                else:
                    cur = ("nat", f"(min ({x} + {y}) {W32 - 1})")
            elif m == "unwrap_or" and len(a) == 1 and k == "opt":
                ka, y = VP(a[0]).whole()
                cur = ("nat", f"(({x}).getD {y})")
            elif m in ("expect", "unwrap") and k == "opt":
                cur = ("opt", x)          # none = the documented panic
            else:
                raise ExtractError(f"unsupported method .{m}() on a {k} in version expression")
        return cur

    def whole(self):
        r = self.value()
        if self.i != len(self.t):
            raise ExtractError(f"trailing tokens in version expression {' '.join(self.t)}")
        return r


def extract_version_steps():
    ver = tokenize(read("src/version.rs"))
    out = []
    for T, pre in (("SlotVersion", "slotVersionNext"), ("ArchetypeVersion", "archVersionNext")):
        for variant, attr in (("Wrapping", ["#", "[", "cfg", "(", "feature", "=", '"wrapping_version"', ")", "]"]),
                              ("Checked", ["#", "[", "cfg", "(", "not", "(", "feature", "=", '"wrapping_version"', ")", ")", "]"])):
            name = pre + variant
            doc = f"src/version.rs `{T}::next`, the field initialiser under `{' '.join(attr)}`"
            try:
                blocks = list(impl_blocks(ver, lambda h: h == ["impl", T]))
                if len(blocks) != 1:
                    raise ExtractError(f"impl {T}: expected exactly one impl block")
                lo, hi = fn_body(ver, blocks[0][0], blocks[0][1], "next")
                tt = [t for (_, t) in ver[lo:hi]]
                n = len(attr)
                pos = [i for i in range(len(tt) - n) if tt[i:i + n] == attr]
                if len(pos) != 1:
                    raise ExtractError(f"{T}::next: expected exactly one `{' '.join(attr)}` initialiser, found {len(pos)}")
                j = pos[0] + n
                if tt[j:j + 2] != ["version", ":"]:
                    raise ExtractError(f"{T}::next: the cfg attribute does not decorate a `version:` initialiser")
                e = j + 2
                depth = 0
                while not ((tt[e] == "," or tt[e] == "}") and depth == 0):
                    if tt[e] in OPEN:
                        depth += 1
                    if tt[e] in OPEN.values():
                        depth -= 1
                    e += 1
                toks = tt[j + 2:e]
                k, x = VP(toks).whole()
                body = x if k == "opt" else f"some {x}"
                out.append((name, body, " ".join(toks), doc))
            except (ExtractError, IndexError, ValueError, KeyError) as ex:
                out.append((name, "none", f"NOT RECOGNISED: {ex}", doc))
    lines = []
    for (name, body, src, doc) in out:
        lines.append(f"/-- {doc}: `{src}` (`none` = the documented overflow panic) -/")
        lines.append(f"def {name} (v : Nat) : Option Nat := {body}")
        lines.append("")
    return "\n".join(lines)




def main():
    os.makedirs(GEN, exist_ok=True)
    try:
        files = {"Consts.lean": extract_consts(), "Tokens.lean": extract_tokens(), "Fields.lean": extract_fields()}
        files["FieldsAst.lean"] = fields_ast(_FIELD_ROWS)
        files["Exprs.lean"] = extract_exprs().replace("end Gecs.Gen\n", extract_version_steps() + "\nend Gecs.Gen\n")
        sig_text, sig_rows = extract_sigs()
        ref_rows = extract_ref_impls()
        sig_text = sig_text.replace("\nend Gecs.Gen\n", "\n/-- reference-to-reference conversion impls of src/** (header, is the produced reference tied to the\nconsumed one by the same named lifetime?) -/\ndef refImpls : List (String × Bool) := [\n"
                                    + ",\n".join(f"  ({lean_str(r['text'])}, {'true' if r['tied'] else 'false'})" for r in ref_rows) + "\n]\n\nend Gecs.Gen\n")
        files["Sigs.lean"] = sig_text
        import extract_steps
        files["Steps.lean"] = extract_steps.extract_steps()
        json.dump(ref_rows, open(os.path.join(GEN, "refimpls.json"), "w"), indent=1)
        json.dump([{"item": n, "recv": r, "borrows": b} for (n, r, b) in sig_rows], open(os.path.join(GEN, "sigs.json"), "w"), indent=1)
    except (ExtractError, IndexError, ValueError, KeyError) as e:
        print(f"EXTRACT-ERROR: {e!r}")
        return 1
    for name, text in files.items():
        p = os.path.join(GEN, name)
        old = open(p).read() if os.path.exists(p) else None
        if old != text:
            open(p, "w").write(text)
            print(f"updated {p}")
    return 0


if __name__ == "__main__":
    sys.exit(main())
